#!/venv/bin/python
"""dev helper: copy confirmed seeded changes into /verif/seeded/<id>/ with meta.json (from a seedeval summary json)"""
import json, os, shutil, sys
for summ in sys.argv[1:]:
    d = json.load(open(summ))
    for name, r in d.items():
        pid, k = name.split("/")
        src = os.environ.get("SEEDPREFIX", "/tmp/seed_") + "%s/%s" % (pid, k)
        if "error" in r or not (r["tests_pass_with_patch"] and r["demo_rc_with_patch"] != 0 and r["demo_rc_clean"] == 0):
            print("NOT CONFIRMED", name, r)
            continue
        dst = "/verif/seeded/%s-%s%s" % (pid, os.environ.get("SEEDTAG", ""), k)
        os.makedirs(dst, exist_ok=True)
        for f in ("patch.diff", "demo.py", "notes.md"):
            if os.path.exists(os.path.join(src, f)):
                shutil.copy(os.path.join(src, f), os.path.join(dst, f))
        notes = open(os.path.join(src, "notes.md")).read() if os.path.exists(os.path.join(src, "notes.md")) else ""
        meta = {
            "id": "%s-%s%s" % (pid, os.environ.get("SEEDTAG", ""), k), "breaks_property": pid, "origin": "independent sub-agent given only the property text and a scratch worktree",
            "needs_to_manifest": "see notes.md (written by the author of the change)",
            "confirmed": {"how": "applied in scratch worktree %s%s: full test-suite, demo with the patch, demo on the clean tree" % (os.environ.get("WTPREFIX", "/tmp/wt_"), pid),
                          "tests_with_patch": "330 passed" if r["tests_pass_with_patch"] else "FAILED", "demo_exit_with_patch": r["demo_rc_with_patch"],
                          "demo_exit_clean": r["demo_rc_clean"], "demo_last_line": r.get("demo_tail", "")},
            "what_i_ran": "tools/seedeval.py %s  (git apply patch.diff; /venv/bin/python -m pytest -q -p no:cacheprovider -x; demo.py; ./check <all 20> --root <worktree>; git checkout -- .; demo.py)" % pid,
            "detected_by": {p: v["new"] for p, v in r["detected_by"].items() if v["new"]},
            "analysis_errors_raised": {p: v["errors"] for p, v in r["detected_by"].items() if v["errors"] and not v["new"]},
            "detected": bool([p for p, v in r["detected_by"].items() if v["new"]]),
        }
        json.dump(meta, open(os.path.join(dst, "meta.json"), "w"), indent=1)
        print("stored", dst, "detected by", sorted(meta["detected_by"]))
