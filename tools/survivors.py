#!/venv/bin/python
"""dev helper: regenerate (a subset of) the design-time test-surviving mutants on the CURRENT tree and run all checks on each.
Mutants are located through the pinned tree (line + text) and re-found in the current tree by enclosing function + statement text."""
import ast, json, os, shutil, subprocess, sys, tempfile, collections
from concurrent.futures import ThreadPoolExecutor
PIN = "e57a5bb"
PROPS = ["C%02d" % i for i in range(1, 21)]
rows = [json.loads(l) for l in open("/verif/findings/mutation_study/survivors.jsonl")]
ops = set(sys.argv[1:]) or {"swapstmt", "del", "boolconst", "augflip", "binflip", "maxmin", "idx0", "rmnot", "retnone", "listop"}
rows = [r for r in rows if r["op"] in ops]

def func_of(tree, where):
    parts = where.split(".")
    node = tree
    for p in parts:
        nxt = None
        for n in ast.iter_child_nodes(node):
            if isinstance(n, (ast.ClassDef, ast.FunctionDef)) and n.name == p:
                nxt = n
        if nxt is None:
            return None
        node = nxt
    return node

def parents(tree):
    for n in ast.walk(tree):
        for c in ast.iter_child_nodes(n):
            c._p = n

def mutate(r):
    """-> new source of the current file or None"""
    cur_path = "/repo/ciw/" + r["file"]
    src = open(cur_path).read()
    tree = ast.parse(src)
    parents(tree)
    scope = func_of(tree, r["where"]) or tree
    op, text = r["op"], r["text"]
    def stmts():
        for n in ast.walk(scope):
            for f in ("body", "orelse", "finalbody"):
                v = getattr(n, f, None)
                if isinstance(v, list) and v and isinstance(v[0], ast.stmt):
                    yield v
    if op == "swapstmt":
        a, b = [t.strip() for t in text.split(" <-> ")]
        for body in stmts():
            for i in range(len(body) - 1):
                if ast.unparse(body[i]).split("\n")[0].startswith(a[:40]) and ast.unparse(body[i + 1]).split("\n")[0].startswith(b[:40]):
                    body[i], body[i + 1] = body[i + 1], body[i]
                    return ast.unparse(tree)
        return None
    if op == "del":
        for body in stmts():
            for i, st in enumerate(body):
                if ast.unparse(st).split("\n")[0].startswith(text[:60]):
                    body[i] = ast.Pass()
                    return ast.unparse(tree)
        return None
    # expression-level: find by line in the pinned tree, then the same statement text in the current tree
    pin_src = subprocess.run(["git", "-C", "/repo", "show", "%s:ciw/%s" % (PIN, r["file"])], capture_output=True, text=True).stdout
    ptree = ast.parse(pin_src)
    parents(ptree)
    def stmt_of(n):
        while not isinstance(n, ast.stmt):
            n = n._p
        return n
    def pick(pred):
        c = [n for n in ast.walk(ptree) if getattr(n, "lineno", None) == r["line"] and pred(n)]
        return c
    preds = {
        "boolconst": lambda n: isinstance(n, ast.Constant) and isinstance(n.value, bool) and str(n.value) == text,
        "augflip": lambda n: isinstance(n, ast.AugAssign) and isinstance(n.op, (ast.Add, ast.Sub)),
        "binflip": lambda n: isinstance(n, ast.BinOp) and isinstance(n.op, (ast.Add, ast.Sub)),
        "maxmin": lambda n: isinstance(n, ast.Call) and isinstance(n.func, ast.Name) and n.func.id in ("max", "min"),
        "idx0": lambda n: isinstance(n, ast.Subscript) and isinstance(n.slice, ast.Constant) and n.slice.value == 0,
        "rmnot": lambda n: isinstance(n, ast.UnaryOp) and isinstance(n.op, ast.Not),
        "retnone": lambda n: isinstance(n, ast.Return) and n.value is not None,
        "listop": lambda n: isinstance(n, ast.Call) and isinstance(n.func, ast.Attribute) and n.func.attr in ("append", "pop"),
    }
    cands = pick(preds[op])
    cands = [c for c in cands if ast.unparse(c).startswith(text[:30]) or op in ("boolconst",)] or cands
    if len(cands) != 1:
        return None
    target = cands[0]
    pst = stmt_of(target)
    ptxt = ast.unparse(pst).split("\n")[0]
    # index of target among same-kind nodes inside its statement
    same = [n for n in ast.walk(pst) if preds[op](n) and (op != "boolconst" or str(n.value) == text)]
    k = [id(x) for x in same].index(id(target))
    # locate the statement in the current tree
    cst = None
    for body in stmts():
        for st in body:
            if ast.unparse(st).split("\n")[0] == ptxt:
                cst = st
    if cst is None:
        return None
    same_c = [n for n in ast.walk(cst) if preds[op](n) and (op != "boolconst" or str(n.value) == text)]
    if k >= len(same_c):
        return None
    n = same_c[k]
    if op == "boolconst":
        n.value = not n.value
    elif op in ("augflip", "binflip"):
        n.op = ast.Sub() if isinstance(n.op, ast.Add) else ast.Add()
    elif op == "maxmin":
        n.func.id = "min" if n.func.id == "max" else "max"
    elif op == "idx0":
        n.slice = ast.UnaryOp(op=ast.USub(), operand=ast.Constant(value=1))
    elif op == "rmnot":
        par = n._p
        for f, v in ast.iter_fields(par):
            if v is n:
                setattr(par, f, n.operand)
            elif isinstance(v, list) and n in v:
                v[v.index(n)] = n.operand
    elif op == "retnone":
        n.value = ast.Constant(value=None)
    elif op == "listop":
        if n.func.attr == "append":
            n.func.attr = "insert"
            n.args = [ast.Constant(value=0)] + n.args
        elif n.args:
            n.args = []
        else:
            n.args = [ast.Constant(value=0)]
    return ast.unparse(ast.fix_missing_locations(tree))

def base_keys():
    out = {}
    for p in PROPS:
        ev = json.load(open("/verif/evidence/%s.json" % p))
        out[p] = set(ev["coverage"]["new_findings"]) | set(ev["coverage"]["known_findings_matched"])
    return out
BASE = base_keys()

def run(r):
    try:
        new = mutate(r)
    except Exception as e:
        return r, "gen-error %s" % e, {}
    if new is None:
        return r, "not-regenerated", {}
    d = tempfile.mkdtemp(prefix="ciwsurv-")
    try:
        shutil.copytree("/repo/ciw", os.path.join(d, "ciw"), ignore=shutil.ignore_patterns("tests", "__pycache__"))
        open(os.path.join(d, "ciw", r["file"]), "w").write(new)
        hits = {}
        for p in PROPS:
            rr = subprocess.run(["/venv/bin/python", "-m", "sa.run", p, "--root", d], cwd="/verif", capture_output=True, text=True)
            if rr.returncode != 0:
                try:
                    ev = json.load(open(os.path.join(d, "evidence", p + ".json")))
                    keys = (set(ev["coverage"]["new_findings"]) | set(ev["coverage"]["known_findings_matched"])) - BASE[p]
                    errs = ev["coverage"]["analysis_errors"]
                except Exception:
                    keys, errs = set(), ["crash"]
                if keys or errs:
                    hits[p] = (sorted(keys), errs[:2])
        return r, "ok", hits
    finally:
        shutil.rmtree(d)

out = []
with ThreadPoolExecutor(14) as ex:
    for r, status, hits in ex.map(run, rows):
        tag = "ALARM" if hits else "silent"
        print("%-8s %-9s %-14s %-40s %s" % (status, r["op"], r["file"], r["where"][:40], r["text"][:70]), "=>", tag, ",".join(sorted(hits)), flush=True)
        for p, (k, e) in sorted(hits.items()):
            for kk in k[:2]:
                print("          ", p, kk[:150])
            for ee in e[:1]:
                print("          ", p, "ERR", ee[:150])
        out.append({"mutant": r, "status": status, "hits": {p: v[0] for p, v in hits.items()}, "errors": {p: v[1] for p, v in hits.items() if v[1]}})
json.dump(out, open("/tmp/survivors_%s.json" % "_".join(sorted(ops))[:60], "w"), indent=1)
c = collections.Counter((o["status"], bool(o["hits"])) for o in out)
print(c)
