#!/venv/bin/python
"""dev helper: regression over the stored seeded changes.  For each /verif/seeded/<id>/patch.diff: apply it in a scratch worktree (WT=/tmp/wr_1 by default,
one per worker), run the check(s) of the property it breaks with --root, expect a VIOLATION (new finding key) for that property; undo."""
import glob, json, os, shutil, subprocess, sys, tempfile
from concurrent.futures import ThreadPoolExecutor
import threading, queue

WTS = [w for w in os.environ.get("WTS", "/tmp/wr_1 /tmp/wr_2 /tmp/wr_3 /tmp/wr_4").split() if os.path.isdir(w)]
pool = queue.Queue()
for w in WTS:
    pool.put(w)


def sh(cmd, cwd):
    r = subprocess.run(cmd, cwd=cwd, shell=True, capture_output=True, text=True)
    return r.returncode, r.stdout + r.stderr


def one(d):
    meta = json.load(open(os.path.join(d, "meta.json")))
    pid = meta["breaks_property"]
    wt = pool.get()
    try:
        sh("git checkout -- . && git clean -fdq", wt)
        rc, out = sh("git apply " + os.path.join(d, "patch.diff"), wt)
        if rc != 0:
            return os.path.basename(d), pid, "DOES-NOT-APPLY", []
        pids = sorted(meta.get("detected_by") or [pid])
        allnew, allerrs = [], []
        for q in pids:
            od = tempfile.mkdtemp(prefix="ciwout-")
            try:
                base = json.load(open("/verif/evidence/%s.json" % q))
                bkeys = set(base["coverage"]["new_findings"]) | set(base["coverage"]["known_findings_matched"])
                r = subprocess.run(["/venv/bin/python", "-m", "sa.run", q, "--root", wt], cwd="/verif", env=dict(os.environ, VERIF_OUTDIR=od), capture_output=True, text=True)
                try:
                    ev = json.load(open(os.path.join(od, "evidence", q + ".json")))
                    new = sorted(set(ev["coverage"]["new_findings"]) - bkeys)
                    errs = ev["coverage"]["analysis_errors"]
                except Exception:
                    new, errs = [], ["crash " + r.stdout[-200:] + r.stderr[-200:]]
                if not new:
                    allerrs.append("%s: no new finding %s" % (q, errs[:1]))
                allnew += ["%s: %s" % (q, k) for k in new]
            finally:
                shutil.rmtree(od)
        # every check that detected the change when it was stored must still detect it
        status = "DETECTED" if allnew and not allerrs else ("PARTIAL" if allnew else "MISSED")
        return os.path.basename(d), pid, status, allerrs[:2] or allnew[:2]
    finally:
        sh("git checkout -- . && git clean -fdq", wt)
        pool.put(wt)


dirs = sorted(glob.glob("/verif/seeded/*/"))
dirs = [d.rstrip("/") for d in dirs if not sys.argv[1:] or any(a in d for a in sys.argv[1:])]
bad = 0
with ThreadPoolExecutor(len(WTS)) as ex:
    for name, pid, status, info in ex.map(one, dirs):
        if status != "DETECTED":
            bad += 1
        print("%-10s %s %-14s %s" % (name, pid, status, (info[0][:150] if info else "")), flush=True)
print("%d seeds, %d not detected" % (len(dirs), bad))
