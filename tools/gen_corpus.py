#!/venv/bin/python
"""dev helper: regenerate sa/selftest/corpus.py from tools/devmuts.py (the two must stay in sync)"""
import importlib.util, os
here = os.path.dirname(os.path.abspath(__file__))
spec = importlib.util.spec_from_file_location("m", os.path.join(here, "devmuts.py")); mod = importlib.util.module_from_spec(spec); spec.loader.exec_module(mod)
HEAD = '''"""Self-validation corpus (DESIGN §7): textual single-site variants of the current tree.

(property, file under ciw/, old text, new text, expectation)  expectation: "V" = breaking: the check must report a finding the base tree
does not have; "S" = behaviour-preserving (or irrelevant to the property): the verdict must not change.  A variant whose `old` text
does not occur exactly once in the current tree is skipped (the tree has moved on), never counted as a pass."""

CORPUS = [
'''
with open(os.path.join(here, "..", "sa", "selftest", "corpus.py"), "w") as f:
    f.write(HEAD)
    for m in mod.MUTS:
        f.write("    %r,\n" % (tuple(m[:5]),))
    f.write("]\n")
print(len(mod.MUTS), "entries:", sum(1 for m in mod.MUTS if m[4] == "V"), "V,", sum(1 for m in mod.MUTS if m[4] == "S"), "S")
