#!/venv/bin/python
"""dev helper: confirm seeded changes (tests pass, demo fails with / passes without) in their scratch worktree and run all checks against them.
usage: tools/seedeval.py C01 [C03 ...]   (reads /tmp/seed_<ID>/<k>/, uses /tmp/wt_<ID> as scratch worktree)"""
import glob, json, os, subprocess, sys, tempfile, shutil
from concurrent.futures import ThreadPoolExecutor
PROPS = ["C%02d" % i for i in range(1, 21)]

def sh(cmd, cwd, env=None, timeout=1200):
    r = subprocess.run(cmd, cwd=cwd, shell=True, capture_output=True, text=True, env=env, timeout=timeout)
    return r.returncode, r.stdout + r.stderr

def base_keys():
    out = {}
    def one(p):
        od = tempfile.mkdtemp(prefix="ciwout-")
        try:
            subprocess.run(["/venv/bin/python", "-m", "sa.run", p], cwd="/verif", env=dict(os.environ, VERIF_OUTDIR=od), capture_output=True)
            ev = json.load(open(os.path.join(od, "evidence", p + ".json")))
            return p, set(ev["coverage"]["new_findings"]) | set(ev["coverage"]["known_findings_matched"])
        finally:
            shutil.rmtree(od)
    with ThreadPoolExecutor(16) as ex:
        for p, k in ex.map(one, PROPS):
            out[p] = k
    return out

def check_all(root, base):
    res = {}
    def one(p):
        od = tempfile.mkdtemp(prefix="ciwout-")
        try:
            r = subprocess.run(["/venv/bin/python", "-m", "sa.run", p, "--root", root], cwd="/verif", env=dict(os.environ, VERIF_OUTDIR=od), capture_output=True, text=True)
            try:
                ev = json.load(open(os.path.join(od, "evidence", p + ".json")))
                keys = set(ev["coverage"]["new_findings"]) | set(ev["coverage"]["known_findings_matched"])
                errs = ev["coverage"]["analysis_errors"]
            except Exception:
                keys, errs = set(), [l for l in r.stdout.splitlines() if "ANALYSIS-ERROR" in l or "Error" in l][:3]
            return p, r.returncode, sorted(keys - base[p]), errs
        finally:
            shutil.rmtree(od)
    with ThreadPoolExecutor(16) as ex:
        for p, rc, new, errs in ex.map(one, PROPS):
            if rc != 0 and (new or errs):
                res[p] = {"rc": rc, "new": new, "errors": errs[:3]}
    return res

base = base_keys()
summary = {}
for pid in sys.argv[1:]:
    wt = os.environ.get("WTPREFIX", "/tmp/wt_") + pid
    for d in sorted(glob.glob(os.environ.get("SEEDPREFIX", "/tmp/seed_") + "%s/[0-9]*" % pid)):
        k = os.path.basename(d)
        name = "%s/%s" % (pid, k)
        sh("git checkout -- . && git clean -fdq", wt)
        rc, out = sh("git apply %s/patch.diff" % d, wt)
        if rc != 0:
            summary[name] = {"error": "patch does not apply: " + out[-200:]}
            continue
        rc_t, out_t = sh("/venv/bin/python -m pytest -q -p no:cacheprovider -x 2>&1 | tail -2", wt)
        tests_ok = "330 passed" in out_t
        rc_d, out_d = sh("PYTHONPATH=%s /venv/bin/python %s/demo.py" % (wt, d), wt)
        det = check_all(wt, base)
        sh("git checkout -- . && git clean -fdq", wt)
        rc_c, out_c = sh("PYTHONPATH=%s /venv/bin/python %s/demo.py" % (wt, d), wt)
        summary[name] = {"tests_pass_with_patch": tests_ok, "demo_rc_with_patch": rc_d, "demo_rc_clean": rc_c, "detected_by": det,
                         "demo_tail": out_d.strip().splitlines()[-1][:200] if out_d.strip() else ""}
        print(name, "tests_ok=%s demo_with=%d demo_clean=%d" % (tests_ok, rc_d, rc_c), "DETECTED by " + ",".join(sorted(det)) if det else "MISSED", flush=True)
        for p, v in sorted(det.items()):
            for kx in v["new"][:3]:
                print("     ", p, kx[:160])
            for e in v["errors"][:2]:
                print("     ", p, "ERR", e[:160])
json.dump(summary, open(os.environ.get("SEEDOUT", "/tmp/seedeval_%s.json" % "_".join(sys.argv[1:])[:40]), "w"), indent=1)
