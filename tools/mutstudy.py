#!/venv/bin/python
"""dev helper: fresh single-point mutation study on the CURRENT tree.
phase 1: generate mutants, run the 330 tests on each (scratch copies under /tmp, removed), keep the survivors
phase 2: run all 20 checks on each survivor
usage: tools/mutstudy.py gen|test|check   (state in /tmp/mutstudy/)"""
import ast, copy, json, os, shutil, subprocess, sys, tempfile, collections
from concurrent.futures import ThreadPoolExecutor
FILES = ["node.py", "arrival_node.py", "simulation.py", "exit_node.py", "processor_sharing.py", "exactnode.py", "server.py", "schedules.py",
         "routing/routing.py", "trackers/state_tracker.py", "deadlock/deadlock_detector.py", "auxiliary.py", "disciplines.py", "individual.py"]
STATE = "/tmp/mutstudy"
os.makedirs(STATE, exist_ok=True)

def gen():
    muts = []
    for f in FILES:
        src = open("/repo/ciw/" + f).read()
        tree = ast.parse(src)
        nodes = list(ast.walk(tree))
        def emit(op, node, mutate, desc):
            t2 = copy.deepcopy(tree)
            n2 = list(ast.walk(t2))[nodes.index(node)]
            if mutate(n2, t2) is False:
                return
            try:
                new = ast.unparse(ast.fix_missing_locations(t2))
                ast.parse(new)
            except Exception:
                return
            if new == ast.unparse(tree):
                return
            muts.append({"file": f, "op": op, "line": getattr(node, "lineno", 0), "desc": desc, "src": new})
        parent = {}
        for n in nodes:
            for c in ast.iter_child_nodes(n):
                parent[id(c)] = n
        for n in nodes:
            if isinstance(n, (ast.Assign, ast.AugAssign, ast.Expr)) and not (isinstance(n, ast.Expr) and isinstance(n.value, ast.Constant)):
                def m(n2, t2):
                    for p in ast.walk(t2):
                        for fld in ("body", "orelse", "finalbody"):
                            v = getattr(p, fld, None)
                            if isinstance(v, list) and n2 in v:
                                v[v.index(n2)] = ast.Pass()
                                return
                    return False
                emit("del", n, m, ast.unparse(n)[:90])
            if isinstance(n, ast.Compare) and len(n.ops) == 1:
                alts = {ast.Lt: [ast.LtE, ast.Gt], ast.LtE: [ast.Lt], ast.Gt: [ast.GtE, ast.Lt], ast.GtE: [ast.Gt], ast.Eq: [ast.NotEq], ast.NotEq: [ast.Eq],
                        ast.Is: [ast.IsNot], ast.IsNot: [ast.Is]}.get(type(n.ops[0]), [])
                for alt in alts:
                    emit("cmp", n, lambda n2, t2, alt=alt: n2.ops.__setitem__(0, alt()), "%s -> %s" % (ast.unparse(n)[:70], alt.__name__))
            if isinstance(n, ast.BoolOp):
                emit("bool", n, lambda n2, t2: setattr(n2, "op", ast.Or() if isinstance(n2.op, ast.And) else ast.And()), ast.unparse(n)[:80])
                for i in range(len(n.values)):
                    def m(n2, t2, i=i):
                        del n2.values[i]
                        if len(n2.values) == 1:
                            n2.values.append(ast.Constant(value=isinstance(n2.op, ast.And)))
                    emit("dropconj", n, m, "%s drop #%d" % (ast.unparse(n)[:70], i))
            if isinstance(n, (ast.If, ast.While)):
                emit("negif", n, lambda n2, t2: setattr(n2, "test", ast.UnaryOp(op=ast.Not(), operand=n2.test)), ast.unparse(n.test)[:80])
            if isinstance(n, ast.AugAssign) and isinstance(n.op, (ast.Add, ast.Sub)):
                emit("aug", n, lambda n2, t2: setattr(n2, "op", ast.Sub() if isinstance(n2.op, ast.Add) else ast.Add()), ast.unparse(n)[:80])
            if isinstance(n, ast.BinOp) and isinstance(n.op, (ast.Add, ast.Sub)):
                emit("bin", n, lambda n2, t2: setattr(n2, "op", ast.Sub() if isinstance(n2.op, ast.Add) else ast.Add()), ast.unparse(n)[:80])
            if isinstance(n, ast.Constant) and isinstance(n.value, bool):
                emit("boolconst", n, lambda n2, t2: setattr(n2, "value", not n2.value), "%s @ %s" % (n.value, ast.unparse(parent.get(id(n), n))[:60]))
            elif isinstance(n, ast.Constant) and n.value in (0, 1) and not isinstance(n.value, bool):
                emit("const", n, lambda n2, t2: setattr(n2, "value", 1 - n2.value), "%s @ %s" % (n.value, ast.unparse(parent.get(id(n), n))[:60]))
            if isinstance(n, ast.Call) and isinstance(n.func, ast.Attribute) and n.func.attr == "append" and len(n.args) == 1:
                def m(n2, t2):
                    n2.func.attr = "insert"
                    n2.args = [ast.Constant(value=0)] + n2.args
                emit("listop", n, m, ast.unparse(n)[:80])
            if isinstance(n, ast.Call) and isinstance(n.func, ast.Attribute) and n.func.attr == "pop":
                emit("listop", n, lambda n2, t2: setattr(n2, "args", [] if n2.args else [ast.Constant(value=0)]), ast.unparse(n)[:80])
            if isinstance(n, ast.Call) and isinstance(n.func, ast.Name) and n.func.id in ("max", "min"):
                emit("maxmin", n, lambda n2, t2: setattr(n2.func, "id", "min" if n2.func.id == "max" else "max"), ast.unparse(n)[:80])
            if isinstance(n, ast.Subscript) and isinstance(n.slice, ast.Constant) and n.slice.value == 0:
                emit("idx0", n, lambda n2, t2: setattr(n2, "slice", ast.UnaryOp(op=ast.USub(), operand=ast.Constant(value=1))), ast.unparse(n)[:80])
            if isinstance(n, ast.Call) and len(n.args) >= 2 and not any(isinstance(a, ast.Starred) for a in n.args):
                def m(n2, t2):
                    n2.args[0], n2.args[1] = n2.args[1], n2.args[0]
                emit("swapargs", n, m, ast.unparse(n)[:80])
    json.dump(muts, open(STATE + "/mutants.json", "w"))
    print(len(muts), collections.Counter(m["op"] for m in muts))

def test():
    muts = json.load(open(STATE + "/mutants.json"))
    def one(i):
        m = muts[i]
        d = tempfile.mkdtemp(prefix="ciwms-")
        try:
            shutil.copytree("/repo/ciw", os.path.join(d, "ciw"), ignore=shutil.ignore_patterns("__pycache__"))
            open(os.path.join(d, "ciw", m["file"]), "w").write(m["src"])
            try:
                r = subprocess.run(["/venv/bin/python", "-m", "pytest", "-q", "-x", "-p", "no:cacheprovider", "--timeout=120", os.path.join(d, "ciw", "tests")],
                                   cwd=d, env=dict(os.environ, PYTHONPATH=d), capture_output=True, text=True, timeout=400)
                ok = "330 passed" in r.stdout
                return i, "survived" if ok else "killed"
            except subprocess.TimeoutExpired:
                return i, "timeout"
        finally:
            shutil.rmtree(d, ignore_errors=True)
    res = {}
    with ThreadPoolExecutor(15) as ex:
        for k, (i, st) in enumerate(ex.map(one, range(len(muts)))):
            res[i] = st
            if k % 100 == 0:
                print(k, collections.Counter(res.values()), flush=True)
                json.dump(res, open(STATE + "/test_results.json", "w"))
    json.dump(res, open(STATE + "/test_results.json", "w"))
    print(collections.Counter(res.values()))

def check():
    muts = json.load(open(STATE + "/mutants.json"))
    res = json.load(open(STATE + "/test_results.json"))
    surv = [int(i) for i, st in res.items() if st == "survived"]
    PROPS = ["C%02d" % i for i in range(1, 21)]
    base = {}
    for p in PROPS:
        ev = json.load(open("/verif/evidence/%s.json" % p))
        base[p] = set(ev["coverage"]["new_findings"]) | set(ev["coverage"]["known_findings_matched"])
    def one(i):
        m = muts[i]
        d = tempfile.mkdtemp(prefix="ciwmc-")
        try:
            shutil.copytree("/repo/ciw", os.path.join(d, "ciw"), ignore=shutil.ignore_patterns("tests", "__pycache__"))
            open(os.path.join(d, "ciw", m["file"]), "w").write(m["src"])
            hits = {}
            for p in PROPS:
                rr = subprocess.run(["/venv/bin/python", "-m", "sa.run", p, "--root", d], cwd="/verif", capture_output=True, text=True)
                if rr.returncode != 0:
                    try:
                        ev = json.load(open(os.path.join(d, "evidence", p + ".json")))
                        keys = (set(ev["coverage"]["new_findings"]) | set(ev["coverage"]["known_findings_matched"])) - base[p]
                        errs = ev["coverage"]["analysis_errors"]
                    except Exception:
                        keys, errs = set(), ["crash: " + rr.stdout[-200:]]
                    if keys or errs:
                        hits[p] = [sorted(keys), errs[:2]]
            return i, hits
        finally:
            shutil.rmtree(d, ignore_errors=True)
    out = []
    with ThreadPoolExecutor(15) as ex:
        for i, hits in ex.map(one, surv):
            m = muts[i]
            print("%-9s %-28s L%-4d %-80s => %s %s" % (m["op"], m["file"], m["line"], m["desc"][:80], "ALARM" if hits else "silent", ",".join(sorted(hits))), flush=True)
            for p, (k, e) in sorted(hits.items()):
                for kk in k[:2]:
                    print("            ", p, kk[:150])
                for ee in e[:1]:
                    print("            ", p, "ERR", ee[:150])
            out.append({"i": i, "file": m["file"], "op": m["op"], "line": m["line"], "desc": m["desc"], "hits": hits})
    json.dump(out, open(STATE + "/check_results.json", "w"), indent=1)

{"gen": gen, "test": test, "check": check}[sys.argv[1]]()
