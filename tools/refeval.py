#!/venv/bin/python
"""dev helper: apply each behaviour-preserving refactoring /tmp/refac_<i>/<k>.diff in worktree /tmp/wr_<i> and run all checks; any verdict change is a false alarm"""
import glob, json, os, subprocess, sys, tempfile, shutil
from concurrent.futures import ThreadPoolExecutor
PROPS = ["C%02d" % i for i in range(1, 21)]
base = {}
for p in PROPS:
    ev = json.load(open("/verif/evidence/%s.json" % p))
    base[p] = set(ev["coverage"]["new_findings"]) | set(ev["coverage"]["known_findings_matched"])
def sh(cmd, cwd):
    r = subprocess.run(cmd, cwd=cwd, shell=True, capture_output=True, text=True)
    return r.returncode, r.stdout + r.stderr
areas = sys.argv[1:] or ["1", "2", "3", "4"]
tests = "--tests" in sys.argv
for a in [x for x in areas if x.isdigit()]:
    wt = "/tmp/wr_" + a
    for d in sorted(glob.glob("/tmp/refac_%s/*.diff" % a), key=lambda x: int(os.path.basename(x).split(".")[0])):
        sh("git checkout -- . && git clean -fdq", wt)
        rc, out = sh("git apply " + d, wt)
        if rc != 0:
            print(d, "DOES NOT APPLY", out[-100:]); continue
        tmsg = ""
        if tests:
            rc_t, out_t = sh("/venv/bin/python -m pytest -q -p no:cacheprovider -x 2>&1 | tail -1", wt)
            tmsg = "tests:" + ("ok" if "330 passed" in out_t else "FAIL")
        def one(p):
            od = tempfile.mkdtemp(prefix="ciwout-")
            try:
                r = subprocess.run(["/venv/bin/python", "-m", "sa.run", p, "--root", wt], cwd="/verif", env=dict(os.environ, VERIF_OUTDIR=od), capture_output=True, text=True)
                try:
                    ev = json.load(open(os.path.join(od, "evidence", p + ".json")))
                    keys = set(ev["coverage"]["new_findings"]) | set(ev["coverage"]["known_findings_matched"])
                    errs = ev["coverage"]["analysis_errors"]
                except Exception:
                    keys, errs = set(), ["crash " + r.stdout[-300:]]
                return p, sorted(keys - base[p]), sorted(base[p] - keys), errs
            finally:
                shutil.rmtree(od)
        bad = []
        with ThreadPoolExecutor(16) as ex:
            for p, new, gone, errs in ex.map(one, PROPS):
                if new or gone or errs:
                    bad.append((p, new, gone, errs))
        print(d, tmsg, "SILENT" if not bad else "VERDICT CHANGED: " + ",".join(b[0] for b in bad), flush=True)
        for p, new, gone, errs in bad:
            for k in new[:3]: print("      +", p, k[:170])
            for k in gone[:3]: print("      -", p, k[:170])
            for e in errs[:2]: print("      E", p, e[:170])
        sh("git checkout -- . && git clean -fdq", wt)
