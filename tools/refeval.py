#!/venv/bin/python
"""dev helper: apply each stored behaviour-preserving refactoring /verif/refactors/<id>/patch.diff in a scratch worktree (/tmp/wr_1..4, one per worker) and run
all twenty checks; any change of verdict (finding keys or analysis errors) w.r.t. the clean-tree evidence is a false alarm.
usage: tools/refeval.py [id-substring ...] [--tests]"""
import glob, json, os, subprocess, sys, tempfile, shutil, queue
from concurrent.futures import ThreadPoolExecutor
PROPS = ["C%02d" % i for i in range(1, 21)]
WTS = [w for w in os.environ.get("WTS", "/tmp/wr_1 /tmp/wr_2 /tmp/wr_3 /tmp/wr_4").split() if os.path.isdir(w)]
pool = queue.Queue()
for w in WTS:
    pool.put(w)
base = {}
for p in PROPS:
    ev = json.load(open("/verif/evidence/%s.json" % p))
    base[p] = set(ev["coverage"]["new_findings"]) | set(ev["coverage"]["known_findings_matched"])
tests = "--tests" in sys.argv
sel = [a for a in sys.argv[1:] if not a.startswith("--")]


def sh(cmd, cwd):
    r = subprocess.run(cmd, cwd=cwd, shell=True, capture_output=True, text=True)
    return r.returncode, r.stdout + r.stderr


def one(d):
    wt = pool.get()
    try:
        sh("git checkout -- . && git clean -fdq", wt)
        rc, out = sh("git apply " + os.path.join(d, "patch.diff"), wt)
        if rc != 0:
            return d, "DOES NOT APPLY", []
        tmsg = ""
        if tests:
            rc_t, out_t = sh("/venv/bin/python -m pytest -q -p no:cacheprovider -x 2>&1 | tail -1", wt)
            tmsg = " tests:" + ("ok" if "330 passed" in out_t else "FAIL")
        bad = []
        for p in PROPS:
            od = tempfile.mkdtemp(prefix="ciwout-")
            try:
                r = subprocess.run(["/venv/bin/python", "-m", "sa.run", p, "--root", wt], cwd="/verif", env=dict(os.environ, VERIF_OUTDIR=od), capture_output=True, text=True)
                try:
                    ev = json.load(open(os.path.join(od, "evidence", p + ".json")))
                    keys = set(ev["coverage"]["new_findings"]) | set(ev["coverage"]["known_findings_matched"])
                    errs = ev["coverage"]["analysis_errors"]
                except Exception:
                    keys, errs = set(), ["crash " + r.stdout[-300:]]
                if keys != base[p] or errs:
                    bad.append((p, sorted(keys - base[p]), sorted(base[p] - keys), errs))
            finally:
                shutil.rmtree(od, ignore_errors=True)
        return d, ("SILENT" if not bad else "VERDICT CHANGED: " + ",".join(b[0] for b in bad)) + tmsg, bad
    finally:
        sh("git checkout -- . && git clean -fdq", wt)
        pool.put(wt)


dirs = [d.rstrip("/") for d in sorted(glob.glob("/verif/refactors/*/")) if not sel or any(a in d for a in sel)]
nbad = 0
with ThreadPoolExecutor(len(WTS)) as ex:
    for d, msg, bad in ex.map(one, dirs):
        if msg.startswith("SILENT"):
            continue
        nbad += 1
        print(os.path.basename(d), msg, flush=True)
        for p, new, gone, errs in bad:
            for k in new[:3]: print("      +", p, k[:170])
            for k in gone[:3]: print("      -", p, k[:170])
            for e in errs[:2]: print("      E", p, e[:170])
print("%d refactorings, %d change a verdict" % (len(dirs), nbad))
