#!/venv/bin/python
"""dev helper: apply each preserving operator to a scratch copy, run all (or given) properties, report verdict differences;
also runs the repository test-suite on the transformed tree when --tests is given (to confirm the operator preserves behaviour)."""
import json, os, shutil, subprocess, sys, tempfile, glob
sys.path.insert(0, "/verif")
from sa.selftest import preserve
from concurrent.futures import ThreadPoolExecutor
props = [a for a in sys.argv[1:] if a.startswith("C")] or ["C%02d" % i for i in range(1, 21)]
ops = [a for a in sys.argv[1:] if a in preserve.OPERATORS] or list(preserve.OPERATORS)

def keys(prop, root, outdir):
    r = subprocess.run(["/venv/bin/python", "-m", "sa.run", prop, "--root", root], cwd="/verif", env=dict(os.environ, VERIF_OUTDIR=outdir), capture_output=True, text=True)
    ks = sorted(json.load(open(v))["finding"]["key"] for v in glob.glob(os.path.join(outdir, "out", prop, "violation-*.json")))
    errs = [l for l in r.stdout.splitlines() if l.startswith("ANALYSIS-ERROR") or l.startswith("Traceback")]
    return r.returncode, ks, errs

for op in ops:
    d = tempfile.mkdtemp(prefix="ciwpres-")
    try:
        shutil.copytree("/repo/ciw", os.path.join(d, "ciw"), ignore=shutil.ignore_patterns("__pycache__"))
        for f in preserve.TARGET_FILES:
            p = os.path.join(d, "ciw", f)
            src = open(p).read()
            open(p, "w").write(preserve.apply(op, src))
        if "--tests" in sys.argv:
            r = subprocess.run(["/venv/bin/python", "-m", "pytest", "-q", "-x", "-p", "no:cacheprovider", os.path.join(d, "ciw", "tests")], cwd=d, capture_output=True, text=True, env=dict(os.environ, PYTHONPATH=d))
            print(op, "tests:", r.stdout.strip().splitlines()[-1][:80])
        def one(prop):
            od = tempfile.mkdtemp(prefix="ciwout-")
            try:
                return prop, keys(prop, d, od)
            finally:
                shutil.rmtree(od)
        with ThreadPoolExecutor(16) as ex:
            for prop, (rc, ks, errs) in ex.map(one, props):
                if rc != 0:
                    print("%s %s rc=%d" % (op, prop, rc))
                    for k in ks: print("     V", k[:170])
                    for e in errs[:3]: print("     E", e[:200])
        print(op, "done")
    finally:
        shutil.rmtree(d)
