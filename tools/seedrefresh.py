#!/venv/bin/python
"""dev helper: re-run all twenty checks on every stored seeded change and refresh meta.json's `detected_by` (finding keys per property) and
`own_check_detects`.  Tests and demos are NOT re-run (they were confirmed when the change was stored).  Uses scratch worktrees /tmp/wr_1..4."""
import glob, json, os, shutil, subprocess, sys, tempfile, queue
from concurrent.futures import ThreadPoolExecutor
PROPS = ["C%02d" % i for i in range(1, 21)]
WTS = [w for w in os.environ.get("WTS", "/tmp/wr_1 /tmp/wr_2 /tmp/wr_3 /tmp/wr_4").split() if os.path.isdir(w)]
pool = queue.Queue()
for w in WTS:
    pool.put(w)
base = {}
for p in PROPS:
    ev = json.load(open("/verif/evidence/%s.json" % p))
    base[p] = set(ev["coverage"]["new_findings"]) | set(ev["coverage"]["known_findings_matched"])


def sh(cmd, cwd):
    return subprocess.run(cmd, cwd=cwd, shell=True, capture_output=True, text=True)


def one(d):
    wt = pool.get()
    try:
        sh("git checkout -- . && git clean -fdq", wt)
        if sh("git apply " + os.path.join(d, "patch.diff"), wt).returncode != 0:
            return d, None, None
        det, errs = {}, {}
        for p in PROPS:
            od = tempfile.mkdtemp(prefix="ciwout-")
            try:
                subprocess.run(["/venv/bin/python", "-m", "sa.run", p, "--root", wt], cwd="/verif", env=dict(os.environ, VERIF_OUTDIR=od), capture_output=True, text=True)
                try:
                    ev = json.load(open(os.path.join(od, "evidence", p + ".json")))
                    new = sorted((set(ev["coverage"]["new_findings"]) | set(ev["coverage"]["known_findings_matched"])) - base[p])
                    if new:
                        det[p] = new
                    if ev["coverage"]["analysis_errors"]:
                        errs[p] = ev["coverage"]["analysis_errors"][:2]
                except Exception as e:
                    errs[p] = ["crash: %s" % e]
            finally:
                shutil.rmtree(od, ignore_errors=True)
        return d, det, errs
    finally:
        sh("git checkout -- . && git clean -fdq", wt)
        pool.put(wt)


dirs = [d.rstrip("/") for d in sorted(glob.glob("/verif/seeded/*/")) if not sys.argv[1:] or any(a in d for a in sys.argv[1:])]
with ThreadPoolExecutor(len(WTS)) as ex:
    for d, det, errs in ex.map(one, dirs):
        mp = os.path.join(d, "meta.json")
        m = json.load(open(mp))
        if det is None:
            print(m["id"], "PATCH DOES NOT APPLY")
            continue
        m["detected_by"] = det
        m["analysis_errors_raised"] = errs
        m["detected"] = bool(det)
        m["own_check_detects"] = m["breaks_property"] in det
        json.dump(m, open(mp, "w"), indent=1)
        print(m["id"], "own" if m["own_check_detects"] else "OTHER" if det else "MISSED", sorted(det), flush=True)
