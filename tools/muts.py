#!/venv/bin/python
"""dev helper: run a list of textual mutants (python file defining MUTS = [(prop, file, old, new, expect)]) in parallel.
expect: 'V' violation expected, 'S' silent expected."""
import os, shutil, subprocess, sys, tempfile, importlib.util
from concurrent.futures import ThreadPoolExecutor

def run_one(m):
    prop, f, old, new, expect = m[:5]
    d = tempfile.mkdtemp(prefix="ciwmut-")
    try:
        shutil.copytree("/repo/ciw", os.path.join(d, "ciw"), ignore=shutil.ignore_patterns("tests", "__pycache__"))
        p = os.path.join(d, "ciw", f)
        s = open(p).read()
        if s.count(old) != 1:
            return m, "EDIT-ERR(%d)" % s.count(old), ""
        open(p, "w").write(s.replace(old, new))
        import ast as _a
        try:
            _a.parse(open(p).read())
        except SyntaxError as e:
            return m, "SYNTAX", str(e)
        env = dict(os.environ, VERIF_OUTDIR=d)
        r = subprocess.run(["/venv/bin/python", "-m", "sa.run", prop, "--root", d], cwd="/verif", env=env, capture_output=True, text=True)
        lines = [l for l in r.stdout.splitlines() if l.startswith(("VIOLATION", "ANALYSIS-ERROR", "  rule", "  why"))]
        return m, {0: "S", 1: "V", 2: "E"}.get(r.returncode, "?%d" % r.returncode), "\n".join(lines[:8]) + r.stderr[-300:]
    finally:
        shutil.rmtree(d)

spec = importlib.util.spec_from_file_location("m", sys.argv[1]); mod = importlib.util.module_from_spec(spec); spec.loader.exec_module(mod)
muts = mod.MUTS
if len(sys.argv) > 2:
    muts = [m for m in muts if m[0] in sys.argv[2:]]
bad = 0
with ThreadPoolExecutor(16) as ex:
    for m, res, detail in ex.map(run_one, muts):
        ok = res == m[4]
        bad += not ok
        print("%s %s expect=%s got=%s  %s :: %s" % ("ok  " if ok else "BAD ", m[0], m[4], res, m[1], m[2].strip().split("\n")[0][:70]))
        if not ok or "-v" in sys.argv:
            print("     -> " + m[3].strip().split("\n")[0][:90]); print("\n".join("       " + l for l in detail.splitlines()))
print("%d mutants, %d unexpected" % (len(muts), bad))
