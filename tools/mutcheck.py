#!/venv/bin/python
"""dev helper: tools/mutcheck.py PROP file 'old' 'new' [file old new ...] -- analyse a scratch copy with one textual edit"""
import os, shutil, subprocess, sys, tempfile
prop = sys.argv[1]
edits = sys.argv[2:]
d = tempfile.mkdtemp(prefix="ciwmut-")
try:
    shutil.copytree("/repo/ciw", os.path.join(d, "ciw"), ignore=shutil.ignore_patterns("tests", "__pycache__"))
    for i in range(0, len(edits), 3):
        f, old, new = edits[i:i + 3]
        p = os.path.join(d, "ciw", f)
        s = open(p).read()
        old = old.replace("\\n", "\n"); new = new.replace("\\n", "\n")
        if s.count(old) != 1:
            print("edit %d: pattern occurs %d times" % (i // 3, s.count(old))); sys.exit(3)
        open(p, "w").write(s.replace(old, new))
    env = dict(os.environ, VERIF_OUTDIR=d)
    r = subprocess.run(["/venv/bin/python", "-m", "sa.run", prop, "--root", d], cwd="/verif", env=env, capture_output=True, text=True)
    out = r.stdout + r.stderr
    lines = [l for l in out.splitlines() if l.startswith(("VIOLATION", "ANALYSIS-ERROR", "  rule", "  why", "  at", "Traceback", "KNOWN")) or "Error" in l]
    print("\n".join(lines[:30])); print("rc=%d" % r.returncode)
finally:
    shutil.rmtree(d)
