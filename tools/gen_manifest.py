#!/venv/bin/python
"""Regenerate MANIFEST.json from the property modules present in sa/props (claimed) and NOT_APPLICABLE below."""
import importlib, json, os, sys
sys.path.insert(0, "/verif")
props = [json.loads(l) for l in open("/verif/properties.jsonl")]
BASE = "cd /repo && /venv/bin/python -m pytest -ra -q -p no:cacheprovider --timeout=900 --continue-on-collection-errors"
checks, na = [], []
for p in props:
    pid = p["id"]
    path = "/verif/sa/props/%s.py" % pid.lower()
    if not os.path.exists(path):
        na.append({"property_id": pid, "reason": "check not yet built (implementation in progress); see DESIGN.md section 4"})
        continue
    mod = importlib.import_module("sa.props." + pid.lower())
    if getattr(mod, "NOT_APPLICABLE", None):
        na.append({"property_id": pid, "reason": mod.NOT_APPLICABLE})
        continue
    checks.append({
        "property_id": pid,
        "quick_cmd": "./check %s --tier quick" % pid,
        "thorough_cmd": "./check %s --tier thorough" % pid,
        "evidence_file": "/verif/evidence/%s.json" % pid,
        "replay_cmd_template": "./check %s --replay {path}" % pid,
        "engine": "sa",
        "level_claimed": {"category": "other",
                          "text": getattr(mod, "LEVEL_TEXT", mod.EXPLANATION),
                          "design_ref": "DESIGN.md section 4, %s" % pid},
        "level_note": getattr(mod, "LEVEL_NOTE", "Decides the structural clauses named above on every syntactic path; does not execute ciw. Trusted base: CPython ast parser, the engine in /verif/sa, the instance tables and callback table in DESIGN.md; only in-repo classes are assumed to be plugged into Simulation. Not decided: see DESIGN.md section 4 'Not decided' for this property."),
        "technique": getattr(mod, "TECHNIQUE", "static analysis: repository-specific AST path-enumeration rules (no execution)"),
    })
m = {"version": 1, "setup_cmd": "true",
     "hooks": {"guard": "CIW_VERIF", "enable": "none: static analysis reads /repo's working-tree source; no instrumentation exists in /repo",
               "baseline_off_cmd": BASE, "source_commits": [], "add_only": True},
     "engines": [{"name": "sa", "path": "/verif/sa", "serves_properties": [c["property_id"] for c in checks],
                  "kind_free_text": "purpose-built static analyser over CPython ast: program model with MRO views, projected path enumeration with guard algebra, configuration-valuation reachability, rule families R1-R14 (DESIGN.md sections 2-3)"}],
     "checks": checks, "not_applicable": na,
     "notes": "All checks are static (source of /repo re-parsed on every run; nothing in ciw is imported or executed). Exit 0 held / 1 VIOLATION / 2 ANALYSIS-ERROR (unrecognised anchor; never a silent pass). Known genuine defects: known_findings.json (DESIGN.md section 5)."}
json.dump(m, open("/verif/MANIFEST.json", "w"), indent=1)
print("claimed:", [c["property_id"] for c in checks]); print("not applicable:", [x["property_id"] for x in na])
