#!/venv/bin/python
"""Regenerate MANIFEST.json from the property modules present in sa/props (claimed) and NOT_APPLICABLE below."""
import importlib, json, os, sys
sys.path.insert(0, "/verif")
props = [json.loads(l) for l in open("/verif/properties.jsonl")]
BASE = "cd /repo && /venv/bin/python -m pytest -ra -q -p no:cacheprovider --timeout=900 --continue-on-collection-errors"
NOT_DECIDED = {
 "C01": "user-supplied node/arrival/exit subclasses; an event aborted by an exception half-way (C14)",
 "C02": "the inequalities arrival <= start <= end <= exit <= now as runtime values (non-negativity of time_left, PS projection, float rounding)",
 "C03": "numerical equality of dates across records (covered structurally: both are `now` of one event)",
 "C04": "'at most c in service at every instant' and the value of the utilisation (runtime sets / float sums); only the accounting formulas and the typestate are decided",
 "C05": "the instant-by-instant occupancy itself; custom disciplines",
 "C06": "nothing numerical beyond the guards; user routers for jockeying",
 "C07": "time_blocked values",
 "C08": "the realised order of service starts in a run; custom disciplines",
 "C09": "that zero-probability entries are never drawn (random() end points) and the distribution of choices",
 "C10": "a per-sample audit of a run (realised durations == logged samples); patience and class-change samples are raw by design of the property",
 "C11": "'total time served equals the original requirement' (arithmetic over a history)",
 "C12": "that the cyclic date formula is the intended timetable (arithmetic); only the wiring of table, offset and generator is decided",
 "C13": "probabilities and exact renege instants in a run",
 "C14": "absence of all other internal errors (user callbacks, malformed parameters accepted by validation); R9 does not track Individual attributes set by the node",
 "C15": "bit-identical floats (follows from the decided clauses given CPython determinism); determinism of user callables",
 "C16": "determinism of user callbacks; the tie case is excluded by the property",
 "C17": "the time-weighted arithmetic of state_probabilities beyond its normalisation; MatrixBlocking rank renumbering",
 "C18": "soundness/completeness of the knot search and of the incremental edge maintenance (graph-algorithmic); only wiring, purity and time arithmetic are decided",
 "C19": "the work integral over a run and the FIFO equivalence",
 "C20": "agreement with the float run 'up to rounding'",
}
checks, na = [], []
for p in props:
    pid = p["id"]
    path = "/verif/sa/props/%s.py" % pid.lower()
    if not os.path.exists(path):
        na.append({"property_id": pid, "reason": "check not yet built (implementation in progress); see DESIGN.md section 4"})
        continue
    mod = importlib.import_module("sa.props." + pid.lower())
    if getattr(mod, "NOT_APPLICABLE", None):
        na.append({"property_id": pid, "reason": mod.NOT_APPLICABLE})
        continue
    checks.append({
        "property_id": pid,
        "quick_cmd": "./check %s --tier quick" % pid,
        "thorough_cmd": "./check %s --tier thorough" % pid,
        "evidence_file": "/verif/evidence/%s.json" % pid,
        "replay_cmd_template": "./check %s --replay {path}" % pid,
        "engine": "sa",
        "level_claimed": {"category": "other",
                          "text": getattr(mod, "LEVEL_TEXT", mod.EXPLANATION),
                          "design_ref": "DESIGN.md section 4, %s" % pid},
        "level_note": "Decides the structural clauses named in level_claimed.text on every syntactic path (and configuration valuation) of the current source; ciw is never imported or executed. "
                      "NOT decided: %s. Trusted base: the CPython ast parser; the engine in /verif/sa; the instance tables / floors in sa/props/%s.py (each confirmed by reading); "
                      "only in-repo classes are assumed to be plugged into Simulation. Thorough tier additionally re-derives breaking and preserving variants of the current tree and "
                      "fails (exit 2) if a rule is insensitive or over-sensitive." % (NOT_DECIDED[pid], pid.lower()),
        "technique": getattr(mod, "TECHNIQUE", "static analysis: repository-specific AST path-enumeration rules (no execution)"),
    })
m = {"version": 1, "setup_cmd": "true",
     "hooks": {"guard": "CIW_VERIF", "enable": "none: static analysis reads /repo's working-tree source; no instrumentation exists in /repo",
               "baseline_off_cmd": BASE, "source_commits": [], "add_only": True},
     "engines": [{"name": "sa", "path": "/verif/sa", "serves_properties": [c["property_id"] for c in checks],
                  "kind_free_text": "purpose-built static analyser over CPython ast: program model with MRO views, projected path enumeration with guard algebra, configuration-valuation reachability, rule families R1-R14 (DESIGN.md sections 2-3)"}],
     "checks": checks, "not_applicable": na,
     "notes": "All checks are static (source of /repo re-parsed on every run; nothing in ciw is imported or executed). Exit 0 held / 1 VIOLATION / 2 ANALYSIS-ERROR (unrecognised anchor; never a silent pass). Known genuine defects: known_findings.json (DESIGN.md section 5)."}
json.dump(m, open("/verif/MANIFEST.json", "w"), indent=1)
print("claimed:", [c["property_id"] for c in checks]); print("not applicable:", [x["property_id"] for x in na])
