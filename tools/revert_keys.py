#!/venv/bin/python
"""dev helper: apply one textual edit to a scratch copy, run a property, print the finding keys"""
import json, os, shutil, subprocess, sys, tempfile, glob
prop, f, old, new = sys.argv[1:5]
d = tempfile.mkdtemp(prefix="ciwmut-")
try:
    shutil.copytree("/repo/ciw", os.path.join(d, "ciw"), ignore=shutil.ignore_patterns("tests", "__pycache__"))
    p = os.path.join(d, "ciw", f); s = open(p).read()
    old = old.encode().decode("unicode_escape"); new = new.encode().decode("unicode_escape")
    assert s.count(old) == 1, s.count(old)
    open(p, "w").write(s.replace(old, new))
    subprocess.run(["/venv/bin/python", "-m", "sa.run", prop, "--root", d], cwd="/verif", env=dict(os.environ, VERIF_OUTDIR=d), capture_output=True)
    for v in sorted(glob.glob(os.path.join(d, "out", prop, "violation-*.json"))):
        print(json.load(open(v))["finding"]["key"])
finally:
    shutil.rmtree(d)
