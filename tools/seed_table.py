#!/venv/bin/python
"""print the markdown table of seeded changes from /verif/seeded/*/meta.json"""
import glob, json, os, re
rows = []
for d in sorted(glob.glob("/verif/seeded/*")):
    m = json.load(open(os.path.join(d, "meta.json")))
    notes = open(os.path.join(d, "notes.md")).read() if os.path.exists(os.path.join(d, "notes.md")) else ""
    patch = open(os.path.join(d, "patch.diff")).read()
    files = sorted(set(re.findall(r"^\+\+\+ b/(\S+)", patch, re.M)))
    funcs = set()
    cur = None
    for line in patch.splitlines():
        mm = re.match(r"^\+\+\+ b/(\S+)", line)
        if mm:
            cur = mm.group(1)
        mm = re.match(r"^@@ -(\d+)(?:,(\d+))? ", line)
        if mm and cur and os.path.exists("/repo/" + cur):
            import ast
            tree = ast.parse(open("/repo/" + cur).read())
            lo = int(mm.group(1)) + 3
            best = None
            for n in ast.walk(tree):
                if isinstance(n, ast.FunctionDef) and n.lineno <= lo <= (n.end_lineno or n.lineno) + 1:
                    if best is None or n.lineno > best.lineno:
                        best = n
            if best is not None:
                funcs.add(best.name)
    funcs = sorted(funcs)
    det = ", ".join("%s (%s)" % (p, "; ".join(sorted(set(k.split("|")[0] for k in ks)))) for p, ks in sorted(m["detected_by"].items()))
    rows.append("| %s | %s | %s | %s |" % (m["id"], ", ".join(f.replace("ciw/", "") for f in files), ", ".join(funcs)[:60], det or "**missed**"))
print("| seeded change | files | around | reported by (rule ids) |\n|---|---|---|---|")
print("\n".join(rows))
