"""Source-level desugaring applied to every function when the program is loaded, so that the rules see ONE shape for idioms that
are interchangeable in Python:

  x = a if c else b            ->  if c: x = a  else: x = b                (also `return a if c else b`)
  x = next((v for v in S if p), d)  ->  x = d; for v in S: if p: x = v; break      (also as `return`)
  D = {k1: f1, ...};  h = D.get(E) / D[E]      ->  if E == k1: h = f1  elif ...  else: h = None / raise KeyError     (dict dispatch)
  D[E](...) / D.get(E)(...) as a statement     ->  if E == k1: f1(...) elif ...
  E in D / E not in D  (D such a literal dict) ->  E in (k1, ...) / E not in (k1, ...)

  for K, V in X.items(): body                  ->  for K in X: V = X[K]; body      (loop node marked `_dict_iter = "items"`)
  for K in X.keys(): body                      ->  for K in X: body                (marked `_dict_iter = "keys"`)

Only local, single-assignment dict literals with constant keys are treated; everything else is left alone.
"""
import ast
import copy


def _loc(new, old):
    for n in ast.walk(new):
        if not hasattr(n, "lineno") or True:
            try:
                n.lineno = getattr(old, "lineno", 1)
                n.col_offset = getattr(old, "col_offset", 0)
                n.end_lineno = getattr(old, "end_lineno", getattr(old, "lineno", 1))
                n.end_col_offset = getattr(old, "end_col_offset", 0)
            except AttributeError:
                pass
    return new


def _dict_literals(fn):
    """local name -> Dict node, for names assigned exactly once, from a dict display with constant keys"""
    counts, lits = {}, {}
    for n in ast.walk(fn):
        if isinstance(n, (ast.Assign, ast.AugAssign, ast.AnnAssign, ast.For, ast.With)):
            for t in ast.walk(n):
                if isinstance(t, ast.Name) and isinstance(t.ctx, ast.Store):
                    counts[t.id] = counts.get(t.id, 0) + 1
        if isinstance(n, ast.Assign) and len(n.targets) == 1 and isinstance(n.targets[0], ast.Name) and isinstance(n.value, ast.Dict) and n.value.keys \
                and all(isinstance(k, ast.Constant) for k in n.value.keys):
            lits[n.targets[0].id] = n.value
    # the dict must not be mutated or passed around
    for n in ast.walk(fn):
        if isinstance(n, ast.Subscript) and isinstance(n.ctx, (ast.Store, ast.Del)) and isinstance(n.value, ast.Name):
            lits.pop(n.value.id, None)
        if isinstance(n, ast.Call) and isinstance(n.func, ast.Attribute) and isinstance(n.func.value, ast.Name) and n.func.attr not in ("get", "keys", "items", "values"):
            lits.pop(n.func.value.id, None)
    return {k: v for k, v in lits.items() if counts.get(k, 0) == 1}


def _lookup(expr, lits):
    """expr is D[E] or D.get(E[, default]) on a literal dict -> (Dict, E, default_or_None, strict)"""
    if isinstance(expr, ast.Subscript) and isinstance(expr.value, ast.Name) and expr.value.id in lits:
        return lits[expr.value.id], expr.slice, None, True
    if isinstance(expr, ast.Call) and isinstance(expr.func, ast.Attribute) and expr.func.attr == "get" and isinstance(expr.func.value, ast.Name) \
            and expr.func.value.id in lits and 1 <= len(expr.args) <= 2 and not expr.keywords:
        return lits[expr.func.value.id], expr.args[0], (expr.args[1] if len(expr.args) == 2 else ast.Constant(value=None)), False
    return None


def _chain(d, key, make_stmt, default_stmt):
    """if key == k1: make_stmt(v1) elif ... else: default_stmt"""
    orelse = [default_stmt] if default_stmt is not None else []
    for k, v in reversed(list(zip(d.keys, d.values))):
        test = ast.Compare(left=copy.deepcopy(key), ops=[ast.Eq()], comparators=[copy.deepcopy(k)])
        orelse = [ast.If(test=test, body=[make_stmt(copy.deepcopy(v))], orelse=orelse)]
    return orelse[0]


class _Desugar(ast.NodeTransformer):
    def __init__(self, lits):
        self.lits = lits

    # ---- expressions: membership in a literal dict ----------------------------------------------------
    def visit_Compare(self, n):
        self.generic_visit(n)
        if len(n.ops) == 1 and isinstance(n.ops[0], (ast.In, ast.NotIn)) and isinstance(n.comparators[0], ast.Name) and n.comparators[0].id in self.lits:
            d = self.lits[n.comparators[0].id]
            n.comparators = [ast.Tuple(elts=[copy.deepcopy(k) for k in d.keys], ctx=ast.Load())]
        return n

    # ---- statements --------------------------------------------------------------------------------------
    def _stmts(self, body):
        out = []
        for st in body:
            r = self.visit(st)
            if isinstance(r, list):
                out += r
            elif r is not None:
                out.append(r)
        return out

    def generic_visit(self, node):
        for f in ("body", "orelse", "finalbody"):
            v = getattr(node, f, None)
            if isinstance(v, list) and v and isinstance(v[0], ast.stmt):
                setattr(node, f, self._stmts(v))
        for f, v in ast.iter_fields(node):
            if f in ("body", "orelse", "finalbody") and isinstance(v, list) and v and isinstance(v[0], ast.stmt):
                continue
            if isinstance(v, list):
                setattr(node, f, [self.visit(x) if isinstance(x, ast.AST) else x for x in v])
            elif isinstance(v, ast.AST):
                setattr(node, f, self.visit(v))
        return node

    def visit_FunctionDef(self, n):
        return n        # nested functions are desugared on their own

    def visit_Lambda(self, n):
        return n

    def visit_Assign(self, st):
        if len(st.targets) == 1:
            v = st.value
            tgt = st.targets[0]
            if isinstance(v, ast.IfExp):
                new = ast.If(test=v.test, body=[ast.Assign(targets=[copy.deepcopy(tgt)], value=v.body)], orelse=[ast.Assign(targets=[copy.deepcopy(tgt)], value=v.orelse)])
                return self.visit(_loc(new, st))
            lk = _lookup(v, self.lits)
            if lk is not None and isinstance(tgt, ast.Name):
                d, key, default, strict = lk
                dflt = ast.Raise(exc=ast.Call(func=ast.Name(id="KeyError", ctx=ast.Load()), args=[], keywords=[]), cause=None) if strict else \
                    ast.Assign(targets=[copy.deepcopy(tgt)], value=default)
                new = _chain(d, key, lambda val: ast.Assign(targets=[copy.deepcopy(tgt)], value=val), dflt)
                return _loc(new, st)
            nx = self._next_gen(v)
            if nx is not None and isinstance(tgt, ast.Name):
                gen, default = nx
                g = gen.generators[0]
                body = [ast.Assign(targets=[copy.deepcopy(tgt)], value=gen.elt), ast.Break()]
                for c in reversed(g.ifs):
                    body = [ast.If(test=c, body=body, orelse=[])]
                loop = ast.For(target=g.target, iter=g.iter, body=body, orelse=[], type_comment=None)
                return [_loc(ast.Assign(targets=[copy.deepcopy(tgt)], value=default), st), _loc(loop, st)]
            if isinstance(v, ast.Dict) and isinstance(tgt, ast.Name) and tgt.id in self.lits:
                return st
        self.generic_visit(st)
        return st

    def visit_Return(self, st):
        v = st.value
        if isinstance(v, ast.IfExp):
            new = ast.If(test=v.test, body=[ast.Return(value=v.body)], orelse=[ast.Return(value=v.orelse)])
            return self.visit(_loc(new, st))
        nx = self._next_gen(v) if v is not None else None
        if nx is not None:
            gen, default = nx
            g = gen.generators[0]
            body = [ast.Return(value=gen.elt)]
            for c in reversed(g.ifs):
                body = [ast.If(test=c, body=body, orelse=[])]
            loop = ast.For(target=g.target, iter=g.iter, body=body, orelse=[], type_comment=None)
            return [_loc(loop, st), _loc(ast.Return(value=default), st)]
        self.generic_visit(st)
        return st

    def visit_For(self, st):
        it = st.iter
        if isinstance(it, ast.Call) and isinstance(it.func, ast.Attribute) and not it.args and not it.keywords:
            if (it.func.attr == "items" and isinstance(st.target, ast.Tuple) and len(st.target.elts) == 2 and all(isinstance(e, ast.Name) for e in st.target.elts)
                    and not any(isinstance(x, ast.Name) and isinstance(x.ctx, ast.Store) and x.id in (st.target.elts[0].id, st.target.elts[1].id) for b in st.body for x in ast.walk(b))):
                k, v = st.target.elts
                x = it.func.value
                bind = ast.Assign(targets=[ast.Name(id=v.id, ctx=ast.Store())],
                                  value=ast.Subscript(value=copy.deepcopy(x), slice=ast.Name(id=k.id, ctx=ast.Load()), ctx=ast.Load()))
                _loc(bind, st)
                st.target = ast.Name(id=k.id, ctx=ast.Store())
                ast.copy_location(st.target, k)
                st.iter = x
                st.body = [bind] + st.body
                st._dict_iter = "items"
            elif it.func.attr == "keys" and isinstance(st.target, ast.Name):
                st.iter = it.func.value
                st._dict_iter = "keys"
        self.generic_visit(st)
        return st

    def visit_Expr(self, st):
        v = st.value
        if isinstance(v, ast.Call):
            lk = _lookup(v.func, self.lits)
            if lk is not None:
                d, key, default, strict = lk
                dflt = ast.Raise(exc=ast.Call(func=ast.Name(id="KeyError", ctx=ast.Load()), args=[], keywords=[]), cause=None) if strict else None
                new = _chain(d, key, lambda val: ast.Expr(value=ast.Call(func=val, args=copy.deepcopy(v.args), keywords=copy.deepcopy(v.keywords))), dflt)
                return _loc(new, st)
        self.generic_visit(st)
        return st

    @staticmethod
    def _next_gen(v):
        if isinstance(v, ast.Call) and isinstance(v.func, ast.Name) and v.func.id == "next" and len(v.args) == 2 and isinstance(v.args[0], ast.GeneratorExp) \
                and len(v.args[0].generators) == 1 and not v.keywords:
            return v.args[0], v.args[1]
        return None


def desugar_function(fn):
    """rewrite fn.body in place; returns True if something changed"""
    before = ast.dump(fn)
    lits = _dict_literals(fn)
    d = _Desugar(lits)
    fn.body = d._stmts(fn.body)
    ast.fix_missing_locations(fn)
    return ast.dump(fn) != before
