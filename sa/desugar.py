"""Source-level desugaring applied to every function when the program is loaded, so that the rules see ONE shape for idioms that
are interchangeable in Python:

  x = a if c else b            ->  if c: x = a  else: x = b                (also `return a if c else b`)
  x = next((v for v in S if p), d)  ->  x = d; for v in S: if p: x = v; break      (also as `return`)
  D = {k1: f1, ...};  h = D.get(E) / D[E]      ->  if E == k1: h = f1  elif ...  else: h = None / raise KeyError     (dict dispatch)
  D[E](...) / D.get(E)(...) as a statement     ->  if E == k1: f1(...) elif ...
  E in D / E not in D  (D such a literal dict) ->  E in (k1, ...) / E not in (k1, ...)

  for K, V in X.items(): body                  ->  for K in X: V = X[K]; body      (loop node marked `_dict_iter = "items"`)
  for K in X.keys(): body                      ->  for K in X: body                (marked `_dict_iter = "keys"`)

Only local, single-assignment dict literals with constant keys are treated; everything else is left alone.
"""
import ast
import copy


def _loc(new, old):
    for n in ast.walk(new):
        if not hasattr(n, "lineno") or True:
            try:
                n.lineno = getattr(old, "lineno", 1)
                n.col_offset = getattr(old, "col_offset", 0)
                n.end_lineno = getattr(old, "end_lineno", getattr(old, "lineno", 1))
                n.end_col_offset = getattr(old, "end_col_offset", 0)
            except AttributeError:
                pass
    return new


def _dict_literals(fn):
    """local name -> Dict node, for names assigned exactly once, from a dict display with constant keys"""
    counts, lits = {}, {}
    for n in ast.walk(fn):
        if isinstance(n, (ast.Assign, ast.AugAssign, ast.AnnAssign, ast.For, ast.With)):
            for t in ast.walk(n):
                if isinstance(t, ast.Name) and isinstance(t.ctx, ast.Store):
                    counts[t.id] = counts.get(t.id, 0) + 1
        if isinstance(n, ast.Assign) and len(n.targets) == 1 and isinstance(n.targets[0], ast.Name) and isinstance(n.value, ast.Dict) and n.value.keys \
                and all(isinstance(k, ast.Constant) for k in n.value.keys):
            lits[n.targets[0].id] = n.value
    # the dict must not be mutated or passed around
    for n in ast.walk(fn):
        if isinstance(n, ast.Subscript) and isinstance(n.ctx, (ast.Store, ast.Del)) and isinstance(n.value, ast.Name):
            lits.pop(n.value.id, None)
        if isinstance(n, ast.Call) and isinstance(n.func, ast.Attribute) and isinstance(n.func.value, ast.Name) and n.func.attr not in ("get", "keys", "items", "values"):
            lits.pop(n.func.value.id, None)
    return {k: v for k, v in lits.items() if counts.get(k, 0) == 1}


def _lookup(expr, lits):
    """expr is D[E] or D.get(E[, default]) on a literal dict -> (Dict, E, default_or_None, strict)"""
    def lit(n):
        if isinstance(n, ast.Name) and n.id in lits:
            return lits[n.id]
        if isinstance(n, ast.Dict) and n.keys and all(isinstance(k, ast.Constant) for k in n.keys):
            return n            # a dict display used in place (e.g. a substituted class-level constant)
        return None
    if isinstance(expr, ast.Subscript) and lit(expr.value) is not None:
        return lit(expr.value), expr.slice, None, True
    if isinstance(expr, ast.Call) and isinstance(expr.func, ast.Attribute) and expr.func.attr == "get" and lit(expr.func.value) is not None \
            and 1 <= len(expr.args) <= 2 and not expr.keywords:
        return lit(expr.func.value), expr.args[0], (expr.args[1] if len(expr.args) == 2 else ast.Constant(value=None)), False
    return None


def _chain(d, key, make_stmt, default_stmt):
    """if key == k1: make_stmt(v1) elif ... else: default_stmt"""
    orelse = [default_stmt] if default_stmt is not None else []
    for k, v in reversed(list(zip(d.keys, d.values))):
        test = ast.Compare(left=copy.deepcopy(key), ops=[ast.Eq()], comparators=[copy.deepcopy(k)])
        orelse = [ast.If(test=test, body=[make_stmt(copy.deepcopy(v))], orelse=orelse)]
    return orelse[0]


class _Desugar(ast.NodeTransformer):
    def __init__(self, lits):
        self.lits = lits

    # ---- expressions: membership in a literal dict ----------------------------------------------------
    def visit_Compare(self, n):
        self.generic_visit(n)
        if len(n.ops) == 1 and isinstance(n.ops[0], (ast.In, ast.NotIn)) and isinstance(n.comparators[0], ast.Name) and n.comparators[0].id in self.lits:
            d = self.lits[n.comparators[0].id]
            n.comparators = [ast.Tuple(elts=[copy.deepcopy(k) for k in d.keys], ctx=ast.Load())]
        return n

    # ---- statements --------------------------------------------------------------------------------------
    @staticmethod
    def _append_loop(init, loop):
        """`L = []` followed by `for x in S: [if p:] L.append(e)` (possibly nested fors/ifs, nothing else) -> the list comprehension, else None"""
        if not (isinstance(init, ast.Assign) and len(init.targets) == 1 and isinstance(init.targets[0], ast.Name) and isinstance(init.value, ast.List) and not init.value.elts):
            return None
        L = init.targets[0].id
        gens = []
        node = loop
        while True:
            if isinstance(node, ast.For) and not node.orelse and len(node.body) == 1:
                gens.append(ast.comprehension(target=node.target, iter=node.iter, ifs=[], is_async=0))
                node = node.body[0]
            elif isinstance(node, ast.If) and not node.orelse and len(node.body) == 1 and gens:
                gens[-1].ifs.append(node.test)
                node = node.body[0]
            else:
                break
        if not gens or not (isinstance(node, ast.Expr) and isinstance(node.value, ast.Call) and isinstance(node.value.func, ast.Attribute) and node.value.func.attr == "append"
                            and isinstance(node.value.func.value, ast.Name) and node.value.func.value.id == L and len(node.value.args) == 1 and not node.value.keywords):
            return None
        # the list under construction must not be read inside the loop
        for g in gens:
            for x in list(ast.walk(g.iter)) + [y for c in g.ifs for y in ast.walk(c)]:
                if isinstance(x, ast.Name) and x.id == L:
                    return None
        if any(isinstance(x, ast.Name) and x.id == L for x in ast.walk(node.value.args[0])):
            return None
        return _loc(ast.Assign(targets=[ast.Name(id=L, ctx=ast.Store())], value=ast.ListComp(elt=node.value.args[0], generators=gens)), init)

    def _stmts(self, body):
        merged = []
        i = 0
        while i < len(body):
            if i + 1 < len(body) and isinstance(body[i + 1], ast.For):
                comp = self._append_loop(body[i], body[i + 1])
                if comp is not None:
                    merged.append(comp)
                    i += 2
                    continue
            merged.append(body[i])
            i += 1
        body = merged
        out = []
        for st in body:
            r = self.visit(st)
            if isinstance(r, list):
                out += r
            elif r is not None:
                out.append(r)
        return out

    def generic_visit(self, node):
        for f in ("body", "orelse", "finalbody"):
            v = getattr(node, f, None)
            if isinstance(v, list) and v and isinstance(v[0], ast.stmt):
                setattr(node, f, self._stmts(v))
        for f, v in ast.iter_fields(node):
            if f in ("body", "orelse", "finalbody") and isinstance(v, list) and v and isinstance(v[0], ast.stmt):
                continue
            if isinstance(v, list):
                setattr(node, f, [self.visit(x) if isinstance(x, ast.AST) else x for x in v])
            elif isinstance(v, ast.AST):
                setattr(node, f, self.visit(v))
        return node

    def visit_FunctionDef(self, n):
        return n        # nested functions are desugared on their own

    def visit_Lambda(self, n):
        return n

    def visit_Assign(self, st):
        if len(st.targets) == 1 and isinstance(st.targets[0], (ast.Tuple, ast.List)) and isinstance(st.value, (ast.Tuple, ast.List)) \
                and len(st.targets[0].elts) == len(st.value.elts) and len(st.value.elts) > 1 \
                and not any(isinstance(e, ast.Starred) for e in st.targets[0].elts + st.value.elts):
            # a, b = x, y  ->  a = x; b = y   (through temporaries when a later value reads what an earlier target writes)
            tg, vs = st.targets[0].elts, st.value.elts
            def reads(n):
                return {ast.unparse(x) for x in ast.walk(n) if isinstance(x, (ast.Name, ast.Attribute, ast.Subscript))}
            conflict = False
            for i in range(len(tg)):
                w = ast.unparse(tg[i])
                for j in range(i + 1, len(vs)):
                    # a later value reads what an earlier target writes; or it calls something that could observe an earlier store into an object
                    if any(r == w or r.startswith(w + ".") or r.startswith(w + "[") for r in reads(vs[j])) or \
                            (not isinstance(tg[i], ast.Name) and any(isinstance(x, ast.Call) for x in ast.walk(vs[j]))):
                        conflict = True
            out = []
            if conflict:
                tmps = ["_unpack%d_%d" % (getattr(st, "lineno", 0), i) for i in range(len(vs))]
                for t_, v_ in zip(tmps, vs):
                    out.append(_loc(ast.Assign(targets=[ast.Name(id=t_, ctx=ast.Store())], value=v_), st))
                for t_, g_ in zip(tmps, tg):
                    out.append(_loc(ast.Assign(targets=[g_], value=ast.Name(id=t_, ctx=ast.Load())), st))
            else:
                for g_, v_ in zip(tg, vs):
                    out.append(_loc(ast.Assign(targets=[g_], value=v_), st))
            res = []
            for o in out:
                r = self.visit(o)
                res += r if isinstance(r, list) else [r]
            return res
        if len(st.targets) == 1:
            v = st.value
            tgt = st.targets[0]
            if isinstance(v, ast.IfExp):
                new = ast.If(test=v.test, body=[ast.Assign(targets=[copy.deepcopy(tgt)], value=v.body)], orelse=[ast.Assign(targets=[copy.deepcopy(tgt)], value=v.orelse)])
                return self.visit(_loc(new, st))
            lk = _lookup(v, self.lits)
            if lk is not None and isinstance(tgt, ast.Name):
                d, key, default, strict = lk
                dflt = ast.Raise(exc=ast.Call(func=ast.Name(id="KeyError", ctx=ast.Load()), args=[], keywords=[]), cause=None) if strict else \
                    ast.Assign(targets=[copy.deepcopy(tgt)], value=default)
                new = _chain(d, key, lambda val: ast.Assign(targets=[copy.deepcopy(tgt)], value=val), dflt)
                return _loc(new, st)
            nx = self._next_gen(v)
            if nx is not None and isinstance(tgt, ast.Name):
                gen, default = nx
                g = gen.generators[0]
                body = [ast.Assign(targets=[copy.deepcopy(tgt)], value=gen.elt), ast.Break()]
                for c in reversed(g.ifs):
                    body = [ast.If(test=c, body=body, orelse=[])]
                loop = ast.For(target=g.target, iter=g.iter, body=body, orelse=[], type_comment=None)
                return [_loc(ast.Assign(targets=[copy.deepcopy(tgt)], value=default), st), _loc(loop, st)]
            if isinstance(v, ast.Dict) and isinstance(tgt, ast.Name) and tgt.id in self.lits:
                return st
        self.generic_visit(st)
        return st

    def visit_Return(self, st):
        v = st.value
        if isinstance(v, ast.IfExp):
            new = ast.If(test=v.test, body=[ast.Return(value=v.body)], orelse=[ast.Return(value=v.orelse)])
            return self.visit(_loc(new, st))
        nx = self._next_gen(v) if v is not None else None
        if nx is not None:
            gen, default = nx
            g = gen.generators[0]
            body = [ast.Return(value=gen.elt)]
            for c in reversed(g.ifs):
                body = [ast.If(test=c, body=body, orelse=[])]
            loop = ast.For(target=g.target, iter=g.iter, body=body, orelse=[], type_comment=None)
            return [_loc(loop, st), _loc(ast.Return(value=default), st)]
        self.generic_visit(st)
        return st

    def visit_For(self, st):
        it = st.iter
        if isinstance(it, ast.Call) and isinstance(it.func, ast.Attribute) and not it.args and not it.keywords:
            if (it.func.attr == "items" and isinstance(st.target, ast.Tuple) and len(st.target.elts) == 2 and all(isinstance(e, ast.Name) for e in st.target.elts)
                    and not any(isinstance(x, ast.Name) and isinstance(x.ctx, ast.Store) and x.id in (st.target.elts[0].id, st.target.elts[1].id) for b in st.body for x in ast.walk(b))):
                k, v = st.target.elts
                x = it.func.value
                bind = ast.Assign(targets=[ast.Name(id=v.id, ctx=ast.Store())],
                                  value=ast.Subscript(value=copy.deepcopy(x), slice=ast.Name(id=k.id, ctx=ast.Load()), ctx=ast.Load()))
                _loc(bind, st)
                st.target = ast.Name(id=k.id, ctx=ast.Store())
                ast.copy_location(st.target, k)
                st.iter = x
                st.body = [bind] + st.body
                st._dict_iter = "items"
            elif it.func.attr == "keys" and isinstance(st.target, ast.Name):
                st.iter = it.func.value
                st._dict_iter = "keys"
        self.generic_visit(st)
        return st

    def visit_Expr(self, st):
        v = st.value
        if isinstance(v, ast.Call):
            # G.add_edges_from((a, b) for v in S)  ->  for v in S: G.add_edge(a, b)        (networkx bulk form of the same edge insertions)
            if isinstance(v.func, ast.Attribute) and v.func.attr == "add_edges_from" and len(v.args) == 1 and not v.keywords \
                    and isinstance(v.args[0], (ast.GeneratorExp, ast.ListComp)) and isinstance(v.args[0].elt, ast.Tuple) and len(v.args[0].elt.elts) == 2:
                comp = v.args[0]
                body = [ast.Expr(value=ast.Call(func=ast.Attribute(value=v.func.value, attr="add_edge", ctx=ast.Load()), args=list(comp.elt.elts), keywords=[]))]
                for g in reversed(comp.generators):
                    for c in reversed(g.ifs):
                        body = [ast.If(test=c, body=body, orelse=[])]
                    body = [ast.For(target=g.target, iter=g.iter, body=body, orelse=[], type_comment=None)]
                return self.visit(_loc(body[0], st))
            # f(a, x if c else y)  ->  if c: f(a, x) else: f(a, y)      (a call statement with one conditional argument)
            slots = [("a", i) for i, a in enumerate(v.args) if isinstance(a, ast.IfExp)] + [("k", i) for i, k in enumerate(v.keywords) if isinstance(k.value, ast.IfExp)]
            if len(slots) == 1:
                kind, i = slots[0]
                ife = v.args[i] if kind == "a" else v.keywords[i].value
                earlier = v.args[:i] if kind == "a" else list(v.args) + [k.value for k in v.keywords[:i]]
                if not any(isinstance(x, ast.Call) for a in earlier + [v.func] for x in ast.walk(a)):     # evaluation order of earlier arguments is not disturbed
                    def variant(val):
                        c = copy.deepcopy(v)
                        if kind == "a":
                            c.args[i] = val
                        else:
                            c.keywords[i].value = val
                        return ast.Expr(value=c)
                    new = ast.If(test=ife.test, body=[variant(ife.body)], orelse=[variant(ife.orelse)])
                    return self.visit(_loc(new, st))
            lk = _lookup(v.func, self.lits)
            if lk is not None:
                d, key, default, strict = lk
                dflt = ast.Raise(exc=ast.Call(func=ast.Name(id="KeyError", ctx=ast.Load()), args=[], keywords=[]), cause=None) if strict else None
                new = _chain(d, key, lambda val: ast.Expr(value=ast.Call(func=val, args=copy.deepcopy(v.args), keywords=copy.deepcopy(v.keywords))), dflt)
                return _loc(new, st)
        self.generic_visit(st)
        return st

    @staticmethod
    def _next_gen(v):
        if isinstance(v, ast.Call) and isinstance(v.func, ast.Name) and v.func.id == "next" and len(v.args) == 2 and isinstance(v.args[0], ast.GeneratorExp) \
                and len(v.args[0].generators) == 1 and not v.keywords:
            return v.args[0], v.args[1]
        return None


def _bound_method_locals(fn):
    """`f = <path>.m` (assigned once, used only as the function of calls): the calls become `<path>.m(...)` and the assignment goes"""
    cnt, val, stmt = {}, {}, {}
    for x in ast.walk(fn):
        if isinstance(x, ast.Name) and isinstance(x.ctx, (ast.Store, ast.Del)):
            cnt[x.id] = cnt.get(x.id, 0) + 1
        if isinstance(x, ast.Assign) and len(x.targets) == 1 and isinstance(x.targets[0], ast.Name) and isinstance(x.value, ast.Attribute):
            base = x.value
            while isinstance(base, ast.Attribute):
                base = base.value
            if isinstance(base, ast.Name):
                val[x.targets[0].id] = x.value
                stmt[x.targets[0].id] = x
    params = {a.arg for a in fn.args.args}
    cands = {k for k in val if cnt.get(k) == 1 and k not in params}
    if not cands:
        return
    funcs = {id(x.func) for x in ast.walk(fn) if isinstance(x, ast.Call) and isinstance(x.func, ast.Name)}
    for x in ast.walk(fn):
        if isinstance(x, ast.Name) and isinstance(x.ctx, ast.Load) and x.id in cands and id(x) not in funcs:
            cands.discard(x.id)         # also used as a value
    # lambdas / nested functions capture by name: leave those alone
    for x in ast.walk(fn):
        if isinstance(x, (ast.Lambda, ast.FunctionDef)) and x is not fn:
            for y in ast.walk(x):
                if isinstance(y, ast.Name) and y.id in cands:
                    cands.discard(y.id)
    if not cands:
        return

    class T(ast.NodeTransformer):
        def visit_Call(self, n):
            self.generic_visit(n)
            if isinstance(n.func, ast.Name) and n.func.id in cands:
                n.func = _loc(copy.deepcopy(val[n.func.id]), n.func)
            return n

        def visit_Assign(self, n):
            if any(n is stmt[k] for k in cands):
                return ast.copy_location(ast.Pass(), n)
            self.generic_visit(n)
            return n
    T().visit(fn)


def _compose_comprehensions(fn):
    """`L = [g(s) for s in S if q(s)]` ... `[f(c) for c in L if p(c)]`  ->  `[f(g(s)) for s in S if q(s) if p(g(s))]`: a comprehension over a local list that is
    itself a comprehension is read through (the intermediate list stays if it is used elsewhere)"""
    for _ in range(3):
        cnt, val, stmt = {}, {}, {}
        for x in ast.walk(fn):
            if isinstance(x, ast.Name) and isinstance(x.ctx, (ast.Store, ast.Del)):
                cnt[x.id] = cnt.get(x.id, 0) + 1
            if isinstance(x, ast.Assign) and len(x.targets) == 1 and isinstance(x.targets[0], ast.Name) and isinstance(x.value, ast.ListComp) \
                    and all(isinstance(g.target, ast.Name) for g in x.value.generators):
                val[x.targets[0].id] = x.value
                stmt[x.targets[0].id] = x
        params = {a.arg for a in fn.args.args}
        table = {k: v for k, v in val.items() if cnt.get(k) == 1 and k not in params}
        # mutated lists are not pure pipelines
        for x in ast.walk(fn):
            if isinstance(x, ast.Call) and isinstance(x.func, ast.Attribute) and isinstance(x.func.value, ast.Name) and x.func.value.id in table and x.func.attr in MUTATORS:
                table.pop(x.func.value.id, None)
        if not table:
            return
        changed = False
        for c in [x for x in ast.walk(fn) if isinstance(x, (ast.ListComp, ast.GeneratorExp, ast.SetComp))]:
            for gi, g in enumerate(c.generators):
                if isinstance(g.iter, ast.Name) and g.iter.id in table and isinstance(g.target, ast.Name) and table[g.iter.id] is not c:
                    inner = copy.deepcopy(table[g.iter.id])
                    inner_vars = {gg.target.id for gg in inner.generators}
                    outer_names = {y.id for y in ast.walk(c) if isinstance(y, ast.Name)} - {g.iter.id}
                    if inner_vars & (outer_names - {g.target.id}):
                        continue
                    mapping = {g.target.id: inner.elt}
                    rest = c.generators[gi + 1:]
                    new_ifs = [_NameSubst(mapping).visit(copy.deepcopy(t)) for t in g.ifs]
                    inner.generators[-1].ifs += new_ifs
                    for r in rest:
                        r.iter = _NameSubst(mapping).visit(r.iter)
                        r.ifs = [_NameSubst(mapping).visit(t) for t in r.ifs]
                    c.elt = _NameSubst(mapping).visit(c.elt)
                    c.generators = c.generators[:gi] + inner.generators + rest
                    ast.fix_missing_locations(c)
                    changed = True
                    break
        # drop intermediates that are no longer read
        used = {x.id for x in ast.walk(fn) if isinstance(x, ast.Name) and isinstance(x.ctx, ast.Load)}
        dead = [stmt[k] for k in table if k not in used]
        if dead:
            class Drop(ast.NodeTransformer):
                def visit_Assign(self, n):
                    return ast.copy_location(ast.Pass(), n) if any(n is d for d in dead) else n
            Drop().visit(fn)
        if not changed:
            return


def _split_tuple_locals(fn):
    """a local that only ever holds tuple displays of one arity k, and is only read whole or through constant indices, is replaced by k scalar locals
    (`best = (a, b, c)` / `best[2]` / `x, y, z = best`  ->  `best_0 = a; best_1 = b; best_2 = c` / `best_2` / `x = best_0; ...`)"""
    params = {a.arg for a in fn.args.args} | ({fn.args.vararg.arg} if fn.args.vararg else set()) | ({fn.args.kwarg.arg} if fn.args.kwarg else set())
    arity, bad = {}, set()
    for x in ast.walk(fn):
        if isinstance(x, ast.Assign) and len(x.targets) == 1 and isinstance(x.targets[0], ast.Name):
            n = x.targets[0].id
            if isinstance(x.value, ast.Tuple) and not any(isinstance(e, ast.Starred) for e in x.value.elts) and len(x.value.elts) >= 2:
                if arity.setdefault(n, len(x.value.elts)) != len(x.value.elts):
                    bad.add(n)
            else:
                bad.add(n)
        elif isinstance(x, (ast.For, ast.comprehension, ast.AugAssign, ast.With, ast.NamedExpr, ast.Delete, ast.ExceptHandler)):
            for t in ast.walk(x.target if hasattr(x, "target") else x):
                if isinstance(t, ast.Name) and isinstance(t.ctx, (ast.Store, ast.Del)):
                    bad.add(t.id)
        elif isinstance(x, ast.Assign):
            for t in x.targets:
                for y in ast.walk(t):
                    if isinstance(y, ast.Name) and isinstance(y.ctx, ast.Store):
                        bad.add(y.id)
        if isinstance(x, (ast.Lambda, ast.FunctionDef)) and x is not fn:
            for y in ast.walk(x):
                if isinstance(y, ast.Name):
                    bad.add(y.id)
    cands = {n: k for n, k in arity.items() if n not in bad and n not in params}
    if not cands:
        return
    # reads: constant subscripts must be in range
    for x in ast.walk(fn):
        if isinstance(x, ast.Subscript) and isinstance(x.value, ast.Name) and x.value.id in cands:
            if not (isinstance(x.slice, ast.Constant) and isinstance(x.slice.value, int) and 0 <= x.slice.value < cands[x.value.id]) or not isinstance(x.ctx, ast.Load):
                cands.pop(x.value.id, None)
    # only worth it (and only then a normal form) when the tuple is taken apart somewhere: indexed by a constant or unpacked
    apart = set()
    for x in ast.walk(fn):
        if isinstance(x, ast.Subscript) and isinstance(x.value, ast.Name) and x.value.id in cands:
            apart.add(x.value.id)
        if isinstance(x, ast.Assign) and isinstance(x.value, ast.Name) and x.value.id in cands and len(x.targets) == 1 and isinstance(x.targets[0], (ast.Tuple, ast.List)):
            apart.add(x.value.id)
    cands = {n: k for n, k in cands.items() if n in apart}
    if not cands:
        return

    def comp(n, i, ctx):
        return ast.Name(id="%s_%d" % (n, i), ctx=ctx)

    class T(ast.NodeTransformer):
        def visit_Subscript(self, x):
            if isinstance(x.value, ast.Name) and x.value.id in cands and isinstance(x.slice, ast.Constant):
                return ast.copy_location(comp(x.value.id, x.slice.value, ast.Load()), x)
            self.generic_visit(x)
            return x

        def visit_Name(self, x):
            if isinstance(x.ctx, ast.Load) and x.id in cands:
                return ast.copy_location(ast.Tuple(elts=[comp(x.id, i, ast.Load()) for i in range(cands[x.id])], ctx=ast.Load()), x)
            return x

        def visit_Assign(self, x):
            if len(x.targets) == 1 and isinstance(x.targets[0], ast.Name) and x.targets[0].id in cands:
                x.value = self.visit(x.value)
                x.targets = [ast.copy_location(ast.Tuple(elts=[comp(x.targets[0].id, i, ast.Store()) for i in range(cands[x.targets[0].id])], ctx=ast.Store()), x.targets[0])]
                return x
            self.generic_visit(x)
            return x
    T().visit(fn)
    ast.fix_missing_locations(fn)


def desugar_function(fn):
    """rewrite fn.body in place; returns True if something changed"""
    before = ast.dump(fn)
    _bound_method_locals(fn)
    _split_tuple_locals(fn)
    _compose_comprehensions(fn)
    lits = _dict_literals(fn)
    d = _Desugar(lits)
    fn.body = d._stmts(fn.body)
    ast.fix_missing_locations(fn)
    return ast.dump(fn) != before


# =====================================================================================================================
# program-level normal forms
# =====================================================================================================================
MUTATORS = {"append", "update", "pop", "insert", "remove", "clear", "extend", "setdefault", "sort", "reverse", "add", "discard", "popitem"}


def _is_literal(node):
    try:
        ast.literal_eval(node)
        return True
    except Exception:
        return False


def _class_constants(P):
    """class name -> {NAME: literal node} for class-level `NAME = <literal>` never written or mutated anywhere in the package"""
    cand = {}
    for ci in P.classes.values():
        for st in ci.node.body:
            if isinstance(st, ast.Assign) and len(st.targets) == 1 and isinstance(st.targets[0], ast.Name) and _is_literal(st.value) \
                    and isinstance(st.value, (ast.Dict, ast.List, ast.Tuple, ast.Set, ast.Constant)):
                cand.setdefault(ci.name, {})[st.targets[0].id] = st.value
    names = {n for d in cand.values() for n in d}
    if not names:
        return {}
    dirty = set()
    for m in P.modules.values():
        for n in ast.walk(m.tree):
            if isinstance(n, ast.Attribute) and n.attr in names:
                if isinstance(n.ctx, (ast.Store, ast.Del)):
                    dirty.add(n.attr)
            if isinstance(n, ast.Subscript) and isinstance(n.ctx, (ast.Store, ast.Del)) and isinstance(n.value, ast.Attribute) and n.value.attr in names:
                dirty.add(n.value.attr)
            if isinstance(n, ast.Call) and isinstance(n.func, ast.Attribute) and n.func.attr in MUTATORS and isinstance(n.func.value, ast.Attribute) and n.func.value.attr in names:
                dirty.add(n.func.value.attr)
            if isinstance(n, ast.AugAssign) and isinstance(n.target, ast.Attribute) and n.target.attr in names:
                dirty.add(n.target.attr)
    return {c: {k: v for k, v in d.items() if k not in dirty} for c, d in cand.items()}


class _SelfConst(ast.NodeTransformer):
    def __init__(self, table):
        self.table = table
        self.changed = False

    def visit_Attribute(self, n):
        self.generic_visit(n)
        if isinstance(n.ctx, ast.Load) and isinstance(n.value, ast.Name) and n.value.id in ("self", "cls") and n.attr in self.table:
            self.changed = True
            return _loc(copy.deepcopy(self.table[n.attr]), n)
        return n

    def visit_Call(self, n):
        self.generic_visit(n)
        # getattr(self, "name") -> self.name
        if isinstance(n.func, ast.Name) and n.func.id == "getattr" and len(n.args) == 2 and not n.keywords and isinstance(n.args[1], ast.Constant) \
                and isinstance(n.args[1].value, str) and n.args[1].value.isidentifier():
            self.changed = True
            return ast.copy_location(ast.Attribute(value=n.args[0], attr=n.args[1].value, ctx=ast.Load()), n)
        return n


class _NameSubst(ast.NodeTransformer):
    def __init__(self, mapping):
        self.mapping = mapping

    def visit_Name(self, n):
        if isinstance(n.ctx, ast.Load) and n.id in self.mapping:
            return _loc(copy.deepcopy(self.mapping[n.id]), n)
        return n

    def visit_Lambda(self, n):
        return n


def _stores(nodes):
    out = set()
    for b in nodes:
        for x in ast.walk(b):
            if isinstance(x, ast.Name) and isinstance(x.ctx, (ast.Store, ast.Del)):
                out.add(x.id)
    return out


def _bind(target, elt, rest):
    """statements equivalent to `target = elt; rest`: by substitution when the bound names are not re-assigned in rest and the value is a pure access path"""
    pairs = None
    if isinstance(target, ast.Name):
        pairs = [(target, elt)]
    elif isinstance(target, (ast.Tuple, ast.List)) and isinstance(elt, (ast.Tuple, ast.List)) and len(target.elts) == len(elt.elts) and all(isinstance(t, ast.Name) for t in target.elts):
        pairs = list(zip(target.elts, elt.elts))
    pure = pairs is not None and all(not any(isinstance(x, (ast.Call, ast.Lambda, ast.Yield, ast.Await, ast.NamedExpr)) for x in ast.walk(v)) for _, v in pairs)
    if pure and not ({t.id for t, _ in pairs} & _stores(rest)):
        mapping = {t.id: v for t, v in pairs if not (isinstance(v, ast.Name) and v.id == t.id)}
        return [_NameSubst(mapping).visit(s) for s in rest] if mapping else rest
    return [ast.Assign(targets=[copy.deepcopy(target)], value=copy.deepcopy(elt), lineno=getattr(elt, "lineno", 1), col_offset=0)] + rest


def _gen_loops(gen, env, inner, depth=0):
    """statements that run `inner(elt)` once per element of the generator expression `gen`, in order (env: local name -> generator expression)"""
    def level(i):
        if i == len(gen.generators):
            return inner(gen.elt)
        g = gen.generators[i]
        def body_after_binding():
            rest = level(i + 1)
            for c in reversed(g.ifs):
                rest = [ast.If(test=copy.deepcopy(c), body=rest, orelse=[])]
            return rest
        src = g.iter
        if isinstance(src, ast.Name) and src.id in env and depth < 4:
            return _gen_loops(env[src.id], env, lambda elt2: _bind(g.target, elt2, body_after_binding()), depth + 1)
        if isinstance(src, ast.GeneratorExp) and depth < 4:
            return _gen_loops(src, env, lambda elt2: _bind(g.target, elt2, body_after_binding()), depth + 1)
        return [ast.For(target=copy.deepcopy(g.target), iter=copy.deepcopy(src), body=body_after_binding(), orelse=[], type_comment=None)]
    return level(0)


def _specialise_helpers(P, anchors):
    """a private helper (not part of the pinned API) that is fed a generator expression is expanded at its call sites: the helper's loop over the parameter
    becomes the loop(s) of the generator expression with the helper's body inside, parameters replaced by the arguments.  When every call site of the
    helper could be expanded the helper itself is dropped from the model."""
    for ci in list(P.classes.values()):
        mro = P.mro(ci.name)
        for fn in list(ci.methods.values()):
            _specialise_in(P, ci, mro, fn, anchors)
    # drop helpers that are no longer called
    called = set()
    for m in P.modules.values():
        for n in ast.walk(m.tree):
            if isinstance(n, ast.Attribute):
                called.add(n.attr)
    for ci in P.classes.values():
        for name in [k for k, f in ci.methods.items() if getattr(f, "_specialised", False) and k not in called]:
            ci.node.body.remove(ci.methods[name])
            del ci.methods[name]


def _specialise_in(P, ci, mro, fn, anchors):
    def local_gens(body_owner):
        cnt, gens = {}, {}
        for x in ast.walk(body_owner):
            if isinstance(x, ast.Name) and isinstance(x.ctx, ast.Store):
                cnt[x.id] = cnt.get(x.id, 0) + 1
            if isinstance(x, ast.Assign) and len(x.targets) == 1 and isinstance(x.targets[0], ast.Name) and isinstance(x.value, ast.GeneratorExp):
                gens[x.targets[0].id] = x
        return {k: v for k, v in gens.items() if cnt.get(k) == 1}

    def rewrite(body):
        out = []
        for st in body:
            for f in ("body", "orelse", "finalbody"):
                v = getattr(st, f, None)
                if isinstance(v, list) and v and isinstance(v[0], ast.stmt):
                    setattr(st, f, rewrite(v))
            new = expand(st)
            out += new if new is not None else [st]
        return out

    def expand(st):
        if not (isinstance(st, ast.Expr) and isinstance(st.value, ast.Call)):
            return None
        call = st.value
        f = call.func
        if not (isinstance(f, ast.Attribute) and isinstance(f.value, ast.Name) and f.value.id == "self" and f.attr not in anchors):
            return None
        h = None
        for c in mro:
            if c in P.classes and f.attr in P.classes[c].methods:
                h = P.classes[c].methods[f.attr]
                break
        static = [d for d in (h.decorator_list if h is not None else []) if isinstance(d, ast.Name) and d.id == "staticmethod"]
        if h is None or h is fn or len(h.decorator_list) != len(static) or h.args.vararg or h.args.kwarg or h.args.kwonlyargs:
            return None
        hbody = [s for s in h.body if not (isinstance(s, ast.Expr) and isinstance(s.value, ast.Constant))]
        if any(isinstance(x, (ast.Return, ast.Yield, ast.YieldFrom, ast.Global, ast.Nonlocal)) for s in hbody for x in ast.walk(s)):
            return None
        params = [a.arg for a in h.args.args][(0 if static else 1):]
        bound = {}
        for pn, a in zip(params, call.args):
            bound[pn] = a
        for k in call.keywords:
            if k.arg is None or k.arg not in params:
                return None
            bound[k.arg] = k.value
        for pn, d in zip(params[len(params) - len(h.args.defaults):], h.args.defaults):
            bound.setdefault(pn, d)
        if set(bound) != set(params) or len(call.args) > len(params):
            return None
        gens_here = local_gens(fn)
        genargs = {}
        displays = 0
        for pn, a in bound.items():
            if isinstance(a, ast.GeneratorExp):
                genargs[pn] = a
            elif isinstance(a, ast.Name) and a.id in gens_here:
                genargs[pn] = gens_here[a.id].value
            elif isinstance(a, (ast.List, ast.Tuple, ast.Dict, ast.Set)) and _is_literal(a):
                displays += 1           # a table passed as a literal: the helper is specialised to it
            elif not isinstance(a, (ast.Constant, ast.Name, ast.Attribute)):
                return None
        if not genargs and not displays:
            return None
        if displays:
            # literal tables are substituted textually: each such parameter must be read once
            for pn, a in bound.items():
                if isinstance(a, (ast.List, ast.Tuple, ast.Dict, ast.Set)) and sum(1 for s_ in hbody for x in ast.walk(s_) if isinstance(x, ast.Name) and x.id == pn) != 1:
                    return None
        env = {k: v.value for k, v in gens_here.items()}
        body = copy.deepcopy(hbody)
        # each generator parameter must be consumed by exactly one `for T in P:` and used nowhere else
        for pn, g in genargs.items():
            uses = [x for s in body for x in ast.walk(s) if isinstance(x, ast.Name) and x.id == pn]
            loops = [x for s in body for x in ast.walk(s) if isinstance(x, ast.For) and isinstance(x.iter, ast.Name) and x.iter.id == pn and not x.orelse]
            if len(uses) != 1 or len(loops) != 1:
                return None
        # helper locals must not clash with the caller's names
        hl = _stores(body) - set(params)
        caller_names = {x.id for x in ast.walk(fn) if isinstance(x, ast.Name)} | {a.arg for a in fn.args.args}
        gen_names = {x.id for g in genargs.values() for x in ast.walk(g) if isinstance(x, ast.Name)}
        ren = {n: ast.Name(id=n + "__" + h.name.strip("_"), ctx=ast.Load()) for n in hl if n in (caller_names - gen_names) and n not in _targets_of_param_loops(body, genargs)}
        if ren:
            class R(ast.NodeTransformer):
                def visit_Name(self, n):
                    if n.id in ren:
                        return ast.copy_location(ast.Name(id=ren[n.id].id, ctx=n.ctx), n)
                    return n
            body = [R().visit(s) for s in body]

        class ExpandLoops(ast.NodeTransformer):
            def visit_For(self, n):
                self.generic_visit(n)
                if isinstance(n.iter, ast.Name) and n.iter.id in genargs:
                    g = genargs[n.iter.id]
                    stmts = _gen_loops(copy.deepcopy(g), env, lambda elt: _bind(n.target, copy.deepcopy(elt), n.body))
                    return stmts
                return n
        new = []
        for s in body:
            r = ExpandLoops().visit(s)
            new += r if isinstance(r, list) else [r]
        mapping = {pn: a for pn, a in bound.items() if pn not in genargs}
        new = [_NameSubst(mapping).visit(s) for s in new]
        for s in new:
            _loc(s, st)
            ast.fix_missing_locations(s)
        h._specialised = True
        return new

    fn.body = rewrite(fn.body)
    # local generator expressions that are no longer referenced
    gens_here = local_gens(fn)
    if gens_here:
        used = {x.id for x in ast.walk(fn) if isinstance(x, ast.Name) and isinstance(x.ctx, ast.Load)}
        dead = [v for k, v in gens_here.items() if k not in used]
        if dead:
            class Drop(ast.NodeTransformer):
                def visit_Assign(self, n):
                    return ast.copy_location(ast.Pass(), n) if any(n is d for d in dead) else n
            # repeat: a chain a -> b -> helper leaves `a` dead only after `b` is gone
            for _ in range(4):
                Drop().visit(fn)
                gens_here = local_gens(fn)
                used = {x.id for x in ast.walk(fn) if isinstance(x, ast.Name) and isinstance(x.ctx, ast.Load)}
                dead = [v for k, v in gens_here.items() if k not in used]
                if not dead:
                    break
    ast.fix_missing_locations(fn)


def _targets_of_param_loops(body, genargs):
    out = set()
    for s in body:
        for x in ast.walk(s):
            if isinstance(x, ast.For) and isinstance(x.iter, ast.Name) and x.iter.id in genargs:
                out |= {t.id for t in ast.walk(x.target) if isinstance(t, ast.Name)}
    return out


def _inline_expression_functions(P, anchors):
    """a private module-level function whose body is a single `return <expression of its parameters>` is an expression macro: calls to it (by bare name,
    in the same module) are replaced by that expression"""
    for m in P.modules.values():
        macros = {}
        for st in m.tree.body:
            if isinstance(st, ast.FunctionDef) and st.name not in anchors and not st.decorator_list and not st.args.vararg and not st.args.kwarg and not st.args.kwonlyargs:
                body = [s for s in st.body if not (isinstance(s, ast.Expr) and isinstance(s.value, ast.Constant))]
                if len(body) == 1 and isinstance(body[0], ast.Return) and body[0].value is not None:
                    params = [a.arg for a in st.args.args]
                    free = {x.id for x in ast.walk(body[0].value) if isinstance(x, ast.Name)} - set(params)
                    # free names must be module-level / builtins (not locals): true for a one-statement function
                    if not any(isinstance(x, (ast.Lambda, ast.Yield, ast.Await)) for x in ast.walk(body[0].value)):
                        macros[st.name] = (params, st.args.defaults, body[0].value)
        # names referenced other than as a call (passed around) disable the macro
        if not macros:
            continue
        for x in ast.walk(m.tree):
            if isinstance(x, ast.Call) and isinstance(x.func, ast.Name) and x.func.id in macros:
                x._macro_call = True
        funcs = {id(x.func) for x in ast.walk(m.tree) if isinstance(x, ast.Call) and isinstance(x.func, ast.Name)}
        for x in ast.walk(m.tree):
            if isinstance(x, ast.Name) and isinstance(x.ctx, ast.Load) and x.id in macros and id(x) not in funcs:
                macros.pop(x.id, None)

        class T(ast.NodeTransformer):
            def visit_Call(self, n):
                self.generic_visit(n)
                if isinstance(n.func, ast.Name) and n.func.id in macros and not n.keywords:
                    params, defaults, expr = macros[n.func.id]
                    if len(n.args) == len(params) and all(not isinstance(a, ast.Starred) for a in n.args):
                        # arguments used more than once must be cheap and pure
                        mapping = dict(zip(params, n.args))
                        for p, a in mapping.items():
                            uses = sum(1 for y in ast.walk(expr) if isinstance(y, ast.Name) and y.id == p)
                            if uses > 1 and any(isinstance(y, ast.Call) for y in ast.walk(a)):
                                return n
                        return _loc(_NameSubst(mapping).visit(copy.deepcopy(expr)), n)
                return n
        for st in m.tree.body:
            if isinstance(st, ast.FunctionDef) and st.name in macros:
                continue
            T().visit(st)
        ast.fix_missing_locations(m.tree)


def normalise_program(P):
    from .anchors import ANCHOR_METHODS
    consts = _class_constants(P)
    P.class_constants = consts
    for ci in P.classes.values():
        table = {}
        for c in reversed(P.mro(ci.name)):
            table.update(consts.get(c, {}))
        own_attrs = set()
        for fn in ci.methods.values():
            t = _SelfConst(table)
            t.visit(fn)
            ast.fix_missing_locations(fn)
    _inline_expression_functions(P, ANCHOR_METHODS | {k[1] for k in P.functions if not k[1].startswith("_")})
    _specialise_helpers(P, ANCHOR_METHODS)
    for m in P.modules.values():
        for n in list(ast.walk(m.tree)):
            if isinstance(n, ast.FunctionDef):
                desugar_function(n)
