"""Source-level desugaring applied to every function when the program is loaded, so that the rules see ONE shape for idioms that
are interchangeable in Python:

  x = a if c else b            ->  if c: x = a  else: x = b                (also `return a if c else b`)
  x = next((v for v in S if p), d)  ->  x = d; for v in S: if p: x = v; break      (also as `return`)
  D = {k1: f1, ...};  h = D.get(E) / D[E]      ->  if E == k1: h = f1  elif ...  else: h = None / raise KeyError     (dict dispatch)
  D[E](...) / D.get(E)(...) as a statement     ->  if E == k1: f1(...) elif ...
  E in D / E not in D  (D such a literal dict) ->  E in (k1, ...) / E not in (k1, ...)

  for K, V in X.items(): body                  ->  for K in X: V = X[K]; body      (loop node marked `_dict_iter = "items"`)
  for K in X.keys(): body                      ->  for K in X: body                (marked `_dict_iter = "keys"`)

Only local, single-assignment dict literals with constant keys are treated; everything else is left alone.
"""
import ast
import copy


def _loc(new, old):
    for n in ast.walk(new):
        if not hasattr(n, "lineno") or True:
            try:
                n.lineno = getattr(old, "lineno", 1)
                n.col_offset = getattr(old, "col_offset", 0)
                n.end_lineno = getattr(old, "end_lineno", getattr(old, "lineno", 1))
                n.end_col_offset = getattr(old, "end_col_offset", 0)
            except AttributeError:
                pass
    return new


def _loc_shallow(new, old):
    """give `new` (a statement that already carries positions inside) a position if it has none"""
    if not hasattr(new, "lineno"):
        new.lineno = getattr(old, "lineno", 1)
        new.col_offset = getattr(old, "col_offset", 0)
        new.end_lineno = getattr(old, "end_lineno", new.lineno)
        new.end_col_offset = getattr(old, "end_col_offset", 0)
    ast.fix_missing_locations(new)
    return new


def _dict_literals(fn):
    """local name -> Dict node, for names assigned exactly once, from a dict display with constant keys"""
    counts, lits = {}, {}
    for n in ast.walk(fn):
        if isinstance(n, (ast.Assign, ast.AugAssign, ast.AnnAssign, ast.For, ast.With)):
            for t in ast.walk(n):
                if isinstance(t, ast.Name) and isinstance(t.ctx, ast.Store):
                    counts[t.id] = counts.get(t.id, 0) + 1
        if isinstance(n, ast.Assign) and len(n.targets) == 1 and isinstance(n.targets[0], ast.Name) and isinstance(n.value, ast.Dict) and n.value.keys \
                and all(isinstance(k, ast.Constant) for k in n.value.keys):
            lits[n.targets[0].id] = n.value
    # the dict must not be mutated or passed around
    for n in ast.walk(fn):
        if isinstance(n, ast.Subscript) and isinstance(n.ctx, (ast.Store, ast.Del)) and isinstance(n.value, ast.Name):
            lits.pop(n.value.id, None)
        if isinstance(n, ast.Call) and isinstance(n.func, ast.Attribute) and isinstance(n.func.value, ast.Name) and n.func.attr not in ("get", "keys", "items", "values"):
            lits.pop(n.func.value.id, None)
    return {k: v for k, v in lits.items() if counts.get(k, 0) == 1}


def _lookup(expr, lits):
    """expr is D[E] or D.get(E[, default]) on a literal dict -> (Dict, E, default_or_None, strict)"""
    def lit(n):
        if isinstance(n, ast.Name) and n.id in lits:
            return lits[n.id]
        if isinstance(n, ast.Dict) and n.keys and all(isinstance(k, ast.Constant) for k in n.keys):
            return n            # a dict display used in place (e.g. a substituted class-level constant)
        return None
    if isinstance(expr, ast.Subscript) and lit(expr.value) is not None:
        return lit(expr.value), expr.slice, None, True
    if isinstance(expr, ast.Call) and isinstance(expr.func, ast.Attribute) and expr.func.attr == "get" and lit(expr.func.value) is not None \
            and 1 <= len(expr.args) <= 2 and not expr.keywords:
        return lit(expr.func.value), expr.args[0], (expr.args[1] if len(expr.args) == 2 else ast.Constant(value=None)), False
    return None


def _chain(d, key, make_stmt, default_stmt):
    """if key == k1: make_stmt(v1) elif ... else: default_stmt"""
    orelse = [default_stmt] if default_stmt is not None else []
    for k, v in reversed(list(zip(d.keys, d.values))):
        test = ast.Compare(left=copy.deepcopy(key), ops=[ast.Eq()], comparators=[copy.deepcopy(k)])
        orelse = [ast.If(test=test, body=[make_stmt(copy.deepcopy(v))], orelse=orelse)]
    return orelse[0]


class _Desugar(ast.NodeTransformer):
    def __init__(self, lits):
        self.lits = lits

    # ---- expressions: membership in a literal dict ----------------------------------------------------
    def visit_Compare(self, n):
        self.generic_visit(n)
        if len(n.ops) == 1 and isinstance(n.ops[0], (ast.In, ast.NotIn)) and isinstance(n.comparators[0], ast.Name) and n.comparators[0].id in self.lits:
            d = self.lits[n.comparators[0].id]
            n.comparators = [ast.Tuple(elts=[copy.deepcopy(k) for k in d.keys], ctx=ast.Load())]
        return n

    # ---- statements --------------------------------------------------------------------------------------
    @staticmethod
    def _append_loop(init, loop):
        """`L = []` followed by `for x in S: [if p:] L.append(e)` (possibly nested fors/ifs, nothing else) -> the list comprehension, else None"""
        if not (isinstance(init, ast.Assign) and len(init.targets) == 1 and isinstance(init.targets[0], ast.Name) and isinstance(init.value, ast.List) and not init.value.elts):
            return None
        L = init.targets[0].id
        gens = []
        node = loop
        while True:
            if isinstance(node, ast.For) and not node.orelse and len(node.body) == 1:
                gens.append(ast.comprehension(target=node.target, iter=node.iter, ifs=[], is_async=0))
                node = node.body[0]
            elif isinstance(node, ast.If) and not node.orelse and len(node.body) == 1 and gens:
                gens[-1].ifs.append(node.test)
                node = node.body[0]
            else:
                break
        if not gens or not (isinstance(node, ast.Expr) and isinstance(node.value, ast.Call) and isinstance(node.value.func, ast.Attribute) and node.value.func.attr == "append"
                            and isinstance(node.value.func.value, ast.Name) and node.value.func.value.id == L and len(node.value.args) == 1 and not node.value.keywords):
            return None
        # the list under construction must not be read inside the loop
        for g in gens:
            for x in list(ast.walk(g.iter)) + [y for c in g.ifs for y in ast.walk(c)]:
                if isinstance(x, ast.Name) and x.id == L:
                    return None
        if any(isinstance(x, ast.Name) and x.id == L for x in ast.walk(node.value.args[0])):
            return None
        return _loc(ast.Assign(targets=[ast.Name(id=L, ctx=ast.Store())], value=ast.ListComp(elt=node.value.args[0], generators=gens)), init)

    def _stmts(self, body):
        merged = []
        i = 0
        while i < len(body):
            if i + 1 < len(body) and isinstance(body[i + 1], ast.For):
                comp = self._append_loop(body[i], body[i + 1])
                if comp is not None:
                    merged.append(comp)
                    i += 2
                    continue
            merged.append(body[i])
            i += 1
        body = merged
        out = []
        for st in body:
            r = self.visit(st)
            if isinstance(r, list):
                out += r
            elif r is not None:
                out.append(r)
        return out

    def generic_visit(self, node):
        for f in ("body", "orelse", "finalbody"):
            v = getattr(node, f, None)
            if isinstance(v, list) and v and isinstance(v[0], ast.stmt):
                setattr(node, f, self._stmts(v))
        for f, v in ast.iter_fields(node):
            if f in ("body", "orelse", "finalbody") and isinstance(v, list) and v and isinstance(v[0], ast.stmt):
                continue
            if isinstance(v, list):
                setattr(node, f, [self.visit(x) if isinstance(x, ast.AST) else x for x in v])
            elif isinstance(v, ast.AST):
                setattr(node, f, self.visit(v))
        return node

    def visit_FunctionDef(self, n):
        return n        # nested functions are desugared on their own

    def visit_Lambda(self, n):
        return n

    def visit_Assign(self, st):
        qh = self._queue_head_pop(st)
        if qh is not None:
            return qh
        if len(st.targets) > 1:
            # a = b = V  ->  a = V; b = V   (V evaluated once: through a temporary unless it is a constant or a pure access path)
            v = st.value
            pure = not any(isinstance(x, (ast.Call, ast.Lambda, ast.ListComp, ast.GeneratorExp, ast.DictComp, ast.SetComp, ast.Yield, ast.Await, ast.NamedExpr, ast.List, ast.Dict, ast.Set)) for x in ast.walk(v))
            out = []
            if pure:
                for t in st.targets:
                    out.append(_loc(ast.Assign(targets=[t], value=copy.deepcopy(v)), st))
            else:
                tmp = "_chain%d" % getattr(st, "lineno", 0)
                out.append(_loc(ast.Assign(targets=[ast.Name(id=tmp, ctx=ast.Store())], value=v), st))
                for t in st.targets:
                    out.append(_loc(ast.Assign(targets=[t], value=ast.Name(id=tmp, ctx=ast.Load())), st))
            res = []
            for o in out:
                r = self.visit(o)
                res += r if isinstance(r, list) else [r]
            return res
        if len(st.targets) == 1 and isinstance(st.targets[0], (ast.Tuple, ast.List)) and isinstance(st.value, (ast.Tuple, ast.List)) \
                and len(st.targets[0].elts) == len(st.value.elts) and len(st.value.elts) > 1 \
                and not any(isinstance(e, ast.Starred) for e in st.targets[0].elts + st.value.elts):
            # a, b = x, y  ->  a = x; b = y   (through temporaries when a later value reads what an earlier target writes)
            tg, vs = st.targets[0].elts, st.value.elts
            def reads(n):
                return {ast.unparse(x) for x in ast.walk(n) if isinstance(x, (ast.Name, ast.Attribute, ast.Subscript))}
            conflict = False
            for i in range(len(tg)):
                w = ast.unparse(tg[i])
                for j in range(i + 1, len(vs)):
                    # a later value reads what an earlier target writes; or it calls something that could observe an earlier store into an object
                    if any(r == w or r.startswith(w + ".") or r.startswith(w + "[") for r in reads(vs[j])) or \
                            (not isinstance(tg[i], ast.Name) and any(isinstance(x, ast.Call) for x in ast.walk(vs[j]))):
                        conflict = True
            out = []
            if conflict:
                tmps = ["_unpack%d_%d" % (getattr(st, "lineno", 0), i) for i in range(len(vs))]
                for t_, v_ in zip(tmps, vs):
                    out.append(_loc(ast.Assign(targets=[ast.Name(id=t_, ctx=ast.Store())], value=v_), st))
                for t_, g_ in zip(tmps, tg):
                    out.append(_loc(ast.Assign(targets=[g_], value=ast.Name(id=t_, ctx=ast.Load())), st))
            else:
                for g_, v_ in zip(tg, vs):
                    out.append(_loc(ast.Assign(targets=[g_], value=v_), st))
            res = []
            for o in out:
                r = self.visit(o)
                res += r if isinstance(r, list) else [r]
            return res
        if len(st.targets) == 1:
            v = st.value
            tgt = st.targets[0]
            if isinstance(v, ast.IfExp):
                new = ast.If(test=v.test, body=[ast.Assign(targets=[copy.deepcopy(tgt)], value=v.body)], orelse=[ast.Assign(targets=[copy.deepcopy(tgt)], value=v.orelse)])
                return self.visit(_loc(new, st))
            lk = _lookup(v, self.lits)
            if lk is not None and isinstance(tgt, ast.Name):
                d, key, default, strict = lk
                dflt = ast.Raise(exc=ast.Call(func=ast.Name(id="KeyError", ctx=ast.Load()), args=[], keywords=[]), cause=None) if strict else \
                    ast.Assign(targets=[copy.deepcopy(tgt)], value=default)
                new = _chain(d, key, lambda val: ast.Assign(targets=[copy.deepcopy(tgt)], value=val), dflt)
                return _loc(new, st)
            # x = D[k](args): the callee is looked up in a literal table -> if k == k1: x = v1(args) ...
            lkc = _lookup(v.func, self.lits) if isinstance(v, ast.Call) else None
            if lkc is not None and lkc[3] and isinstance(tgt, ast.Name) and not any(isinstance(y, ast.Call) for a_ in list(v.args) + [k_.value for k_ in v.keywords] for y in ast.walk(a_)):
                d, key, default, strict = lkc
                dflt = ast.Raise(exc=ast.Call(func=ast.Name(id="KeyError", ctx=ast.Load()), args=[], keywords=[]), cause=None)
                new = _chain(d, key, lambda val: ast.Assign(targets=[copy.deepcopy(tgt)], value=ast.Call(func=val, args=copy.deepcopy(v.args), keywords=copy.deepcopy(v.keywords))), dflt)
                return _loc(new, st)
            nx = self._next_gen(v)
            if nx is not None and isinstance(tgt, ast.Name):
                gen, default = nx
                g = gen.generators[0]
                body = [ast.Assign(targets=[copy.deepcopy(tgt)], value=gen.elt), ast.Break()]
                for c in reversed(g.ifs):
                    body = [ast.If(test=c, body=body, orelse=[])]
                loop = ast.For(target=g.target, iter=g.iter, body=body, orelse=[], type_comment=None)
                return [_loc(ast.Assign(targets=[copy.deepcopy(tgt)], value=default), st), _loc(loop, st)]
            if isinstance(v, ast.Dict) and isinstance(tgt, ast.Name) and tgt.id in self.lits:
                return st
        self.generic_visit(st)
        return st

    @staticmethod
    def _queue_head_pop(st):
        """`x = Q.interrupted_individuals.pop(0)`: the head is read, then removed -- written `x = Q...[0]` / `Q....remove(x)` (the removal of the head by value
        removes the head itself).  Only for the queue of interrupted customers, whose head/remove form the typestate rules read."""
        v = st.value
        if (len(st.targets) == 1 and isinstance(st.targets[0], ast.Name) and isinstance(v, ast.Call) and isinstance(v.func, ast.Attribute) and v.func.attr == "pop"
                and len(v.args) == 1 and not v.keywords and isinstance(v.args[0], ast.Constant) and v.args[0].value == 0
                and isinstance(v.func.value, ast.Attribute) and v.func.value.attr == "interrupted_individuals"
                and not any(isinstance(x, ast.Call) for x in ast.walk(v.func.value))):
            q = v.func.value
            head = ast.Assign(targets=[st.targets[0]], value=ast.Subscript(value=copy.deepcopy(q), slice=ast.Constant(value=0), ctx=ast.Load()))
            rem = ast.Expr(value=ast.Call(func=ast.Attribute(value=copy.deepcopy(q), attr="remove", ctx=ast.Load()), args=[ast.Name(id=st.targets[0].id, ctx=ast.Load())], keywords=[]))
            return [_loc(head, st), _loc(rem, st)]
        return None

    def visit_Return(self, st):
        v = st.value
        if isinstance(v, ast.IfExp):
            new = ast.If(test=v.test, body=[ast.Return(value=v.body)], orelse=[ast.Return(value=v.orelse)])
            return self.visit(_loc(new, st))
        nx = self._next_gen(v) if v is not None else None
        if nx is not None:
            gen, default = nx
            g = gen.generators[0]
            body = [ast.Return(value=gen.elt)]
            for c in reversed(g.ifs):
                body = [ast.If(test=c, body=body, orelse=[])]
            loop = ast.For(target=g.target, iter=g.iter, body=body, orelse=[], type_comment=None)
            return [_loc(loop, st), _loc(ast.Return(value=default), st)]
        self.generic_visit(st)
        return st

    def visit_AugAssign(self, st):
        r = self._split_on_ifexp(st)
        if r is not None:
            return r
        self.generic_visit(st)
        return st

    def _split_on_ifexp(self, st):
        """a call-free assignment statement holding one conditional expression anywhere (e.g. in a subscript) becomes an if/else of two statements"""
        ifes = []

        def rec(n):
            if isinstance(n, (ast.Lambda, ast.ListComp, ast.GeneratorExp, ast.DictComp, ast.SetComp)):
                return
            if isinstance(n, ast.IfExp):
                ifes.append(n)
                return
            for c in ast.iter_child_nodes(n):
                rec(c)
        rec(st)
        if len(ifes) != 1 or any(isinstance(x, ast.Call) for x in ast.walk(st) if not any(x is y for y in ast.walk(ifes[0]))):
            return None
        ife = ifes[0]

        def variant(val):
            class R(ast.NodeTransformer):
                def visit_IfExp(self, n):
                    return copy.deepcopy(val) if n is ife else self.generic_visit(n)
            # deep-copying the statement would lose the identity of `ife`: rebuild by transforming a copy whose IfExp is located structurally
            c = copy.deepcopy(st)
            target = [x for x in ast.walk(c) if isinstance(x, ast.IfExp) and ast.dump(x) == ast.dump(ife)][0]

            class R2(ast.NodeTransformer):
                def visit_IfExp(self, n):
                    return copy.deepcopy(val) if n is target else self.generic_visit(n)
            return R2().visit(c)
        new = ast.If(test=copy.deepcopy(ife.test), body=[variant(ife.body)], orelse=[variant(ife.orelse)])
        return self.visit(_loc_shallow(new, st))

    def visit_Match(self, st):
        """match E: case "a": A; case "b" | "c": B; case _: C   ->   if E == "a": A elif E in ("b", "c"): B else: C      (literal / or-of-literal / capture-free
        patterns only; the subject must be a pure access path because it is repeated)"""
        subj = st.subject
        if any(isinstance(x, (ast.Call, ast.Lambda, ast.NamedExpr, ast.Await, ast.Yield)) for x in ast.walk(subj)):
            self.generic_visit(st)
            return st

        def lits(p):
            if isinstance(p, ast.MatchValue) and isinstance(p.value, (ast.Constant, ast.Attribute)):
                return [p.value]
            if isinstance(p, ast.MatchSingleton):
                return [ast.Constant(value=p.value)]
            if isinstance(p, ast.MatchOr):
                out = []
                for q in p.patterns:
                    l = lits(q)
                    if l is None:
                        return None
                    out += l
                return out
            return None
        chain = None
        arms = []
        for c in st.cases:
            if isinstance(c.pattern, ast.MatchAs) and c.pattern.pattern is None and c.pattern.name is None and c.guard is None:
                arms.append((None, c.body))
                break
            l = lits(c.pattern)
            if l is None:
                self.generic_visit(st)
                return st
            if len(l) == 1:
                single = isinstance(l[0], ast.Constant) and l[0].value in (None, True, False)
                test = ast.Compare(left=copy.deepcopy(subj), ops=[ast.Is() if single else ast.Eq()], comparators=[l[0]])
            else:
                test = ast.Compare(left=copy.deepcopy(subj), ops=[ast.In()], comparators=[ast.Tuple(elts=l, ctx=ast.Load())])
            if c.guard is not None:
                test = ast.BoolOp(op=ast.And(), values=[test, c.guard])
            arms.append((test, c.body))
        orelse = []
        for test, body in reversed(arms):
            if test is None:
                orelse = body
            else:
                orelse = [ast.If(test=test, body=body, orelse=orelse)]
        if not orelse:
            return ast.copy_location(ast.Pass(), st)
        res = []
        for o in orelse:
            r = self.visit(_loc_shallow(o, st))
            res += r if isinstance(r, list) else [r]
        return res

    def visit_If(self, st):
        # if (x := E) <cmp> ...:   ->   x = E; if x <cmp> ...:      (one walrus, evaluated first in the test)
        w = [x for x in ast.walk(st.test) if isinstance(x, ast.NamedExpr)]
        if len(w) == 1 and isinstance(w[0].target, ast.Name) and self._evaluated_first(st.test, w[0]):
            nm = w[0]

            class R(ast.NodeTransformer):
                def visit_NamedExpr(self, n):
                    return ast.copy_location(ast.Name(id=nm.target.id, ctx=ast.Load()), n) if n is nm else n
            pre = _loc(ast.Assign(targets=[ast.Name(id=nm.target.id, ctx=ast.Store())], value=nm.value), st)
            st.test = R().visit(st.test)
            out = []
            for o in (pre, st):
                r = self.visit(o) if o is pre else self._visit_if_plain(o)
                out += r if isinstance(r, list) else [r]
            return out
        return self._visit_if_plain(st)

    def _visit_if_plain(self, st):
        # if A and B: X else: Y   with an effectful call in B (evaluated only when A holds)   ->   if A: (if B: X else: Y) else: Y
        # if A or  B: X else: Y                                                                ->   if A: X else: (if B: X else: Y)
        t = st.test
        if isinstance(t, ast.BoolOp) and len(t.values) >= 2 and any(self._effectful(v) for v in t.values[1:]):
            first = t.values[0]
            rest = t.values[1] if len(t.values) == 2 else ast.BoolOp(op=t.op, values=t.values[1:])
            if isinstance(t.op, ast.And):
                inner = ast.If(test=rest, body=st.body, orelse=copy.deepcopy(st.orelse))
                new = ast.If(test=first, body=[_loc_shallow(inner, st)], orelse=st.orelse)
            else:
                inner = ast.If(test=rest, body=copy.deepcopy(st.body), orelse=st.orelse)
                new = ast.If(test=first, body=st.body, orelse=[_loc_shallow(inner, st)])
            return self.visit_If(_loc_shallow(new, st))
        self.generic_visit(st)
        return st

    @staticmethod
    def _effectful(e):
        for x in ast.walk(e):
            if isinstance(x, ast.Call) and not (isinstance(x.func, ast.Name) and x.func.id in ("isinf", "len", "isinstance", "float", "str", "int", "min", "max", "abs", "bool", "set", "list", "tuple", "sum", "any", "all", "sorted")):
                return True
        return False

    @staticmethod
    def _evaluated_first(test, nm):
        """the walrus is the leftmost-evaluated sub-expression of the test (so hoisting it does not reorder evaluation)"""
        n = test
        while True:
            if n is nm:
                return True
            if isinstance(n, ast.BoolOp):
                n = n.values[0]
            elif isinstance(n, ast.Compare):
                n = n.left
            elif isinstance(n, ast.UnaryOp):
                n = n.operand
            elif isinstance(n, ast.Call) and n.args and not isinstance(n.func, ast.Call):
                if any(isinstance(x, ast.Call) for x in ast.walk(n.func)):
                    return False
                n = n.args[0]
            elif isinstance(n, ast.Attribute):
                n = n.value
            elif isinstance(n, ast.Subscript):
                n = n.value
            else:
                return False

    def visit_For(self, st):
        it = st.iter
        if isinstance(it, ast.Call) and isinstance(it.func, ast.Attribute) and not it.args and not it.keywords:
            if (it.func.attr == "items" and isinstance(st.target, ast.Tuple) and len(st.target.elts) == 2 and all(isinstance(e, ast.Name) for e in st.target.elts)
                    and not any(isinstance(x, ast.Name) and isinstance(x.ctx, ast.Store) and x.id in (st.target.elts[0].id, st.target.elts[1].id) for b in st.body for x in ast.walk(b))):
                k, v = st.target.elts
                x = it.func.value
                bind = ast.Assign(targets=[ast.Name(id=v.id, ctx=ast.Store())],
                                  value=ast.Subscript(value=copy.deepcopy(x), slice=ast.Name(id=k.id, ctx=ast.Load()), ctx=ast.Load()))
                _loc(bind, st)
                st.target = ast.Name(id=k.id, ctx=ast.Store())
                ast.copy_location(st.target, k)
                st.iter = x
                st.body = [bind] + st.body
                st._dict_iter = "items"
            elif it.func.attr == "keys" and isinstance(st.target, ast.Name):
                st.iter = it.func.value
                st._dict_iter = "keys"
        self.generic_visit(st)
        return st

    def visit_Expr(self, st):
        v = st.value
        if isinstance(v, ast.Call):
            # G.add_edges_from((a, b) for v in S)  ->  for v in S: G.add_edge(a, b)        (networkx bulk form of the same edge insertions)
            if isinstance(v.func, ast.Attribute) and v.func.attr == "add_edges_from" and len(v.args) == 1 and not v.keywords \
                    and isinstance(v.args[0], (ast.GeneratorExp, ast.ListComp)) and isinstance(v.args[0].elt, ast.Tuple) and len(v.args[0].elt.elts) == 2:
                comp = v.args[0]
                body = [ast.Expr(value=ast.Call(func=ast.Attribute(value=v.func.value, attr="add_edge", ctx=ast.Load()), args=list(comp.elt.elts), keywords=[]))]
                for g in reversed(comp.generators):
                    for c in reversed(g.ifs):
                        body = [ast.If(test=c, body=body, orelse=[])]
                    body = [ast.For(target=g.target, iter=g.iter, body=body, orelse=[], type_comment=None)]
                return self.visit(_loc(body[0], st))
            # D.setdefault(k, v) as a statement  ->  if k not in D: D[k] = v       (k and an effectful v are evaluated first, once)
            if isinstance(v.func, ast.Attribute) and v.func.attr == "setdefault" and len(v.args) == 2 and not v.keywords \
                    and not any(isinstance(x, (ast.Call, ast.Starred)) for x in ast.walk(v.func.value)):
                pre = []
                k_, val = v.args
                if any(isinstance(x, ast.Call) for x in ast.walk(k_)):
                    nm = "_sd_key_%d" % getattr(st, "lineno", 0)
                    pre.append(ast.Assign(targets=[ast.Name(id=nm, ctx=ast.Store())], value=k_))
                    k_ = ast.Name(id=nm, ctx=ast.Load())
                if any(isinstance(x, ast.Call) for x in ast.walk(val)):
                    nm = "_sd_val_%d" % getattr(st, "lineno", 0)
                    pre.append(ast.Assign(targets=[ast.Name(id=nm, ctx=ast.Store())], value=val))
                    val = ast.Name(id=nm, ctx=ast.Load())
                new = ast.If(test=ast.Compare(left=copy.deepcopy(k_), ops=[ast.NotIn()], comparators=[copy.deepcopy(v.func.value)]),
                             body=[ast.Assign(targets=[ast.Subscript(value=copy.deepcopy(v.func.value), slice=copy.deepcopy(k_), ctx=ast.Store())], value=val)], orelse=[])
                out = []
                for x in pre + [new]:
                    r = self.visit(_loc(x, st))
                    out += r if isinstance(r, list) else [r]
                return out
            # f(a, x if c else y)  ->  if c: f(a, x) else: f(a, y)      (a call statement with one conditional argument)
            slots = [("a", i) for i, a in enumerate(v.args) if isinstance(a, ast.IfExp)] + [("k", i) for i, k in enumerate(v.keywords) if isinstance(k.value, ast.IfExp)]
            if len(slots) == 1:
                kind, i = slots[0]
                ife = v.args[i] if kind == "a" else v.keywords[i].value
                earlier = v.args[:i] if kind == "a" else list(v.args) + [k.value for k in v.keywords[:i]]
                if not any(isinstance(x, ast.Call) for a in earlier + [v.func] for x in ast.walk(a)):     # evaluation order of earlier arguments is not disturbed
                    def variant(val):
                        c = copy.deepcopy(v)
                        if kind == "a":
                            c.args[i] = val
                        else:
                            c.keywords[i].value = val
                        return ast.Expr(value=c)
                    new = ast.If(test=ife.test, body=[variant(ife.body)], orelse=[variant(ife.orelse)])
                    return self.visit(_loc(new, st))
            lk = _lookup(v.func, self.lits)
            if lk is not None:
                d, key, default, strict = lk
                dflt = ast.Raise(exc=ast.Call(func=ast.Name(id="KeyError", ctx=ast.Load()), args=[], keywords=[]), cause=None) if strict else None
                new = _chain(d, key, lambda val: ast.Expr(value=ast.Call(func=val, args=copy.deepcopy(v.args), keywords=copy.deepcopy(v.keywords))), dflt)
                return _loc(new, st)
        self.generic_visit(st)
        return st

    @staticmethod
    def _next_gen(v):
        if isinstance(v, ast.Call) and isinstance(v.func, ast.Name) and v.func.id == "next" and len(v.args) == 2 and isinstance(v.args[0], ast.GeneratorExp) \
                and len(v.args[0].generators) == 1 and not v.keywords:
            return v.args[0], v.args[1]
        return None


def _bound_method_locals(fn):
    """`f = <path>.m` (assigned once, used only as the function of calls): the calls become `<path>.m(...)` and the assignment goes"""
    cnt, val, stmt = {}, {}, {}
    for x in ast.walk(fn):
        if isinstance(x, ast.Name) and isinstance(x.ctx, (ast.Store, ast.Del)):
            cnt[x.id] = cnt.get(x.id, 0) + 1
        if isinstance(x, ast.Assign) and len(x.targets) == 1 and isinstance(x.targets[0], ast.Name) and isinstance(x.value, ast.Attribute):
            base = x.value
            while isinstance(base, ast.Attribute):
                base = base.value
            if isinstance(base, ast.Name):
                val[x.targets[0].id] = x.value
                stmt[x.targets[0].id] = x
    params = {a.arg for a in fn.args.args}
    cands = {k for k in val if cnt.get(k) == 1 and k not in params}
    if not cands:
        return
    funcs = {id(x.func) for x in ast.walk(fn) if isinstance(x, ast.Call) and isinstance(x.func, ast.Name)}
    for x in ast.walk(fn):
        if isinstance(x, ast.Name) and isinstance(x.ctx, ast.Load) and x.id in cands and id(x) not in funcs:
            cands.discard(x.id)         # also used as a value
    # lambdas / nested functions capture by name: leave those alone
    for x in ast.walk(fn):
        if isinstance(x, (ast.Lambda, ast.FunctionDef)) and x is not fn:
            for y in ast.walk(x):
                if isinstance(y, ast.Name) and y.id in cands:
                    cands.discard(y.id)
    if not cands:
        return

    class T(ast.NodeTransformer):
        def visit_Call(self, n):
            self.generic_visit(n)
            if isinstance(n.func, ast.Name) and n.func.id in cands:
                n.func = _loc(copy.deepcopy(val[n.func.id]), n.func)
            return n

        def visit_Assign(self, n):
            if any(n is stmt[k] for k in cands):
                return ast.copy_location(ast.Pass(), n)
            self.generic_visit(n)
            return n
    T().visit(fn)


def _compose_comprehensions(fn):
    """`L = [g(s) for s in S if q(s)]` ... `[f(c) for c in L if p(c)]`  ->  `[f(g(s)) for s in S if q(s) if p(g(s))]`: a comprehension over a local list that is
    itself a comprehension is read through (the intermediate list stays if it is used elsewhere)"""
    for _ in range(3):
        cnt, val, stmt = {}, {}, {}
        for x in ast.walk(fn):
            if isinstance(x, ast.Name) and isinstance(x.ctx, (ast.Store, ast.Del)):
                cnt[x.id] = cnt.get(x.id, 0) + 1
            if isinstance(x, ast.Assign) and len(x.targets) == 1 and isinstance(x.targets[0], ast.Name) and isinstance(x.value, ast.ListComp) \
                    and all(isinstance(g.target, ast.Name) for g in x.value.generators):
                val[x.targets[0].id] = x.value
                stmt[x.targets[0].id] = x
        params = {a.arg for a in fn.args.args}
        table = {k: v for k, v in val.items() if cnt.get(k) == 1 and k not in params}
        # mutated lists are not pure pipelines
        for x in ast.walk(fn):
            if isinstance(x, ast.Call) and isinstance(x.func, ast.Attribute) and isinstance(x.func.value, ast.Name) and x.func.value.id in table and x.func.attr in MUTATORS:
                table.pop(x.func.value.id, None)
        if not table:
            return
        changed = False
        for c in [x for x in ast.walk(fn) if isinstance(x, (ast.ListComp, ast.GeneratorExp, ast.SetComp))]:
            for gi, g in enumerate(c.generators):
                if isinstance(g.iter, ast.Name) and g.iter.id in table and isinstance(g.target, ast.Name) and table[g.iter.id] is not c:
                    inner = copy.deepcopy(table[g.iter.id])
                    inner_vars = {gg.target.id for gg in inner.generators}
                    outer_names = {y.id for y in ast.walk(c) if isinstance(y, ast.Name)} - {g.iter.id}
                    if inner_vars & (outer_names - {g.target.id}):
                        continue
                    mapping = {g.target.id: inner.elt}
                    rest = c.generators[gi + 1:]
                    new_ifs = [_NameSubst(mapping).visit(copy.deepcopy(t)) for t in g.ifs]
                    inner.generators[-1].ifs += new_ifs
                    for r in rest:
                        r.iter = _NameSubst(mapping).visit(r.iter)
                        r.ifs = [_NameSubst(mapping).visit(t) for t in r.ifs]
                    c.elt = _NameSubst(mapping).visit(c.elt)
                    c.generators = c.generators[:gi] + inner.generators + rest
                    ast.fix_missing_locations(c)
                    changed = True
                    break
        # drop intermediates that are no longer read
        used = {x.id for x in ast.walk(fn) if isinstance(x, ast.Name) and isinstance(x.ctx, ast.Load)}
        dead = [stmt[k] for k in table if k not in used]
        if dead:
            class Drop(ast.NodeTransformer):
                def visit_Assign(self, n):
                    return ast.copy_location(ast.Pass(), n) if any(n is d for d in dead) else n
            Drop().visit(fn)
        if not changed:
            return


def _split_tuple_locals(fn):
    """a local that only ever holds tuple displays of one arity k, and is only read whole or through constant indices, is replaced by k scalar locals
    (`best = (a, b, c)` / `best[2]` / `x, y, z = best`  ->  `best_0 = a; best_1 = b; best_2 = c` / `best_2` / `x = best_0; ...`)"""
    params = {a.arg for a in fn.args.args} | ({fn.args.vararg.arg} if fn.args.vararg else set()) | ({fn.args.kwarg.arg} if fn.args.kwarg else set())
    arity, bad = {}, set()
    for x in ast.walk(fn):
        if isinstance(x, ast.Assign) and len(x.targets) == 1 and isinstance(x.targets[0], ast.Name):
            n = x.targets[0].id
            if isinstance(x.value, ast.Tuple) and not any(isinstance(e, ast.Starred) for e in x.value.elts) and len(x.value.elts) >= 2:
                if arity.setdefault(n, len(x.value.elts)) != len(x.value.elts):
                    bad.add(n)
            else:
                bad.add(n)
        elif isinstance(x, (ast.For, ast.comprehension, ast.AugAssign, ast.With, ast.NamedExpr, ast.Delete, ast.ExceptHandler)):
            for t in ast.walk(x.target if hasattr(x, "target") else x):
                if isinstance(t, ast.Name) and isinstance(t.ctx, (ast.Store, ast.Del)):
                    bad.add(t.id)
        elif isinstance(x, ast.Assign):
            for t in x.targets:
                for y in ast.walk(t):
                    if isinstance(y, ast.Name) and isinstance(y.ctx, ast.Store):
                        bad.add(y.id)
        if isinstance(x, (ast.Lambda, ast.FunctionDef)) and x is not fn:
            for y in ast.walk(x):
                if isinstance(y, ast.Name):
                    bad.add(y.id)
    cands = {n: k for n, k in arity.items() if n not in bad and n not in params}
    if not cands:
        return
    # reads: constant subscripts must be in range
    for x in ast.walk(fn):
        if isinstance(x, ast.Subscript) and isinstance(x.value, ast.Name) and x.value.id in cands:
            if not (isinstance(x.slice, ast.Constant) and isinstance(x.slice.value, int) and 0 <= x.slice.value < cands[x.value.id]) or not isinstance(x.ctx, ast.Load):
                cands.pop(x.value.id, None)
    # only worth it (and only then a normal form) when the tuple is taken apart somewhere: indexed by a constant or unpacked
    apart = set()
    for x in ast.walk(fn):
        if isinstance(x, ast.Subscript) and isinstance(x.value, ast.Name) and x.value.id in cands:
            apart.add(x.value.id)
        if isinstance(x, ast.Assign) and isinstance(x.value, ast.Name) and x.value.id in cands and len(x.targets) == 1 and isinstance(x.targets[0], (ast.Tuple, ast.List)):
            apart.add(x.value.id)
    cands = {n: k for n, k in cands.items() if n in apart}
    if not cands:
        return

    def comp(n, i, ctx):
        return ast.Name(id="%s_%d" % (n, i), ctx=ctx)

    class T(ast.NodeTransformer):
        def visit_Subscript(self, x):
            if isinstance(x.value, ast.Name) and x.value.id in cands and isinstance(x.slice, ast.Constant):
                return ast.copy_location(comp(x.value.id, x.slice.value, ast.Load()), x)
            self.generic_visit(x)
            return x

        def visit_Name(self, x):
            if isinstance(x.ctx, ast.Load) and x.id in cands:
                return ast.copy_location(ast.Tuple(elts=[comp(x.id, i, ast.Load()) for i in range(cands[x.id])], ctx=ast.Load()), x)
            return x

        def visit_Assign(self, x):
            if len(x.targets) == 1 and isinstance(x.targets[0], ast.Name) and x.targets[0].id in cands:
                x.value = self.visit(x.value)
                x.targets = [ast.copy_location(ast.Tuple(elts=[comp(x.targets[0].id, i, ast.Store()) for i in range(cands[x.targets[0].id])], ctx=ast.Store()), x.targets[0])]
                return x
            self.generic_visit(x)
            return x
    T().visit(fn)
    ast.fix_missing_locations(fn)


def _inline_nested_functions(fn):
    """a nested `def g(params): return <expr>` (a local closure naming an expression) is expanded at its calls inside fn and, when passed as a value,
    replaced by the equivalent lambda; the def goes"""
    nested = {}
    for st in fn.body:
        if isinstance(st, ast.FunctionDef) and not st.decorator_list and not st.args.vararg and not st.args.kwarg and not st.args.kwonlyargs and not st.args.defaults:
            body = [s for s in st.body if not (isinstance(s, ast.Expr) and isinstance(s.value, ast.Constant))]
            if len(body) == 1 and isinstance(body[0], ast.Return) and body[0].value is not None and not any(isinstance(x, (ast.Yield, ast.Await)) for x in ast.walk(body[0].value)):
                nested[st.name] = (st, [a.arg for a in st.args.args], body[0].value)
    if not nested:
        return
    # names rebound elsewhere in fn are not safe
    for x in ast.walk(fn):
        if isinstance(x, ast.Name) and isinstance(x.ctx, (ast.Store, ast.Del)) and x.id in nested:
            nested.pop(x.id, None)
    if not nested:
        return
    funcs = {id(x.func) for x in ast.walk(fn) if isinstance(x, ast.Call) and isinstance(x.func, ast.Name)}

    class T(ast.NodeTransformer):
        def visit_FunctionDef(self, n):
            if n is not fn and n.name in nested and nested[n.name][0] is n:
                return ast.copy_location(ast.Pass(), n)
            self.generic_visit(n)
            return n

        def visit_Call(self, n):
            self.generic_visit(n)
            if isinstance(n.func, ast.Name) and n.func.id in nested and not n.keywords and len(n.args) == len(nested[n.func.id][1]):
                st, params, expr = nested[n.func.id]
                mapping = dict(zip(params, n.args))
                for p, a in mapping.items():
                    uses = sum(1 for y in ast.walk(expr) if isinstance(y, ast.Name) and y.id == p)
                    if uses > 1 and any(isinstance(y, ast.Call) for y in ast.walk(a)):
                        return n
                return _loc(_NameSubst(mapping).visit(copy.deepcopy(expr)), n)
            return n

        def visit_Name(self, n):
            if isinstance(n.ctx, ast.Load) and n.id in nested and id(n) not in funcs:
                st, params, expr = nested[n.id]
                return _loc(ast.Lambda(args=ast.arguments(posonlyargs=[], args=[ast.arg(arg=p) for p in params], kwonlyargs=[], kw_defaults=[], defaults=[]), body=copy.deepcopy(expr)), n)
            return n
    T().visit(fn)
    # if a call could not be expanded the def must stay: put it back
    left = {x.func.id for x in ast.walk(fn) if isinstance(x, ast.Call) and isinstance(x.func, ast.Name) and x.func.id in nested}
    for name in left:
        fn.body.insert(0, nested[name][0])
    ast.fix_missing_locations(fn)


def _container_aliases(fn):
    """`xs = self.all_servers_busy ... xs.append(v) ... sum(xs)`: a local bound once to a container attribute of self (a plain attribute path, which the function
    never re-assigns) and used as the receiver of a mutating call is another name for that attribute: uses are spelled with the path.  (Only such
    mutated containers: plain read-only temporaries are left to the rules' own read-through, which is order-aware.)"""
    cnt, val = {}, {}
    for x in ast.walk(fn):
        if isinstance(x, ast.Name) and isinstance(x.ctx, (ast.Store, ast.Del)):
            cnt[x.id] = cnt.get(x.id, 0) + 1
        if isinstance(x, ast.Assign) and len(x.targets) == 1 and isinstance(x.targets[0], ast.Name):
            val[x.targets[0].id] = x
    params = {a.arg for a in fn.args.args} | ({fn.args.vararg.arg} if fn.args.vararg else set()) | ({fn.args.kwarg.arg} if fn.args.kwarg else set())
    def path(v):
        n = 0
        while isinstance(v, ast.Attribute):
            v, n = v.value, n + 1
        return n >= 1 and isinstance(v, ast.Name) and v.id == "self"
    written = set()
    for x in ast.walk(fn):
        tg = x.targets if isinstance(x, ast.Assign) else [x.target] if isinstance(x, (ast.AugAssign, ast.AnnAssign)) else x.targets if isinstance(x, ast.Delete) else []
        for t in tg:
            for tt in (t.elts if isinstance(t, (ast.Tuple, ast.List)) else [t]):
                if isinstance(tt, ast.Attribute):
                    written.add(ast.unparse(tt))
    mutated = {x.func.value.id for x in ast.walk(fn) if isinstance(x, ast.Call) and isinstance(x.func, ast.Attribute) and x.func.attr in MUTATORS and isinstance(x.func.value, ast.Name)}
    table = {}
    for k, st in val.items():
        if cnt.get(k) == 1 and k not in params and k in mutated and path(st.value):
            ptxt = ast.unparse(st.value)
            if not any(w == ptxt or ptxt.startswith(w + ".") for w in written):
                table[k] = st
    if not table:
        return
    class Sub(ast.NodeTransformer):
        def visit_Name(self, n):
            if isinstance(n.ctx, ast.Load) and n.id in table:
                return ast.copy_location(copy.deepcopy(table[n.id].value), n)
            return n
        def visit_Assign(self, n):
            if any(n is st for st in table.values()):
                return ast.copy_location(ast.Pass(), n)
            self.generic_visit(n)
            return n
    Sub().visit(fn)


def _continue_guards(fn):
    """inside a loop body, `if T: continue` followed by REST (at the top level of that body) is `if not T: REST`"""
    changed = True
    while changed:
        changed = False
        for lp in [x for x in ast.walk(fn) if isinstance(x, (ast.For, ast.While))]:
            body = lp.body
            for i, st in enumerate(body):
                if isinstance(st, ast.If) and not st.orelse and len(st.body) == 1 and isinstance(st.body[0], ast.Continue) and i + 1 < len(body):
                    rest = body[i + 1:]
                    new = ast.If(test=ast.UnaryOp(op=ast.Not(), operand=st.test), body=rest, orelse=[])
                    ast.copy_location(new, st)
                    lp.body = body[:i] + [new]
                    changed = True
                    break
            if changed:
                break


def _unroll_setattr_loops(fn):
    """`for a in ('x', 'y'): setattr(obj, a, v)` (the names given literally, or through a local bound once to such a literal; v free of calls)
    reads as `obj.x = v; obj.y = v`"""
    def names(e):
        if isinstance(e, (ast.Tuple, ast.List)) and e.elts and len(e.elts) <= 32 and all(
                isinstance(x, ast.Constant) and isinstance(x.value, str) and x.value.isidentifier() for x in e.elts):
            return [x.value for x in e.elts]
        return None
    stores = {}
    for x in ast.walk(fn):
        if isinstance(x, ast.Name) and isinstance(x.ctx, (ast.Store, ast.Del)):
            stores[x.id] = stores.get(x.id, 0) + 1
    lits = {}
    for x in ast.walk(fn):
        if isinstance(x, ast.Assign) and len(x.targets) == 1 and isinstance(x.targets[0], ast.Name) and stores.get(x.targets[0].id) == 1 and names(x.value):
            lits[x.targets[0].id] = names(x.value)

    def one(st):
        if not (isinstance(st, ast.For) and isinstance(st.target, ast.Name) and not st.orelse and st.body):
            return None
        ns = names(st.iter) or (lits.get(st.iter.id) if isinstance(st.iter, ast.Name) else None)
        if not ns:
            return None
        var = st.target.id
        for b in st.body:
            if not (isinstance(b, ast.Expr) and isinstance(b.value, ast.Call) and isinstance(b.value.func, ast.Name) and b.value.func.id == "setattr"
                    and len(b.value.args) == 3 and not b.value.keywords and isinstance(b.value.args[1], ast.Name) and b.value.args[1].id == var):
                return None
            obj, _, val = b.value.args
            if any(isinstance(y, ast.Call) or (isinstance(y, ast.Name) and y.id == var) for y in list(ast.walk(obj)) + list(ast.walk(val))):
                return None
        out = []
        for nm in ns:
            for b in st.body:
                obj, _, val = b.value.args
                a = ast.Assign(targets=[ast.Attribute(value=copy.deepcopy(obj), attr=nm, ctx=ast.Store())], value=copy.deepcopy(val))
                _loc(a, b)
                out.append(a)
        return out

    def rewrite(body):
        new = []
        for st in body:
            r = one(st)
            if r is not None:
                new.extend(r)
                continue
            for f in ("body", "orelse", "finalbody"):
                v = getattr(st, f, None)
                if isinstance(v, list) and v and isinstance(v[0], ast.stmt) and not isinstance(st, (ast.FunctionDef, ast.ClassDef)):
                    setattr(st, f, rewrite(v))
            if isinstance(st, ast.Try):
                for h in st.handlers:
                    h.body = rewrite(h.body)
            new.append(st)
        return new
    fn.body = rewrite(fn.body)


def desugar_function(fn):
    """rewrite fn.body in place; returns True if something changed"""
    before = ast.dump(fn)
    _inline_nested_functions(fn)
    _unroll_setattr_loops(fn)
    _bound_method_locals(fn)
    _split_tuple_locals(fn)
    _compose_comprehensions(fn)
    lits = _dict_literals(fn)
    d = _Desugar(lits)
    fn.body = d._stmts(fn.body)
    _container_aliases(fn)
    _continue_guards(fn)
    ast.fix_missing_locations(fn)
    return ast.dump(fn) != before


# =====================================================================================================================
# program-level normal forms
# =====================================================================================================================
MUTATORS = {"append", "update", "pop", "insert", "remove", "clear", "extend", "setdefault", "sort", "reverse", "add", "discard", "popitem"}


def _is_literal(node):
    try:
        ast.literal_eval(node)
        return True
    except Exception:
        pass
    # displays of literals that also contain the spelling of infinity, float('inf'): (None, float('inf'))
    def lit(n):
        if isinstance(n, ast.Call) and isinstance(n.func, ast.Name) and n.func.id == "float" and len(n.args) == 1 and not n.keywords \
                and isinstance(n.args[0], ast.Constant) and str(n.args[0].value).lower().lstrip("+-") in ("inf", "infinity"):
            return True
        if isinstance(n, (ast.Tuple, ast.List)):
            return all(lit(e) for e in n.elts)
        if isinstance(n, ast.Constant):
            return True
        if isinstance(n, ast.UnaryOp) and isinstance(n.op, (ast.USub, ast.UAdd)):
            return lit(n.operand)
        return False
    return isinstance(node, (ast.Tuple, ast.List, ast.Call)) and lit(node)


def _overridden_below(P, cname, mname):
    """some proper subclass of cname defines mname: `self.mname` inside cname's methods may then run the override, so it must not be read through"""
    for c in P.classes:
        if c != cname and cname in P.mro(c) and mname in P.classes[c].methods:
            return True
    return False


def _class_constants(P):
    """class name -> {NAME: literal node} for class-level `NAME = <literal>` never written or mutated anywhere in the package"""
    cand = {}
    for ci in P.classes.values():
        for st in ci.node.body:
            if isinstance(st, ast.Assign) and len(st.targets) == 1 and isinstance(st.targets[0], ast.Name) and _is_literal(st.value) \
                    and isinstance(st.value, (ast.Dict, ast.List, ast.Tuple, ast.Set, ast.Constant, ast.Call)):
                cand.setdefault(ci.name, {})[st.targets[0].id] = st.value
    names = {n for d in cand.values() for n in d}
    if not names:
        return {}
    dirty = set()
    for m in P.modules.values():
        for n in ast.walk(m.tree):
            if isinstance(n, ast.Attribute) and n.attr in names:
                if isinstance(n.ctx, (ast.Store, ast.Del)):
                    dirty.add(n.attr)
            if isinstance(n, ast.Subscript) and isinstance(n.ctx, (ast.Store, ast.Del)) and isinstance(n.value, ast.Attribute) and n.value.attr in names:
                dirty.add(n.value.attr)
            if isinstance(n, ast.Call) and isinstance(n.func, ast.Attribute) and n.func.attr in MUTATORS and isinstance(n.func.value, ast.Attribute) and n.func.value.attr in names:
                dirty.add(n.func.value.attr)
            if isinstance(n, ast.AugAssign) and isinstance(n.target, ast.Attribute) and n.target.attr in names:
                dirty.add(n.target.attr)
    return {c: {k: v for k, v in d.items() if k not in dirty} for c, d in cand.items()}


class _SelfConst(ast.NodeTransformer):
    def __init__(self, table):
        self.table = table
        self.changed = False

    def visit_Attribute(self, n):
        self.generic_visit(n)
        if isinstance(n.ctx, ast.Load) and isinstance(n.value, ast.Name) and n.value.id in ("self", "cls") and n.attr in self.table:
            self.changed = True
            return _loc(copy.deepcopy(self.table[n.attr]), n)
        return n

    def visit_Call(self, n):
        self.generic_visit(n)
        # getattr(self, "name") -> self.name
        if isinstance(n.func, ast.Name) and n.func.id == "getattr" and len(n.args) == 2 and not n.keywords and isinstance(n.args[1], ast.Constant) \
                and isinstance(n.args[1].value, str) and n.args[1].value.isidentifier():
            self.changed = True
            return ast.copy_location(ast.Attribute(value=n.args[0], attr=n.args[1].value, ctx=ast.Load()), n)
        return n


class _NameSubst(ast.NodeTransformer):
    def __init__(self, mapping):
        self.mapping = mapping

    def visit_Name(self, n):
        if isinstance(n.ctx, ast.Load) and n.id in self.mapping:
            return _loc(copy.deepcopy(self.mapping[n.id]), n)
        return n

    def visit_Lambda(self, n):
        return n


def _stores(nodes):
    out = set()
    for b in nodes:
        for x in ast.walk(b):
            if isinstance(x, ast.Name) and isinstance(x.ctx, (ast.Store, ast.Del)):
                out.add(x.id)
    return out


def _bind(target, elt, rest):
    """statements equivalent to `target = elt; rest`: by substitution when the bound names are not re-assigned in rest and the value is a pure access path"""
    pairs = None
    if isinstance(target, ast.Name):
        pairs = [(target, elt)]
    elif isinstance(target, (ast.Tuple, ast.List)) and isinstance(elt, (ast.Tuple, ast.List)) and len(target.elts) == len(elt.elts) and all(isinstance(t, ast.Name) for t in target.elts):
        pairs = list(zip(target.elts, elt.elts))
    pure = pairs is not None and all(not any(isinstance(x, (ast.Call, ast.Lambda, ast.Yield, ast.Await, ast.NamedExpr)) for x in ast.walk(v)) for _, v in pairs)
    if pure and not ({t.id for t, _ in pairs} & _stores(rest)):
        mapping = {t.id: v for t, v in pairs if not (isinstance(v, ast.Name) and v.id == t.id)}
        return [_NameSubst(mapping).visit(s) for s in rest] if mapping else rest
    return [ast.Assign(targets=[copy.deepcopy(target)], value=copy.deepcopy(elt), lineno=getattr(elt, "lineno", 1), col_offset=0)] + rest


def _gen_loops(gen, env, inner, depth=0):
    """statements that run `inner(elt)` once per element of the generator expression `gen`, in order (env: local name -> generator expression)"""
    def level(i):
        if i == len(gen.generators):
            return inner(gen.elt)
        g = gen.generators[i]
        def body_after_binding():
            rest = level(i + 1)
            for c in reversed(g.ifs):
                rest = [ast.If(test=copy.deepcopy(c), body=rest, orelse=[])]
            return rest
        src = g.iter
        if isinstance(src, ast.Name) and src.id in env and depth < 4:
            return _gen_loops(env[src.id], env, lambda elt2: _bind(g.target, elt2, body_after_binding()), depth + 1)
        if isinstance(src, ast.GeneratorExp) and depth < 4:
            return _gen_loops(src, env, lambda elt2: _bind(g.target, elt2, body_after_binding()), depth + 1)
        return [ast.For(target=copy.deepcopy(g.target), iter=copy.deepcopy(src), body=body_after_binding(), orelse=[], type_comment=None)]
    return level(0)


def _specialise_helpers(P, anchors):
    """a private helper (not part of the pinned API) that is fed a generator expression is expanded at its call sites: the helper's loop over the parameter
    becomes the loop(s) of the generator expression with the helper's body inside, parameters replaced by the arguments.  When every call site of the
    helper could be expanded the helper itself is dropped from the model."""
    for ci in list(P.classes.values()):
        mro = P.mro(ci.name)
        for fn in list(ci.methods.values()):
            _specialise_in(P, ci, mro, fn, anchors)
    # drop helpers that are no longer called
    called = set()
    for m in P.modules.values():
        for n in ast.walk(m.tree):
            if isinstance(n, ast.Attribute):
                called.add(n.attr)
    for ci in P.classes.values():
        for name in [k for k, f in ci.methods.items() if getattr(f, "_specialised", False) and k not in called]:
            ci.node.body.remove(ci.methods[name])
            del ci.methods[name]


def _specialise_in(P, ci, mro, fn, anchors):
    def local_gens(body_owner):
        cnt, gens = {}, {}
        for x in ast.walk(body_owner):
            if isinstance(x, ast.Name) and isinstance(x.ctx, ast.Store):
                cnt[x.id] = cnt.get(x.id, 0) + 1
            if isinstance(x, ast.Assign) and len(x.targets) == 1 and isinstance(x.targets[0], ast.Name) and isinstance(x.value, ast.GeneratorExp):
                gens[x.targets[0].id] = x
        return {k: v for k, v in gens.items() if cnt.get(k) == 1}

    def rewrite(body):
        out = []
        for st in body:
            for f in ("body", "orelse", "finalbody"):
                v = getattr(st, f, None)
                if isinstance(v, list) and v and isinstance(v[0], ast.stmt):
                    setattr(st, f, rewrite(v))
            new = expand(st)
            out += new if new is not None else [st]
        return out

    def expand(st):
        if isinstance(st, (ast.Expr, ast.Assign)):
            # a value-returning helper fed with a generator, used as the assigned value or as an argument of a call statement whose other arguments are
            # plain names/constants: its body is expanded in front and the call replaced by the name it returns
            outer = st.value
            cands = [outer] if isinstance(outer, ast.Call) and not (isinstance(st, ast.Expr) and _returns_nothing(outer)) else []
            if isinstance(outer, ast.Call):
                cands += [a for a in list(outer.args) + [k.value for k in outer.keywords] if isinstance(a, ast.Call)]
                if not all(isinstance(a, (ast.Constant, ast.Name, ast.Attribute, ast.Call)) for a in list(outer.args) + [k.value for k in outer.keywords]):
                    cands = [c for c in cands if c is outer]
            for c_ in cands:
                r = specialise(c_, st, want_value=True)
                if r is not None:
                    stmts, res = r
                    class Put(ast.NodeTransformer):
                        def visit_Call(self, n):
                            if n is c_:
                                return ast.copy_location(ast.Name(id=res, ctx=ast.Load()), n)
                            self.generic_visit(n)
                            return n
                    Put().visit(st)
                    return stmts + [st]
        if not (isinstance(st, ast.Expr) and isinstance(st.value, ast.Call)):
            return None
        r = specialise(st.value, st, want_value=False)
        return r[0] if r is not None else None

    def _returns_nothing(call):
        f = call.func
        if not (isinstance(f, ast.Attribute) and isinstance(f.value, ast.Name) and f.value.id == "self"):
            return False
        for c in mro:
            if c in P.classes and f.attr in P.classes[c].methods:
                return not any(isinstance(x, ast.Return) and x.value is not None for x in ast.walk(P.classes[c].methods[f.attr]))
        return False

    def specialise(call, st, want_value):
        f = call.func
        if not (isinstance(f, ast.Attribute) and isinstance(f.value, ast.Name) and f.value.id == "self" and f.attr not in anchors):
            return None
        h = None
        if _overridden_below(P, ci.name, f.attr):
            return None
        for c in mro:
            if c in P.classes and f.attr in P.classes[c].methods:
                h = P.classes[c].methods[f.attr]
                break
        static = [d for d in (h.decorator_list if h is not None else []) if isinstance(d, ast.Name) and d.id == "staticmethod"]
        if h is None or h is fn or len(h.decorator_list) != len(static) or h.args.vararg or h.args.kwarg or h.args.kwonlyargs:
            return None
        hbody = [s for s in h.body if not (isinstance(s, ast.Expr) and isinstance(s.value, ast.Constant))]
        result = None
        if want_value:
            # exactly one return, the last statement, of a local name
            if not (hbody and isinstance(hbody[-1], ast.Return) and isinstance(hbody[-1].value, ast.Name)):
                return None
            result = hbody[-1].value.id
            hbody = hbody[:-1]
        if any(isinstance(x, (ast.Return, ast.Yield, ast.YieldFrom, ast.Global, ast.Nonlocal)) for s in hbody for x in ast.walk(s)):
            return None
        params = [a.arg for a in h.args.args][(0 if static else 1):]
        bound = {}
        for pn, a in zip(params, call.args):
            bound[pn] = a
        for k in call.keywords:
            if k.arg is None or k.arg not in params:
                return None
            bound[k.arg] = k.value
        for pn, d in zip(params[len(params) - len(h.args.defaults):], h.args.defaults):
            bound.setdefault(pn, d)
        if set(bound) != set(params) or len(call.args) > len(params):
            return None
        gens_here = local_gens(fn)
        genargs = {}
        displays = 0
        for pn, a in bound.items():
            if isinstance(a, ast.GeneratorExp):
                genargs[pn] = a
            elif isinstance(a, ast.Name) and a.id in gens_here:
                genargs[pn] = gens_here[a.id].value
            elif isinstance(a, (ast.List, ast.Tuple, ast.Dict, ast.Set)) and _is_literal(a):
                displays += 1           # a table passed as a literal: the helper is specialised to it
            elif not isinstance(a, (ast.Constant, ast.Name, ast.Attribute)):
                return None
        if not genargs and not displays:
            return None
        if want_value and not genargs:
            return None
        if displays:
            # literal tables are substituted textually: each such parameter must be read once
            for pn, a in bound.items():
                if isinstance(a, (ast.List, ast.Tuple, ast.Dict, ast.Set)) and sum(1 for s_ in hbody for x in ast.walk(s_) if isinstance(x, ast.Name) and x.id == pn) != 1:
                    return None
        env = {k: v.value for k, v in gens_here.items()}
        body = copy.deepcopy(hbody)
        # each generator parameter must be consumed by exactly one `for T in P:` and used nowhere else
        for pn, g in genargs.items():
            uses = [x for s in body for x in ast.walk(s) if isinstance(x, ast.Name) and x.id == pn]
            loops = [x for s in body for x in ast.walk(s) if isinstance(x, ast.For) and isinstance(x.iter, ast.Name) and x.iter.id == pn and not x.orelse]
            if len(uses) != 1 or len(loops) != 1:
                return None
        # helper locals must not clash with the caller's names
        hl = _stores(body) - set(params)
        caller_names = {x.id for x in ast.walk(fn) if isinstance(x, ast.Name)} | {a.arg for a in fn.args.args}
        gen_names = {x.id for g in genargs.values() for x in ast.walk(g) if isinstance(x, ast.Name)}
        ren = {n: ast.Name(id=n + "__" + h.name.strip("_"), ctx=ast.Load()) for n in hl if n in (caller_names - gen_names) and n not in _targets_of_param_loops(body, genargs)}
        if result is not None and result in ren:
            result = ren[result].id
        if ren:
            class R(ast.NodeTransformer):
                def visit_Name(self, n):
                    if n.id in ren:
                        return ast.copy_location(ast.Name(id=ren[n.id].id, ctx=n.ctx), n)
                    return n
            body = [R().visit(s) for s in body]

        class ExpandLoops(ast.NodeTransformer):
            def visit_For(self, n):
                self.generic_visit(n)
                if isinstance(n.iter, ast.Name) and n.iter.id in genargs:
                    g = genargs[n.iter.id]
                    stmts = _gen_loops(copy.deepcopy(g), env, lambda elt: _bind(n.target, copy.deepcopy(elt), n.body))
                    return stmts
                return n
        new = []
        for s in body:
            r = ExpandLoops().visit(s)
            new += r if isinstance(r, list) else [r]
        mapping = {pn: a for pn, a in bound.items() if pn not in genargs}
        new = [_NameSubst(mapping).visit(s) for s in new]
        for s in new:
            _loc(s, st)
            ast.fix_missing_locations(s)
        h._specialised = True
        return new, result

    fn.body = rewrite(fn.body)
    # local generator expressions that are no longer referenced
    gens_here = local_gens(fn)
    if gens_here:
        used = {x.id for x in ast.walk(fn) if isinstance(x, ast.Name) and isinstance(x.ctx, ast.Load)}
        dead = [v for k, v in gens_here.items() if k not in used]
        if dead:
            class Drop(ast.NodeTransformer):
                def visit_Assign(self, n):
                    return ast.copy_location(ast.Pass(), n) if any(n is d for d in dead) else n
            # repeat: a chain a -> b -> helper leaves `a` dead only after `b` is gone
            for _ in range(4):
                Drop().visit(fn)
                gens_here = local_gens(fn)
                used = {x.id for x in ast.walk(fn) if isinstance(x, ast.Name) and isinstance(x.ctx, ast.Load)}
                dead = [v for k, v in gens_here.items() if k not in used]
                if not dead:
                    break
    ast.fix_missing_locations(fn)


def _targets_of_param_loops(body, genargs):
    out = set()
    for s in body:
        for x in ast.walk(s):
            if isinstance(x, ast.For) and isinstance(x.iter, ast.Name) and x.iter.id in genargs:
                out |= {t.id for t in ast.walk(x.target) if isinstance(t, ast.Name)}
    return out


def _inline_expression_functions(P, anchors):
    """a module-level function that is not part of the pinned API and whose body is a single `return <expression of its parameters>` is an expression
    macro: calls to it -- by bare name in its own module or after `from mod import f`, or as `mod.f(...)` -- are replaced by that expression; passed as a
    value it becomes the equivalent lambda"""
    macros_by_mod = {}
    for m in P.modules.values():
        macros = {}
        for st in m.tree.body:
            if isinstance(st, ast.FunctionDef) and st.name not in anchors and not st.decorator_list and not st.args.vararg and not st.args.kwarg and not st.args.kwonlyargs:
                body = [s for s in st.body if not (isinstance(s, ast.Expr) and isinstance(s.value, ast.Constant))]
                if len(body) == 1 and isinstance(body[0], ast.Return) and body[0].value is not None:
                    if not any(isinstance(x, (ast.Lambda, ast.Yield, ast.Await)) for x in ast.walk(body[0].value)):
                        macros[st.name] = ([a.arg for a in st.args.args], st.args.defaults, body[0].value)
        macros_by_mod[m.name] = macros
    if not any(macros_by_mod.values()):
        return
    for m in P.modules.values():
        table = dict(macros_by_mod.get(m.name, {}))
        mods = {}
        for st in m.tree.body:
            if isinstance(st, ast.ImportFrom):
                src = st.module or ""
                if st.level:
                    base = m.name.split(".")
                    if not m.path.endswith("__init__.py"):
                        base = base[:-1]
                    base = base[: len(base) - (st.level - 1)]
                    src = ".".join(base + ([st.module] if st.module else []))
                for a in st.names:
                    if a.name == "*":
                        for k, v in macros_by_mod.get(src, {}).items():
                            table.setdefault(k, v)
                    elif a.name in macros_by_mod.get(src, {}):
                        table[a.asname or a.name] = macros_by_mod[src][a.name]
                    elif macros_by_mod.get(src + "." + a.name):
                        mods[a.asname or a.name] = src + "." + a.name
            elif isinstance(st, ast.Import):
                for a in st.names:
                    if macros_by_mod.get(a.name) and (a.asname or "." not in a.name):
                        mods[a.asname or a.name] = a.name
        if not table and not mods:
            continue
        funcs = {id(x.func) for x in ast.walk(m.tree) if isinstance(x, ast.Call)}

        def macro_for(f):
            if isinstance(f, ast.Name) and f.id in table:
                return table[f.id]
            if isinstance(f, ast.Attribute) and isinstance(f.value, ast.Name) and f.value.id in mods and f.attr in macros_by_mod.get(mods[f.value.id], {}):
                return macros_by_mod[mods[f.value.id]][f.attr]
            return None

        class T(ast.NodeTransformer):
            def visit_Call(self, n):
                self.generic_visit(n)
                mac = macro_for(n.func)
                if mac is not None and not any(isinstance(a, ast.Starred) for a in n.args):
                    params, defaults, expr = mac
                    bound = dict(zip(params, n.args))
                    ok = len(n.args) <= len(params)
                    for k in n.keywords:
                        if k.arg in params and k.arg not in bound:
                            bound[k.arg] = k.value
                        else:
                            ok = False
                    for pn, d in zip(params[len(params) - len(defaults):], defaults):
                        bound.setdefault(pn, d)
                    if ok and set(bound) == set(params):
                        for p, a in bound.items():
                            uses = sum(1 for y in ast.walk(expr) if isinstance(y, ast.Name) and y.id == p)
                            if uses > 1 and any(isinstance(y, ast.Call) for y in ast.walk(a)):
                                return n
                        return _loc(_NameSubst(bound).visit(copy.deepcopy(expr)), n)
                return n

            def visit_Name(self, n):
                # the function passed as a value (key=_by_priority): the equivalent lambda
                if isinstance(n.ctx, ast.Load) and n.id in table and id(n) not in funcs:
                    params, defaults, expr = table[n.id]
                    if not defaults:
                        lam = ast.Lambda(args=ast.arguments(posonlyargs=[], args=[ast.arg(arg=p) for p in params], kwonlyargs=[], kw_defaults=[], defaults=[]), body=copy.deepcopy(expr))
                        return _loc(lam, n)
                return n
        own = macros_by_mod.get(m.name, {})
        for st in m.tree.body:
            if isinstance(st, ast.FunctionDef) and st.name in own:
                continue
            if isinstance(st, (ast.Import, ast.ImportFrom)):
                continue
            T().visit(st)
        ast.fix_missing_locations(m.tree)


def _module_constants(P):
    """module-level `NAME = <literal>` (never re-bound in that module) and class-level constants referenced through the class name: uses by bare name in the
    defining module, by `from mod import NAME` elsewhere, and as `mod.NAME`, are replaced by the literal"""
    consts = {}          # module name -> {NAME: node}
    for m in P.modules.values():
        cnt, val = {}, {}
        for st in m.tree.body:
            for t in (st.targets if isinstance(st, ast.Assign) else [st.target] if isinstance(st, (ast.AugAssign, ast.AnnAssign)) else []):
                for x in ast.walk(t):
                    if isinstance(x, ast.Name):
                        cnt[x.id] = cnt.get(x.id, 0) + 1
            if isinstance(st, ast.Assign) and len(st.targets) == 1 and isinstance(st.targets[0], ast.Name) and isinstance(st.value, (ast.Constant, ast.Tuple, ast.List, ast.Dict, ast.Set)) \
                    and st.targets[0].id.isupper():
                v_ = st.value
                if not _is_literal(v_):
                    # a table built from constants defined above it
                    v_ = _NameSubst({k: x for k, x in val.items() if cnt.get(k) == 1}).visit(copy.deepcopy(v_))
                if _is_literal(v_):
                    val[st.targets[0].id] = v_
        for x in ast.walk(m.tree):
            if isinstance(x, ast.Global):
                for n in x.names:
                    cnt[n] = cnt.get(n, 0) + 5
        consts[m.name] = {k: v for k, v in val.items() if cnt.get(k) == 1}
    P.module_constants = consts
    for m in P.modules.values():
        table = dict(consts.get(m.name, {}))
        mods = {}
        for st in m.tree.body:
            if isinstance(st, ast.ImportFrom):
                src = st.module or ""
                if st.level:
                    base = m.name.split(".")
                    if not m.path.endswith("__init__.py"):
                        base = base[:-1]
                    base = base[: len(base) - (st.level - 1)]
                    src = ".".join(base + ([st.module] if st.module else []))
                for a in st.names:
                    if a.name == "*":
                        for k, v in consts.get(src, {}).items():
                            table.setdefault(k, v)
                    elif a.name in consts.get(src, {}):
                        table[a.asname or a.name] = consts[src][a.name]
                    elif (src + "." + a.name) in consts:
                        mods[a.asname or a.name] = src + "." + a.name
            elif isinstance(st, ast.Import):
                for a in st.names:
                    if a.name in consts and (a.asname or "." not in a.name):
                        mods[a.asname or a.name] = a.name
        if not table and not mods:
            continue
        local_stores = {}

        class T(ast.NodeTransformer):
            def visit_FunctionDef(self, fn):
                shadow = {a.arg for a in fn.args.args} | {x.id for x in ast.walk(fn) if isinstance(x, ast.Name) and isinstance(x.ctx, ast.Store)}
                old = local_stores.get("s", set())
                local_stores["s"] = old | shadow
                self.generic_visit(fn)
                local_stores["s"] = old
                return fn

            def visit_Name(self, n):
                if isinstance(n.ctx, ast.Load) and n.id in table and n.id not in local_stores.get("s", set()):
                    return _loc(copy.deepcopy(table[n.id]), n)
                return n

            def visit_Attribute(self, n):
                if isinstance(n.ctx, ast.Load) and isinstance(n.value, ast.Name) and n.value.id in mods and n.attr in consts.get(mods[n.value.id], {}):
                    return _loc(copy.deepcopy(consts[mods[n.value.id]][n.attr]), n)
                self.generic_visit(n)
                return n
        for st in m.tree.body:
            if isinstance(st, (ast.FunctionDef, ast.ClassDef)):
                T().visit(st)
        ast.fix_missing_locations(m.tree)


def _return_expression(body):
    """the expression a body of returns computes: `return e`, or `if c: return a` followed by (or with an else of) such a body -> `a if c else <rest>`"""
    if len(body) == 1 and isinstance(body[0], ast.Return) and body[0].value is not None:
        return body[0].value
    if (len(body) > 1 and isinstance(body[0], ast.Assign) and len(body[0].targets) == 1 and isinstance(body[0].targets[0], ast.Name)
            and not any(isinstance(x, (ast.Call, ast.Lambda, ast.NamedExpr, ast.Yield, ast.Await, ast.ListComp, ast.GeneratorExp, ast.SetComp, ast.DictComp)) for x in ast.walk(body[0].value))):
        # an explaining variable (call-free, bound once, before the returns) reads as its expression
        nm = body[0].targets[0].id
        if not any(isinstance(x, ast.Name) and x.id == nm and isinstance(x.ctx, (ast.Store, ast.Del)) for st in body[1:] for x in ast.walk(st)) \
                and not any(isinstance(x, ast.Name) and x.id == nm for x in ast.walk(body[0].value)):
            e = _return_expression(body[1:])
            if e is not None:
                val = body[0].value

                class _S(ast.NodeTransformer):
                    def visit_Name(self, n):
                        return copy.deepcopy(val) if n.id == nm and isinstance(n.ctx, ast.Load) else n
                return ast.fix_missing_locations(_S().visit(copy.deepcopy(e)))
        return None
    if body and isinstance(body[0], ast.If) and not any(isinstance(x, ast.NamedExpr) for x in ast.walk(body[0].test)):
        a = _return_expression(body[0].body)
        rest = body[0].orelse if body[0].orelse and len(body) == 1 else body[1:] if not body[0].orelse else None
        b = _return_expression(rest) if rest else None
        if a is not None and b is not None:
            return ast.IfExp(test=body[0].test, body=a, orelse=b)
    return None


def _trivial_members(P, anchors):
    """a private property, or method, whose body is a single `return <expression over self and its parameters>` names an expression: `X.member` /
    `X.member(args)` is replaced by that expression with self := X.  For receivers other than self the member name must be defined by exactly one class
    and never assigned."""
    members = {}        # name -> [(ClassInfo, fn, expr, is_property, params)]
    static_members = set()
    for ci in P.classes.values():
        for name, fn in ci.methods.items():
            if name in anchors or name.startswith("__"):
                continue
            params = [a.arg for a in fn.args.args]
            decos = [d.id for d in fn.decorator_list if isinstance(d, ast.Name)]
            static = decos == ["staticmethod"] and len(fn.decorator_list) == 1 and "self" not in params
            if static:
                params = ["self"] + params          # no receiver: the expression below must not mention self
            if len(decos) != len(fn.decorator_list) or any(d != "property" for d in decos if not static) or params[:1] != ["self"] or fn.args.vararg or fn.args.kwarg \
                    or fn.args.kwonlyargs or fn.args.defaults or ("property" in decos and params != ["self"]):
                continue
            body = [s for s in fn.body if not (isinstance(s, ast.Expr) and isinstance(s.value, ast.Constant))]
            e = _return_expression(body)
            if e is None:
                continue
            if any(isinstance(x, (ast.Lambda, ast.Yield, ast.Await, ast.NamedExpr)) for x in ast.walk(e)):
                continue
            if any(isinstance(x, ast.Attribute) and x.attr == name for x in ast.walk(e)):
                continue
            if static and any(isinstance(x, ast.Name) and x.id == "self" for x in ast.walk(e)):
                continue
            members.setdefault(name, []).append((ci, fn, e, "property" in decos, params[1:]))
            if static:
                static_members.add((ci.name, name))
    if not members:
        return
    assigned = set()
    for m in P.modules.values():
        for x in ast.walk(m.tree):
            if isinstance(x, ast.Attribute) and isinstance(x.ctx, (ast.Store, ast.Del)):
                assigned.add(x.attr)
    unique = {n: v[0] for n, v in members.items() if len(v) == 1 and n not in assigned and sum(1 for c in P.classes.values() if n in c.methods) == 1}

    def expand(ci_use):
        class T(ast.NodeTransformer):
            def _expr_for(self, recv, name, call, args=()):
                cand = None
                if isinstance(recv, ast.Name) and recv.id == "self" and ci_use is not None and not _overridden_below(P, ci_use.name, name):
                    for c in P.mro(ci_use.name):
                        for (ci, fn, e, isprop, ps) in members.get(name, []):
                            if ci.name == c:
                                cand = (ci, fn, e, isprop, ps)
                                break
                        if cand or (c in P.classes and name in P.classes[c].methods):
                            break
                elif name in unique and not any(isinstance(x, ast.Call) for x in ast.walk(recv)):
                    cand = unique[name]
                if cand is None or cand[3] == call or len(cand[4]) != len(args):
                    return None
                mapping = {"self": recv}
                for p_, a_ in zip(cand[4], args):
                    uses = sum(1 for y in ast.walk(cand[2]) if isinstance(y, ast.Name) and y.id == p_)
                    if uses > 1 and any(isinstance(y, ast.Call) for y in ast.walk(a_)):
                        return None
                    mapping[p_] = a_
                return _NameSubst(mapping).visit(copy.deepcopy(cand[2]))

            def visit_Call(self, n):
                if isinstance(n.func, ast.Attribute):
                    n.func._is_callee = True
                self.generic_visit(n)
                if isinstance(n.func, ast.Attribute) and not n.keywords and n.func.attr in members and not any(isinstance(a, ast.Starred) for a in n.args):
                    e = self._expr_for(n.func.value, n.func.attr, True, n.args)
                    if e is not None:
                        return _loc(e, n)
                return n

            def visit_Attribute(self, n):
                self.generic_visit(n)
                if isinstance(n.ctx, ast.Load) and n.attr in members:
                    e = self._expr_for(n.value, n.attr, False)
                    if e is not None:
                        return _loc(e, n)
                    # a static expression member used as a value (`key=self.by_priority`): the function it names
                    if not getattr(n, "_is_callee", False) and isinstance(n.value, ast.Name) and n.value.id == "self" and ci_use is not None \
                            and not _overridden_below(P, ci_use.name, n.attr):
                        for c in P.mro(ci_use.name):
                            hit = [(ci, fn, e2, isprop, ps) for (ci, fn, e2, isprop, ps) in members.get(n.attr, []) if ci.name == c]
                            if hit and (c, n.attr) in static_members:
                                ci, fn, e2, isprop, ps = hit[0]
                                lam = ast.Lambda(args=ast.arguments(posonlyargs=[], args=[ast.arg(arg=p_) for p_ in ps], vararg=None, kwonlyargs=[], kw_defaults=[],
                                                                    kwarg=None, defaults=[]), body=copy.deepcopy(e2))
                                return _loc(lam, n)
                            if hit or (c in P.classes and n.attr in P.classes[c].methods):
                                break
                return n
        return T()
    for _ in range(3):          # members defined in terms of other members
        for ci in P.classes.values():
            t = expand(ci)
            for fn in ci.methods.values():
                t.visit(fn)
                ast.fix_missing_locations(fn)
        for f in P.functions.values():
            expand(None).visit(f)
            ast.fix_missing_locations(f)


def _inline_foreign_helpers(P, anchors):
    """`X.helper(args)` as a statement, where `helper` is a private method defined by exactly one class (a small mutator such as Server.start_serving), with a
    straight-line body and no return value: replaced by the body with self := X and parameters := arguments, so that the attribute writes are seen where
    they happen"""
    defs = {}
    for ci in P.classes.values():
        for name, fn in ci.methods.items():
            defs.setdefault(name, []).append((ci, fn))
    cands = {}
    for name, lst in defs.items():
        if len(lst) != 1 or name in anchors or name.startswith("__"):
            continue
        ci, fn = lst[0]
        if fn.decorator_list or fn.args.vararg or fn.args.kwarg or fn.args.kwonlyargs:
            continue
        body = [s for s in fn.body if not (isinstance(s, ast.Expr) and isinstance(s.value, ast.Constant))]
        if not body or any(isinstance(x, (ast.Return, ast.Yield, ast.YieldFrom, ast.For, ast.While, ast.Try, ast.With, ast.Lambda, ast.FunctionDef)) for s in body for x in ast.walk(s)):
            continue
        if _stores(body):
            continue            # helper locals would need renaming: keep it simple
        cands[name] = (ci, fn, body)
    # ... and small foreign mutators that answer True/False, used as the test of an `if`: `if X.m(a): B else: E` becomes the helper's statements with B or E
    # put where it returns True or False
    def outcome_tree(body):
        pre = []
        for i, st in enumerate(body):
            if isinstance(st, ast.Return):
                if isinstance(st.value, ast.Constant) and isinstance(st.value.value, bool):
                    return ("seq", pre, ("ret", st.value.value))
                return None
            if isinstance(st, ast.If):
                a_ = outcome_tree(st.body + body[i + 1:])
                b_ = outcome_tree(st.orelse + body[i + 1:])
                if a_ is None or b_ is None:
                    return None
                return ("seq", pre, ("if", st.test, a_, b_))
            if not isinstance(st, (ast.Assign, ast.AugAssign, ast.Expr, ast.Pass)):
                return None
            pre.append(st)
        return None
    bool_cands = {}
    for name, lst in defs.items():
        if len(lst) != 1 or name in anchors or name.startswith("__") or name in cands:
            continue
        ci, fn = lst[0]
        if fn.decorator_list or fn.args.vararg or fn.args.kwarg or fn.args.kwonlyargs or fn.args.defaults:
            continue
        body = [s_ for s_ in fn.body if not (isinstance(s_, ast.Expr) and isinstance(s_.value, ast.Constant))]
        if any(isinstance(x, (ast.Yield, ast.YieldFrom, ast.For, ast.While, ast.Try, ast.With, ast.Lambda, ast.FunctionDef)) for s_ in body for x in ast.walk(s_)) or _stores(body):
            continue
        if not any(isinstance(x, (ast.Assign, ast.AugAssign)) for s_ in body for x in ast.walk(s_)):
            continue            # a pure predicate: nothing to expose
        t_ = outcome_tree(body)
        if t_ is not None:
            bool_cands[name] = (ci, fn, t_)
    if not cands and not bool_cands:
        return

    def render(tree, mapping, then_, else_, st):
        kind, pre, nxt = tree
        out = [_loc(_NameSubst(mapping).visit(copy.deepcopy(x)), st) for x in pre]
        if nxt[0] == "ret":
            out += copy.deepcopy(then_ if nxt[1] else else_) or []
        else:
            _, test, a_, b_ = nxt
            node = ast.If(test=_NameSubst(mapping).visit(copy.deepcopy(test)), body=render(a_, mapping, then_, else_, st) or [ast.Pass()],
                          orelse=render(b_, mapping, then_, else_, st))
            out.append(_loc(node, st))
        return out

    def rewrite(body):
        out = []
        for st in body:
            for f in ("body", "orelse", "finalbody"):
                v = getattr(st, f, None)
                if isinstance(v, list) and v and isinstance(v[0], ast.stmt):
                    setattr(st, f, rewrite(v))
            new = None
            if isinstance(st, ast.If):
                t_, neg_ = st.test, False
                if isinstance(t_, ast.UnaryOp) and isinstance(t_.op, ast.Not):
                    t_, neg_ = t_.operand, True
                if isinstance(t_, ast.Call) and isinstance(t_.func, ast.Attribute) and t_.func.attr in bool_cands and not t_.keywords:
                    recv = t_.func.value
                    ci, h, tree = bool_cands[t_.func.attr]
                    params = [a.arg for a in h.args.args][1:]
                    if not (isinstance(recv, ast.Name) and recv.id == "self") and not any(isinstance(x, ast.Call) for x in ast.walk(recv)) and len(params) == len(t_.args) \
                            and all(isinstance(a, (ast.Constant, ast.Name, ast.Attribute)) for a in t_.args):
                        mapping = dict(zip(params, t_.args))
                        mapping["self"] = recv
                        then_, else_ = (st.orelse, st.body) if neg_ else (st.body, st.orelse)
                        new = render(tree, mapping, then_, else_, st)
            if isinstance(st, ast.Expr) and isinstance(st.value, ast.Call) and isinstance(st.value.func, ast.Attribute) and st.value.func.attr in cands:
                call = st.value
                recv = call.func.value
                ci, h, hbody = cands[call.func.attr]
                if not (isinstance(recv, ast.Name) and recv.id == "self") and not any(isinstance(x, ast.Call) for x in ast.walk(recv)):
                    params = [a.arg for a in h.args.args][1:]
                    bound = dict(zip(params, call.args))
                    ok = len(call.args) <= len(params)
                    for k in call.keywords:
                        if k.arg in params and k.arg not in bound:
                            bound[k.arg] = k.value
                        else:
                            ok = False
                    for pn, d in zip(params[len(params) - len(h.args.defaults):], h.args.defaults):
                        bound.setdefault(pn, d)
                    if ok and set(bound) == set(params) and all(isinstance(a, (ast.Constant, ast.Name, ast.Attribute)) or
                                                                 sum(1 for s in hbody for x in ast.walk(s) if isinstance(x, ast.Name) and x.id == p) <= 1 for p, a in bound.items()):
                        mapping = dict(bound)
                        mapping["self"] = recv
                        new = [_loc(_NameSubst(mapping).visit(copy.deepcopy(s)), st) for s in hbody]
            out += new if new is not None else [st]
        return out
    for ci, fn in list(P.all_functions()):
        fn.body = rewrite(fn.body)
        ast.fix_missing_locations(fn)
    # a helper all of whose uses were expanded is no longer part of the model
    still = set()
    for m in P.modules.values():
        for x in ast.walk(m.tree):
            if isinstance(x, ast.Attribute) and (x.attr in cands or x.attr in bool_cands):
                still.add(x.attr)
    for name, (ci, fn, body) in list(cands.items()) + list(bool_cands.items()):
        if name not in still and name in ci.methods:
            ci.node.body.remove(fn)
            del ci.methods[name]


def _inline_returning_helpers(P, anchors):
    """`T = self.h(args)` where h is a newly extracted, loop-free helper without locals, every path of which ends in `return <expr>`: replaced by h's
    statements with `T = <expr>` where it returns (parameters := arguments; an assignment `T = T` that results is dropped).  This is the step function of a
    scan moved into a helper -- `best = self.offer(kind, x, key(x), best)` -- put back into the loop it serves."""
    def tree(body):
        pre = []
        for i, st in enumerate(body):
            if isinstance(st, ast.Return):
                return ("seq", pre, ("ret", st.value)) if st.value is not None else None
            if isinstance(st, ast.If):
                a_ = tree(st.body + body[i + 1:])
                b_ = tree(st.orelse + body[i + 1:])
                if a_ is None or b_ is None:
                    return None
                return ("seq", pre, ("if", st.test, a_, b_))
            if not isinstance(st, (ast.Assign, ast.AugAssign, ast.Expr, ast.Pass)):
                return None
            pre.append(st)
        return None

    def render(t, mapping, target, st):
        kind, pre, nxt = t
        out = [_loc(_NameSubst(mapping).visit(copy.deepcopy(x)), st) for x in pre]
        if nxt[0] == "ret":
            val = _NameSubst(mapping).visit(copy.deepcopy(nxt[1]))
            if ast.unparse(val) != ast.unparse(target):
                out.append(_loc(ast.Assign(targets=[copy.deepcopy(target)], value=val), st))
        else:
            _, test, a_, b_ = nxt
            body_ = render(a_, mapping, target, st)
            else_ = render(b_, mapping, target, st)
            if body_ or else_:
                tst = _NameSubst(mapping).visit(copy.deepcopy(test))
                if not body_:
                    tst, body_, else_ = ast.UnaryOp(op=ast.Not(), operand=tst), else_, []
                out.append(_loc(ast.If(test=tst, body=body_, orelse=else_), st))
        return out

    for ci in list(P.classes.values()):
        mro = P.mro(ci.name)
        for fn in list(ci.methods.values()):
            def rewrite(body):
                out = []
                for st in body:
                    for f in ("body", "orelse", "finalbody"):
                        v = getattr(st, f, None)
                        if isinstance(v, list) and v and isinstance(v[0], ast.stmt):
                            setattr(st, f, rewrite(v))
                    new = None
                    if isinstance(st, ast.Assign) and len(st.targets) == 1 and isinstance(st.targets[0], (ast.Name, ast.Attribute)) and isinstance(st.value, ast.Call) \
                            and isinstance(st.value.func, ast.Attribute) and isinstance(st.value.func.value, ast.Name) and st.value.func.value.id == "self" \
                            and st.value.func.attr not in anchors and not st.value.keywords and not _overridden_below(P, ci.name, st.value.func.attr):
                        h = None
                        for c in mro:
                            if c in P.classes and st.value.func.attr in P.classes[c].methods:
                                h = P.classes[c].methods[st.value.func.attr]
                                break
                        if h is not None and h is not fn and not h.decorator_list and not h.args.vararg and not h.args.kwarg and not h.args.kwonlyargs and not h.args.defaults:
                            hbody = [s_ for s_ in h.body if not (isinstance(s_, ast.Expr) and isinstance(s_.value, ast.Constant))]
                            params = [a.arg for a in h.args.args][1:]
                            simple = not any(isinstance(x, (ast.For, ast.While, ast.Try, ast.With, ast.Lambda, ast.FunctionDef, ast.Yield, ast.YieldFrom, ast.ListComp, ast.GeneratorExp,
                                                               ast.DictComp, ast.SetComp, ast.NamedExpr)) for s_ in hbody for x in ast.walk(s_)) and not _stores(hbody)
                            args = st.value.args
                            if simple and len(params) == len(args) and len(hbody) > 1 and any(isinstance(x, ast.If) for x in hbody):
                                okargs = all(isinstance(a, (ast.Constant, ast.Name, ast.Attribute)) or
                                             (not any(isinstance(y, ast.Call) for y in ast.walk(a)))
                                             for a in args)
                                t_ = tree(hbody) if okargs else None
                                if t_ is not None:
                                    new = render(t_, dict(zip(params, args)), st.targets[0], st)
                                    h._returning_inlined = True
                    out += new if new is not None else [st]
                return out
            fn.body = rewrite(fn.body)
            ast.fix_missing_locations(fn)
    called = set()
    for m in P.modules.values():
        for n in ast.walk(m.tree):
            if isinstance(n, ast.Attribute):
                called.add(n.attr)
    for ci in P.classes.values():
        for name in [k for k, f in ci.methods.items() if getattr(f, "_returning_inlined", False) and k not in called]:
            ci.node.body.remove(ci.methods[name])
            del ci.methods[name]


def _canonical_call_arguments(P):
    """keyword arguments are listed in alphabetical order (their order carries no meaning); a call by bare name to a package-level function that is defined
    once passes as many arguments positionally as its keywords allow (`random_choice(array=a, probs=p)` is `random_choice(a, p)`)"""
    byname = {}
    for (mod, name), fn in P.functions.items():
        byname.setdefault(name, []).append(fn)
    single = {n: v[0] for n, v in byname.items() if len(v) == 1 and not v[0].args.vararg and not v[0].args.kwarg and not v[0].args.kwonlyargs and n not in P.classes}
    for m in P.modules.values():
        for n in ast.walk(m.tree):
            if not isinstance(n, ast.Call):
                continue
            if isinstance(n.func, ast.Name) and n.func.id in single and n.keywords and all(k.arg for k in n.keywords) and not any(isinstance(a, ast.Starred) for a in n.args):
                params = [a.arg for a in single[n.func.id].args.args]
                kw = {k.arg: k for k in n.keywords}
                i = len(n.args)
                while i < len(params) and params[i] in kw:
                    n.args.append(kw.pop(params[i]).value)
                    i += 1
                n.keywords = [k for k in n.keywords if k.arg in kw]
            if len(n.keywords) > 1 and all(k.arg for k in n.keywords):
                n.keywords.sort(key=lambda k: k.arg)


def _inline_wrappers(P, anchors):
    """a private method whose whole body is one call (a forwarding wrapper, possibly with *args) is expanded at its call sites: on `self` through the MRO,
    on any other receiver when exactly one class defines the name.  Afterwards string concatenations of constants are folded and getattr(X, "name") becomes
    X.name, so that `notify("accept", a, b)` -> `getattr(T, "change_state_" + event)(*args)` reads `T.change_state_accept(a, b)` again."""
    def wrapper_of(fn):
        if fn.decorator_list or fn.args.kwonlyargs or fn.args.kwarg or fn.args.defaults:
            return None
        body = [s for s in fn.body if not (isinstance(s, ast.Expr) and isinstance(s.value, ast.Constant))]
        if len(body) != 1 or not isinstance(body[0], (ast.Expr, ast.Return)) or not isinstance(body[0].value, ast.Call):
            return None
        params = [a.arg for a in fn.args.args]
        if params[:1] != ["self"]:
            return None
        va = fn.args.vararg.arg if fn.args.vararg else None
        call = body[0].value
        # the vararg may only be forwarded as *args in calls
        if va is not None:
            for x in ast.walk(call):
                if isinstance(x, ast.Name) and x.id == va:
                    pass
            stars = [x for x in ast.walk(call) if isinstance(x, ast.Starred) and isinstance(x.value, ast.Name) and x.value.id == va]
            uses = [x for x in ast.walk(call) if isinstance(x, ast.Name) and x.id == va]
            if len(stars) != len(uses):
                return None
        if any(isinstance(x, (ast.Lambda, ast.Yield, ast.Await, ast.NamedExpr)) for x in ast.walk(call)):
            return None
        return params[1:], va, call, isinstance(body[0], ast.Return)

    defs = {}
    for ci in P.classes.values():
        for name, fn in ci.methods.items():
            defs.setdefault(name, []).append((ci, fn))
    wrappers = {}
    for name, lst in defs.items():
        if name in anchors or name.startswith("__"):
            continue
        ws = [(ci, fn, wrapper_of(fn)) for ci, fn in lst]
        if all(w is not None for _, _, w in ws):
            wrappers[name] = ws
    if not wrappers:
        return

    class Fold(ast.NodeTransformer):
        def visit_BinOp(self, n):
            self.generic_visit(n)
            if isinstance(n.op, ast.Add) and isinstance(n.left, ast.Constant) and isinstance(n.right, ast.Constant) and isinstance(n.left.value, str) and isinstance(n.right.value, str):
                return ast.copy_location(ast.Constant(value=n.left.value + n.right.value), n)
            return n

        def visit_Call(self, n):
            self.generic_visit(n)
            if isinstance(n.func, ast.Name) and n.func.id == "getattr" and len(n.args) == 2 and not n.keywords and isinstance(n.args[1], ast.Constant) \
                    and isinstance(n.args[1].value, str) and n.args[1].value.isidentifier():
                return ast.copy_location(ast.Attribute(value=n.args[0], attr=n.args[1].value, ctx=ast.Load()), n)
            return n

    def expand_in(ci_use, fn):
        changed = [False]

        class T(ast.NodeTransformer):
            def visit_Call(self, n):
                self.generic_visit(n)
                f = n.func
                if not (isinstance(f, ast.Attribute) and f.attr in wrappers) or n.keywords or any(isinstance(a, ast.Starred) for a in n.args):
                    return n
                cand = None
                if isinstance(f.value, ast.Name) and f.value.id == "self" and ci_use is not None and not _overridden_below(P, ci_use.name, f.attr):
                    for c in P.mro(ci_use.name):
                        hit = [w for w in wrappers[f.attr] if w[0].name == c]
                        if hit:
                            cand = hit[0]
                            break
                        if c in P.classes and f.attr in P.classes[c].methods:
                            break
                elif len(wrappers[f.attr]) == 1 and len(defs[f.attr]) == 1 and not any(isinstance(x, ast.Call) for x in ast.walk(f.value)):
                    cand = wrappers[f.attr][0]
                if cand is None or cand[1] is fn:
                    return n
                params, va, call, is_ret = cand[2]
                if len(n.args) < len(params) or (va is None and len(n.args) != len(params)):
                    return n
                mapping = {"self": f.value}
                for p_, a_ in zip(params, n.args):
                    uses = sum(1 for y in ast.walk(call) if isinstance(y, ast.Name) and y.id == p_)
                    if uses > 1 and any(isinstance(y, ast.Call) for y in ast.walk(a_)):
                        return n
                    mapping[p_] = a_
                extra = n.args[len(params):]
                # parameters first (the wrapper's own names), the forwarded extra arguments afterwards (they are the caller's expressions)
                new = _NameSubst(mapping).visit(copy.deepcopy(call))
                if va is not None:
                    class S(ast.NodeTransformer):
                        def visit_Call(self, c):
                            self.generic_visit(c)
                            args = []
                            for a in c.args:
                                if isinstance(a, ast.Starred) and isinstance(a.value, ast.Name) and a.value.id == va:
                                    args += [copy.deepcopy(e) for e in extra]
                                else:
                                    args.append(a)
                            c.args = args
                            return c
                    new = S().visit(new)
                changed[0] = True
                return _loc(Fold().visit(new), n)
        T().visit(fn)
        ast.fix_missing_locations(fn)
        return changed[0]
    for _ in range(4):
        any_change = False
        for ci in P.classes.values():
            for fn in ci.methods.values():
                any_change = expand_in(ci, fn) or any_change
        for fn in P.functions.values():
            any_change = expand_in(None, fn) or any_change
        if not any_change:
            break
    # wrappers that are no longer referenced leave the model
    still = set()
    for m in P.modules.values():
        for x in ast.walk(m.tree):
            if isinstance(x, ast.Attribute) and x.attr in wrappers:
                still.add(x.attr)
    for name, ws in wrappers.items():
        if name not in still:
            for ci, fn, _ in ws:
                if name in ci.methods:
                    ci.node.body.remove(fn)
                    del ci.methods[name]


def normalise_program(P):
    from .anchors import ANCHOR_METHODS
    consts = _class_constants(P)
    P.class_constants = consts
    for ci in P.classes.values():
        table = {}
        for c in reversed(P.mro(ci.name)):
            table.update(consts.get(c, {}))
        # a constant that a subclass defines again is not a constant of this class's methods (they also run on instances of the subclass)
        for sub in P.subclasses(ci.name)[1:]:
            for st in P.classes[sub].node.body:
                for tg in (st.targets if isinstance(st, ast.Assign) else [st.target] if isinstance(st, (ast.AnnAssign, ast.AugAssign)) else []):
                    if isinstance(tg, ast.Name):
                        table.pop(tg.id, None)
        for fn in ci.methods.values():
            t = _SelfConst(table)
            t.visit(fn)
            ast.fix_missing_locations(fn)
    _canonical_call_arguments(P)
    _module_constants(P)
    _inline_wrappers(P, ANCHOR_METHODS)
    _trivial_members(P, ANCHOR_METHODS)
    _inline_foreign_helpers(P, ANCHOR_METHODS)
    _inline_returning_helpers(P, ANCHOR_METHODS)
    _inline_expression_functions(P, ANCHOR_METHODS)
    _specialise_helpers(P, ANCHOR_METHODS)
    for m in P.modules.values():
        for n in list(ast.walk(m.tree)):
            if isinstance(n, ast.FunctionDef):
                desugar_function(n)
