"""R7 date provenance (DESIGN §3 R7): abstract evaluation of the right-hand side of every write to a date field.

Abstract values (sets of tags):
  NOW        self.now / self.simulation.current_time
  DUR        a sampled or stored non-negative duration (sampling call, service_time, time_left, original_service_time, ...)
  NOW+DUR    now + duration          START+DUR  <x>.service_start_date + duration
  PREV+DUR   the same date field + duration (arrival stream accumulation)
  INF, SENT (False/True sentinel), COPY:<field> (another date field of a customer/server), OTHER:<text>
"""
import ast

from .model import call_name, is_inf_literal, unparse


def order_precedes(fn, a, b):
    from .scans import precedes
    return precedes(fn, a, b)

DATE_FIELDS = ("arrival_date", "exit_date", "service_start_date", "service_end_date", "reneging_date", "class_change_date",
               "next_end_service_date", "date_last_update", "original_service_start_date")
DUR_FIELDS = ("service_time", "time_left", "original_service_time")
SAMPLERS = ("sample", "_sample", "get_service_time", "inter_arrival")


class Evaluator:
    def __init__(self, view, fn):
        self.view, self.fn = view, fn
        self.locals = {}
        counts = {}
        for n in ast.walk(fn):
            if isinstance(n, ast.Assign) and len(n.targets) == 1 and isinstance(n.targets[0], ast.Name):
                counts[n.targets[0].id] = counts.get(n.targets[0].id, 0) + 1
                self.locals.setdefault(n.targets[0].id, []).append(n.value)
            elif isinstance(n, ast.Assign) and len(n.targets) == 1 and isinstance(n.targets[0], (ast.Tuple, ast.List)) and all(isinstance(t, ast.Name) for t in n.targets[0].elts):
                # tuple unpacking: element-wise when the value is a display, else the i-th component of the value (e.g. of a helper's returned tuple)
                for i, t in enumerate(n.targets[0].elts):
                    if isinstance(n.value, (ast.Tuple, ast.List)) and len(n.value.elts) == len(n.targets[0].elts):
                        self.locals.setdefault(t.id, []).append(n.value.elts[i])
                    else:
                        self.locals.setdefault(t.id, []).append(("component", n.value, i))
        # `for t, k in pairs` with `pairs = [(<date or duration>, key) for ...]` (a local collection of tuples built once): t is the first component
        single = {k: v[0] for k, v in self.locals.items() if counts.get(k) == 1 and len(v) == 1 and not isinstance(v[0], tuple)}
        for n in ast.walk(fn):
            if isinstance(n, (ast.For, ast.comprehension)):
                src = n.iter
                if isinstance(src, ast.Name) and src.id in single:
                    src = single[src.id]
                if isinstance(src, (ast.ListComp, ast.GeneratorExp)):
                    elts = [src.elt]
                elif isinstance(src, (ast.List, ast.Tuple)) and src.elts:
                    elts = list(src.elts)
                else:
                    continue
                tg = n.target
                if isinstance(tg, ast.Name):
                    for e in elts:
                        self.locals.setdefault(tg.id, []).append(e)
                elif isinstance(tg, (ast.Tuple, ast.List)) and all(isinstance(t, ast.Name) for t in tg.elts):
                    for e in elts:
                        if isinstance(e, (ast.Tuple, ast.List)) and len(e.elts) == len(tg.elts):
                            for i, t in enumerate(tg.elts):
                                self.locals.setdefault(t.id, []).append(e.elts[i])
        # `x.<date field> = tmp`: afterwards tmp is that date
        self.stored_as = {}
        for n in ast.walk(fn):
            if isinstance(n, ast.Assign) and len(n.targets) == 1 and isinstance(n.targets[0], ast.Attribute) and isinstance(n.value, ast.Name) \
                    and n.targets[0].attr in DATE_FIELDS and counts.get(n.value.id) == 1:
                self.stored_as.setdefault(n.value.id, (n, n.targets[0].attr))
        self.depth = 0

    def component(self, value, i):
        if isinstance(value, ast.Call) and isinstance(value.func, ast.Attribute) and isinstance(value.func.value, ast.Name) and value.func.value.id == "self":
            r = self.view.resolve(value.func.attr)
            if r is not None and self.depth < 4:
                sub = Evaluator(self.view, r[1])
                sub.depth = self.depth + 1
                out = frozenset()
                for ret in [x for x in ast.walk(r[1]) if isinstance(x, ast.Return)]:
                    if isinstance(ret.value, (ast.Tuple, ast.List)) and i < len(ret.value.elts):
                        out |= sub.ev(ret.value.elts[i])
                    else:
                        out |= frozenset(["OTHER:%s[%d]" % (unparse(value), i)])
                if out:
                    return out
        return frozenset(["OTHER:%s[%d]" % (unparse(value), i)])

    def ev(self, n):
        """-> frozenset of tags"""
        if n is None:
            return frozenset(["OTHER:None"])
        if is_inf_literal(n):
            return frozenset(["INF"])
        if isinstance(n, ast.Constant):
            if isinstance(n.value, bool):
                return frozenset(["SENT"])
            if isinstance(n.value, (int, float)):
                return frozenset(["CONST:%r" % n.value])
            return frozenset(["OTHER:%r" % n.value])
        txt = unparse(n)
        if txt in ("self.now", "self.simulation.current_time"):
            return frozenset(["NOW"])
        if isinstance(n, ast.Attribute):
            if n.attr in DUR_FIELDS:
                return frozenset(["DUR"])
            if n.attr in DATE_FIELDS:
                return frozenset(["COPY:" + n.attr])
            return frozenset(["OTHER:" + txt])
        if isinstance(n, ast.Name):
            out = None
            if n.id in self.locals and self.depth < 6:
                self.depth += 1
                out = frozenset()
                for v in self.locals[n.id]:
                    out |= self.component(v[1], v[2]) if isinstance(v, tuple) else self.ev(v)
                self.depth -= 1
                if out <= {"NOW", "NOW+DUR", "INF", "SENT", "DUR", "START+DUR"}:
                    return out
            if n.id in self.stored_as and order_precedes(self.fn, self.stored_as[n.id][0], n) and not any(n is x for x in ast.walk(self.stored_as[n.id][0])):
                return frozenset(["COPY:" + self.stored_as[n.id][1]])
            if out is not None:
                return out
            return frozenset(["OTHER:" + txt])
        if isinstance(n, ast.Subscript):
            return frozenset(["SUB:" + txt])
        if isinstance(n, ast.Call):
            cn = call_name(n)
            if cn in ("Decimal", "str", "float") and len(n.args) == 1:
                return self.ev(n.args[0])
            if cn == "increment_time" and len(n.args) == 2:
                return self.add(self.ev(n.args[0]), self.ev(n.args[1]), n.args[0], n.args[1])
            if cn in SAMPLERS:
                return frozenset(["DUR"])
            if cn in ("min", "max") and n.args:
                out = frozenset()
                for a in n.args:
                    out |= self.ev(a)
                return out if out <= {"DUR", "INF"} or len(out) == 1 else frozenset(["OTHER:" + txt])
            # a self-call: evaluate the callee's returns
            if isinstance(n.func, ast.Attribute) and isinstance(n.func.value, ast.Name) and n.func.value.id == "self":
                r = self.view.resolve(n.func.attr)
                if r is not None and self.depth < 4:
                    sub = Evaluator(self.view, r[1])
                    sub.depth = self.depth + 1
                    out = frozenset()
                    for ret in [x for x in ast.walk(r[1]) if isinstance(x, ast.Return)]:
                        out |= sub.ev(ret.value)
                    return out or frozenset(["OTHER:" + txt])
            return frozenset(["OTHER:" + txt])
        if isinstance(n, ast.BinOp) and isinstance(n.op, ast.Add):
            return self.add(self.ev(n.left), self.ev(n.right), n.left, n.right)
        if isinstance(n, ast.BinOp) and isinstance(n.op, ast.Sub):
            l, r = self.ev(n.left), self.ev(n.right)
            if l == {"COPY:service_end_date"} and r == {"NOW"}:
                return frozenset(["DUR"])          # remaining service time of a customer in service
            return frozenset(["DIFF:%s-%s" % ("|".join(sorted(l)), "|".join(sorted(r)))])
        if isinstance(n, ast.BinOp) and isinstance(n.op, (ast.Mult, ast.Div)):
            l, r = self.ev(n.left), self.ev(n.right)
            # a duration scaled by a positive sharing factor (processor sharing)
            ok = lambda s: all(t == "DUR" or t.startswith("OTHER:self.ps_threshold") or t.startswith("OTHER:max(") or t.startswith("CONST:") for t in s)
            if ("DUR" in l or "DUR" in r) and ok(l) and ok(r):
                return frozenset(["DUR"])
            return frozenset(["OTHER:" + txt])
        if isinstance(n, ast.IfExp):
            return self.ev(n.body) | self.ev(n.orelse)
        return frozenset(["OTHER:" + txt])

    def add(self, l, r, ln, rn):
        out = set()
        for a in l:
            for b in r:
                pair = {a, b}
                if pair == {"NOW", "DUR"}:
                    out.add("NOW+DUR")
                elif pair == {"NOW", "INF"} or pair == {"INF", "DUR"} or pair == {"INF"}:
                    out.add("INF")
                elif pair == {"COPY:service_start_date", "DUR"}:
                    out.add("START+DUR")
                elif a.startswith("SUB:") and b == "DUR":
                    out.add("PREV+DUR:" + a[4:])
                elif b.startswith("SUB:") and a == "DUR":
                    out.add("PREV+DUR:" + b[4:])
                else:
                    out.add("OTHER:%s + %s" % (a, b))
        return frozenset(out)
