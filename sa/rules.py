"""Shared rule machinery (DESIGN §3): event classification, local balance (R2), package-wide scans (R1)."""
import ast
import re

from .model import clone, AnalysisError, call_name, enclosing_def, is_inf_literal, is_self_attr, loc, unparse
from .paths import Walker, show_path

from .anchors import ANCHOR_METHODS

NODE_ROOT = "Node"


def new_helper(ev):
    """splice policy of the local walks: only self-calls to methods that are not part of the pinned API (newly extracted helpers)"""
    return ev.d.get("meth") not in ANCHOR_METHODS


def effective_names(program, ci, fn):
    """the anchor method(s) on whose behalf `fn` runs: fn itself if it is an anchor, else the anchors that (transitively) self-call it"""
    if fn.name in ANCHOR_METHODS or ci is None:
        return {fn.name}
    out, seen, todo = set(), set(), [fn.name]
    while todo:
        m = todo.pop()
        if m in seen:
            continue
        seen.add(m)
        for c in program.subclasses(ci.name):
            for caller in self_callers(program.view(c), m):
                if caller in ANCHOR_METHODS:
                    out.add(caller)
                else:
                    todo.append(caller)
    return out or {fn.name}


def walk(program, view, fn, _depth=0):
    """ast.walk over fn and, recursively, over newly extracted helpers it self-calls (nodes keep their own _parent chain)"""
    for n in ast.walk(fn):
        yield n
        if (_depth < 4 and isinstance(n, ast.Call) and isinstance(n.func, ast.Attribute) and isinstance(n.func.value, ast.Name) and n.func.value.id == "self"
                and n.func.attr not in ANCHOR_METHODS):
            r = view.resolve(n.func.attr) if view is not None else None
            if r is not None:
                for m in walk(program, view, r[1], _depth + 1):
                    yield m

def path_text(events, idx, node, frame):
    """source text of `node` (evaluated in `frame` at position idx of the path) with the locals assigned earlier on THIS path replaced by the canonical text
    of what they were assigned -- a path-sensitive view of temporaries (`x = a if c else b; return f(x)`)"""
    from . import scans
    defs = {}
    for e in events[:idx]:
        if e.kind == "assign" and e.d.get("local") and e.frame.fid == frame.fid and e.d.get("value") not in (None, "?"):
            name = e.d["target"][: len(e.d["target"]) - len(frame.tag)] if frame.tag and e.d["target"].endswith(frame.tag) else e.d["target"]
            v = e.d["value"]
            defs[name] = v if re.fullmatch(r"[\w.\[\]'\"]+", v) else "(%s)" % v
    return scans._subst(unparse(node), defs)


def pure_locals(fn):
    """single-assignment locals of fn whose value is a pure access expression (no call): temporaries that merely name a sub-expression"""
    cnt, val = {}, {}
    for x in ast.walk(fn):
        if isinstance(x, ast.Name) and isinstance(x.ctx, (ast.Store, ast.Del)):
            cnt[x.id] = cnt.get(x.id, 0) + 1
        if isinstance(x, ast.Assign) and len(x.targets) == 1 and isinstance(x.targets[0], ast.Name):
            val[x.targets[0].id] = x.value
    params = {a.arg for a in fn.args.args}
    def pure(v):
        for y in ast.walk(v):
            if isinstance(y, ast.Call) and not (isinstance(y.func, ast.Name) and y.func.id in ("str", "len", "int", "float", "abs", "min", "max", "isinf", "sum")) \
                    and not (isinstance(y.func, ast.Attribute) and y.func.attr == "increment_time" and unparse(y.func.value) == "self"):      # (pure date arithmetic)
                return False
            if isinstance(y, (ast.Lambda, ast.ListComp, ast.GeneratorExp, ast.DictComp, ast.SetComp, ast.Yield)):
                return False
        return True
    return {k: v for k, v in val.items() if cnt.get(k) == 1 and k not in params and pure(v)}


def inline_locals(fn, node, depth=4):
    """copy of `node` with the pure temporaries of fn replaced by their defining expressions"""
    import copy
    table = pure_locals(fn)
    node = clone(node)
    for _ in range(depth):
        before = ast.dump(node)
        node = _Subst(table).visit(node)
        if ast.dump(node) == before:
            break
    node = ast.fix_missing_locations(node)
    for n in ast.walk(node):
        for c in ast.iter_child_nodes(n):
            c._parent = n
        if getattr(fn, "_module", None) is not None:
            n._module = fn._module
    return node


def new_helper_frame(frame, ancestor):
    """every activation between `frame` (inclusive) and `ancestor` (exclusive) is one of a newly extracted helper (not a pinned method)"""
    f = frame
    while f is not None and f is not ancestor and f.fid != ancestor.fid:
        if f.func.name in ANCHOR_METHODS:
            return False
        f = f.parent
    return f is not None


def list_segments(expr, fn=None):
    """a list-building expression as segments: `[a] + X + [b]` and `[a, *X, b]` both give [("elem", a), ("splat", X), ("elem", b)] (texts); an element
    that is a local of fn assigned once reads as the expression it was assigned"""
    single = {}
    if fn is not None:
        cnt = {}
        for x in ast.walk(fn):
            if isinstance(x, ast.Name) and isinstance(x.ctx, ast.Store):
                cnt[x.id] = cnt.get(x.id, 0) + 1
        for x in ast.walk(fn):
            if isinstance(x, ast.Assign) and len(x.targets) == 1 and isinstance(x.targets[0], ast.Name) and cnt.get(x.targets[0].id) == 1:
                single[x.targets[0].id] = x.value
    def seg(e):
        if isinstance(e, ast.BinOp) and isinstance(e.op, ast.Add):
            return seg(e.left) + seg(e.right)
        if isinstance(e, ast.List):
            out = []
            for el in e.elts:
                if isinstance(el, ast.Starred):
                    out.append(("splat", unparse(el.value)))
                else:
                    if isinstance(el, ast.Name) and el.id in single:
                        el = single[el.id]
                    out.append(("elem", unparse(el)))
            return out
        return [("splat", unparse(e))]
    return seg(expr)


def class_level_names(program, cname):
    """names bound in the class bodies along cname's MRO (class attributes: readable on every instance without any constructor assignment)"""
    out = set()
    for c in program.mro(cname):
        ci = program.classes.get(c)
        if ci is None:
            continue
        for st in ci.node.body:
            for tg in (st.targets if isinstance(st, ast.Assign) else [st.target] if isinstance(st, ast.AnnAssign) and st.value is not None else []):
                if isinstance(tg, ast.Name):
                    out.add(tg.id)
    return out


def items_as_lookups(comp):
    """a structural copy of a comprehension in which `for k, v in D.items()` (D without calls, k and v plain names) reads `for k in D` with v spelled D[k]:
    the two iterate the same keys in the same order and bind the same values"""
    if not isinstance(comp, (ast.DictComp, ast.ListComp, ast.SetComp, ast.GeneratorExp)):
        return comp
    comp = clone(comp)
    for g in comp.generators:
        if isinstance(g.iter, ast.Call) and isinstance(g.iter.func, ast.Attribute) and g.iter.func.attr == "items" and not g.iter.args and not g.iter.keywords \
                and isinstance(g.target, ast.Tuple) and len(g.target.elts) == 2 and all(isinstance(t, ast.Name) for t in g.target.elts) \
                and not any(isinstance(x, ast.Call) for x in ast.walk(g.iter.func.value)):
            k, v = g.target.elts[0].id, g.target.elts[1].id
            d = g.iter.func.value
            if k == v:
                continue
            look = ast.Subscript(value=clone(d), slice=ast.Name(id=k, ctx=ast.Load()), ctx=ast.Load())
            g.target = ast.Name(id=k, ctx=ast.Store())
            g.iter = d
            comp = _Subst({v: look}).visit(comp)
    return ast.fix_missing_locations(comp)


def temporaries_free(fn):
    """fn with its pure temporaries read through (a structural copy with parent links), or fn itself when it has none: for shape recognisers"""
    return inline_locals(fn, fn) if pure_locals(fn) else fn


def inline_stable_locals(fn, pure_calls=("max", "min", "isinf", "len"), keep=None):
    """deep copy of fn in which single-assignment temporaries that only name a value computed from `self`-rooted paths (and other such temporaries) are
    replaced by that value at every use that precedes any write to those paths; their assignments are dropped.  Used by shape recognisers so that hoisting
    `self.simulation.current_time`, `self.ps_threshold`, `max(k, self.ps_threshold)` ... into locals does not change what they see."""
    import copy
    from .scans import order_of
    fn2 = clone(fn)
    for _ in range(16):
        cnt, val, stmt = {}, {}, {}
        for x in ast.walk(fn2):
            if isinstance(x, ast.Name) and isinstance(x.ctx, (ast.Store, ast.Del)):
                cnt[x.id] = cnt.get(x.id, 0) + 1
            if isinstance(x, ast.Assign) and len(x.targets) == 1 and isinstance(x.targets[0], ast.Name):
                val[x.targets[0].id] = x.value
                stmt[x.targets[0].id] = x
        params = {a.arg for a in fn2.args.args}

        def stable(v):
            for y in ast.walk(v):
                if isinstance(y, ast.Call) and not (isinstance(y.func, ast.Name) and y.func.id in pure_calls):
                    return False
                if isinstance(y, (ast.Lambda, ast.ListComp, ast.GeneratorExp, ast.DictComp, ast.SetComp, ast.Yield, ast.IfExp)):
                    return False
                if isinstance(y, ast.Name) and y.id not in ("self",) + tuple(pure_calls) and y.id not in ("float", "True", "False", "None") \
                        and not (cnt.get(y.id) == 1 and y.id in val and y.id not in params and not any(isinstance(z, ast.Call) and not (isinstance(z.func, ast.Name) and z.func.id in pure_calls) for z in ast.walk(val[y.id]))):
                    return False
            return True
        table = {k: v for k, v in val.items() if cnt.get(k) == 1 and k not in params and stable(v) and not (keep is not None and keep(k, v))}
        if not table:
            break
        if hasattr(fn2, "_dfs_order"):
            del fn2._dfs_order
        order = order_of(fn2)
        writes = []
        for x in ast.walk(fn2):
            if isinstance(x, (ast.Assign, ast.AugAssign)):
                for t in (x.targets if isinstance(x, ast.Assign) else [x.target]):
                    if not isinstance(t, ast.Name):
                        writes.append((order[id(x)], unparse(t)))
        done = False
        for k, v in table.items():
            paths = {unparse(y) for y in ast.walk(v) if isinstance(y, (ast.Attribute, ast.Subscript))}
            d0 = order[id(stmt[k])]
            uses = [y for y in ast.walk(fn2) if isinstance(y, ast.Name) and isinstance(y.ctx, ast.Load) and y.id == k]
            ok = True
            for u in uses:
                for wo, wt in writes:
                    if d0 < wo < order[id(u)] and any(wt == p or p.startswith(wt + ".") or p.startswith(wt + "[") for p in paths):
                        ok = False
            if not ok or not uses:
                continue
            _Subst({k: v}).visit(fn2)

            class Drop(ast.NodeTransformer):
                def visit_Assign(self, n):
                    return ast.copy_location(ast.Pass(), n) if n is stmt[k] else self.generic_visit(n)
            Drop().visit(fn2)
            done = True
            break           # recompute tables after each substitution
        if not done:
            break
    ast.fix_missing_locations(fn2)
    for n in ast.walk(fn2):
        for c in ast.iter_child_nodes(n):
            c._parent = n
    return fn2


def sum_terms(node):
    """sorted additive terms of an expression built with `+`, `-` and increment_time(a, b) (= a + b in both the float and the exact node): the order of
    the operands is immaterial"""
    if isinstance(node, str):
        node = ast.parse(node, mode="eval").body

    def rec(n, sign):
        if isinstance(n, ast.Call) and call_name(n) == "increment_time" and len(n.args) == 2 and not n.keywords:
            return rec(n.args[0], sign) + rec(n.args[1], sign)
        if isinstance(n, ast.BinOp) and isinstance(n.op, ast.Add):
            return rec(n.left, sign) + rec(n.right, sign)
        if isinstance(n, ast.BinOp) and isinstance(n.op, ast.Sub):
            return rec(n.left, sign) + rec(n.right, -sign)
        if isinstance(n, ast.UnaryOp) and isinstance(n.op, ast.USub):
            return rec(n.operand, -sign)
        return [("-" if sign < 0 else "") + unparse(n).replace(" ", "")]
    return sorted(rec(node, 1))


class _Subst(ast.NodeTransformer):
    def __init__(self, mapping):
        self.mapping = mapping

    def visit_Name(self, n):
        if isinstance(n.ctx, ast.Load) and n.id in self.mapping:
            import copy
            return clone(self.mapping[n.id])
        return n


def _namedtuple_fields(program, name):
    """the field names of `name = namedtuple("..", [..names..])` defined at module level in the package, or None"""
    for m in program.modules.values():
        for st in m.tree.body:
            if isinstance(st, ast.Assign) and len(st.targets) == 1 and isinstance(st.targets[0], ast.Name) and st.targets[0].id == name \
                    and isinstance(st.value, ast.Call) and call_name(st.value) == "namedtuple" and len(st.value.args) == 2:
                f = st.value.args[1]
                if isinstance(f, (ast.List, ast.Tuple)) and all(isinstance(e, ast.Constant) and isinstance(e.value, str) for e in f.elts):
                    return [e.value for e in f.elts]
                if isinstance(f, ast.Constant) and isinstance(f.value, str):
                    return f.value.replace(",", " ").split()
    return None


def record_constructions(program, view, fn, ctor="DataRecord", _depth=0):
    """the `ctor(...)` constructions performed by fn, directly or through a newly extracted helper that forwards keyword arguments
    (`helper(individual, a=..., b=...)` -> `ctor(x=..., **fields)`): -> list of (location node, {field: value expr in fn's own terms})"""
    import copy
    out = []
    for n in ast.walk(fn):
        if not isinstance(n, ast.Call):
            continue
        if call_name(n) == ctor:
            if any(k.arg is None for k in n.keywords):
                continue        # `**fields` of a forwarding helper: only meaningful through its callers
            out.append((n, {k.arg: k.value for k in n.keywords}))
        elif (_depth < 3 and isinstance(n.func, ast.Attribute) and isinstance(n.func.value, ast.Name) and n.func.value.id == "self" and n.func.attr not in ANCHOR_METHODS):
            r = view.resolve(n.func.attr)
            if r is None:
                continue
            h = r[1]
            params = [a.arg for a in h.args.args][1:]
            mapping = {}
            for pn, a in zip(params, n.args):
                mapping[pn] = a
            extra = {}
            for k in n.keywords:
                if k.arg is None:
                    continue
                if k.arg in params:
                    mapping[k.arg] = k.value
                else:
                    extra[k.arg] = k.value
            for pn, d in zip(params[len(params) - len(h.args.defaults):], h.args.defaults):
                mapping.setdefault(pn, d)
            kwname = h.args.kwarg.arg if h.args.kwarg else None
            for c in ast.walk(h):
                if isinstance(c, ast.Call) and call_name(c) == ctor and len(c.keywords) == 1 and c.keywords[0].arg is None and isinstance(c.keywords[0].value, ast.Name) \
                        and not c.args and c.keywords[0].value.id != kwname:
                    # ctor(**D) with D = dict.fromkeys(ctor._fields, DEFAULT) ; D.update(a=.., b=..) ; D.update(<forwarded keywords>), in that order, straight-line
                    dn = c.keywords[0].value.id
                    body_ = [s_ for s_ in h.body if not (isinstance(s_, ast.Expr) and isinstance(s_.value, ast.Constant))]
                    fields, okd, default = {}, False, None
                    for s_ in body_:
                        if isinstance(s_, ast.Assign) and len(s_.targets) == 1 and isinstance(s_.targets[0], ast.Name) and s_.targets[0].id == dn:
                            v_ = s_.value
                            if isinstance(v_, ast.Call) and unparse(v_.func) == "dict.fromkeys" and len(v_.args) == 2 and unparse(v_.args[0]) == ctor + "._fields":
                                default, okd = v_.args[1], True
                                fields = {}
                            else:
                                okd = False
                        elif isinstance(s_, ast.Expr) and isinstance(s_.value, ast.Call) and isinstance(s_.value.func, ast.Attribute) and unparse(s_.value.func.value) == dn \
                                and s_.value.func.attr == "update" and okd:
                            u_ = s_.value
                            if len(u_.args) == 1 and isinstance(u_.args[0], ast.Name) and u_.args[0].id == kwname and not u_.keywords:
                                fields.update(extra)
                            elif not u_.args and all(k.arg is not None for k in u_.keywords):
                                for k in u_.keywords:
                                    v = _Subst(mapping).visit(clone(k.value))
                                    ast.fix_missing_locations(v)
                                    fields[k.arg] = v
                            else:
                                okd = False
                        elif any(isinstance(y, ast.Name) and y.id == dn and isinstance(y.ctx, (ast.Store, ast.Del)) for y in ast.walk(s_)) or \
                                any(isinstance(y, ast.Subscript) and unparse(y.value) == dn and isinstance(y.ctx, (ast.Store, ast.Del)) for y in ast.walk(s_)):
                            okd = False
                    if okd and default is not None:
                        names = _namedtuple_fields(program, ctor)
                        if names:
                            for nm in names:
                                fields.setdefault(nm, clone(default))
                            out.append((n, fields))
                    continue
                if isinstance(c, ast.Call) and call_name(c) == ctor:
                    fields = {}
                    fwd = False
                    for k in c.keywords:
                        if k.arg is None:
                            fwd = fwd or (isinstance(k.value, ast.Name) and k.value.id == kwname)
                        else:
                            v = _Subst(mapping).visit(clone(k.value))
                            ast.fix_missing_locations(v)
                            fields[k.arg] = v
                    if fwd:
                        fields.update(extra)
                    out.append((n, fields))
            # deeper chains: helper calling another helper
            if not any(isinstance(c, ast.Call) and call_name(c) == ctor for c in ast.walk(h)):
                for loc_node, fields in record_constructions(program, view, h, ctor, _depth + 1):
                    out.append((n, {f: ast.fix_missing_locations(_Subst(mapping).visit(clone(v))) for f, v in fields.items()}))
    return out


INS_OPS = {"append": "ins", "insert": "ins"}
REM_OPS = {"remove": "rem", "pop": "rem"}
OTHER_MUT = {"extend", "clear", "sort", "reverse"}


def split_path(canon):
    """'self.individuals[x.p]' -> ('self', 'individuals', '[x.p]');  'a.b.c' -> ('a.b', 'c', '') ; else None"""
    try:
        n = ast.parse(canon, mode="eval").body
    except SyntaxError:
        return None
    rest = ""
    while isinstance(n, ast.Subscript):
        rest = "[" + unparse(n.slice) + "]" + rest
        n = n.value
    if isinstance(n, ast.Attribute):
        return unparse(n.value), n.attr, rest
    if isinstance(n, ast.Name):
        return "", n.id, rest
    return None


def listop(ev):
    """classify a call event as a list mutation: -> (kind, obj, attr, index, args) or None"""
    if ev.kind != "call" or ev.d.get("recv") is None:
        return None
    m = ev.d["meth"]
    if m not in INS_OPS and m not in REM_OPS and m not in OTHER_MUT:
        return None
    sp = split_path(ev.d["recv"])
    if sp is None:
        return None
    kind = INS_OPS.get(m) or REM_OPS.get(m) or "other"
    return kind, sp[0], sp[1], sp[2], ev.d["args"]


def family_views(program, root):
    return [program.view(c) for c in program.subclasses(root)]


def witness(state, limit=14):
    out = []
    for e in state.events:
        if e.kind in ("enter", "leave", "loopexit", "iter"):
            continue
        out.append("%s  %s" % (e.where, e.text))
    if len(out) > limit:
        out = out[:limit // 2] + ["..."] + out[-limit // 2:]
    return out


def facts_text(state):
    from . import guards
    parts = []
    for a, v in sorted(state.facts.items(), key=str):
        parts.append(("" if v else "not ") + guards.show(a))
    return ", ".join(parts)


def where_of(view, cls, fn, reported_base):
    w = "%s.%s" % (cls.name, fn.name)
    return w if view.name == cls.name or not reported_base else w


# ---- package-wide syntactic scans -----------------------------------------------------------------

def attr_writes(program, attr):
    """every syntactic write (Assign/AugAssign/Delete target, mutating list call) to `<expr>.<attr>[...]`
    in the package -> list of (cls, fn, node, receiver_text, how)"""
    out = []
    for ci, fn in program.all_functions():
        for n in ast.walk(fn):
            targets = []
            if isinstance(n, ast.Assign):
                targets = [(t, "assign") for t in n.targets]
            elif isinstance(n, ast.AugAssign):
                targets = [(n.target, "aug")]
            elif isinstance(n, ast.AnnAssign) and n.value is not None:
                targets = [(n.target, "assign")]
            elif isinstance(n, ast.Delete):
                targets = [(t, "del") for t in n.targets]
            elif isinstance(n, ast.Call) and isinstance(n.func, ast.Attribute) and n.func.attr in (
                    set(INS_OPS) | set(REM_OPS) | OTHER_MUT):
                targets = [(n.func.value, n.func.attr)]
            flat = []
            for t, how in targets:
                if isinstance(t, (ast.Tuple, ast.List)):
                    flat += [(e, how) for e in t.elts]
                else:
                    flat.append((t, how))
            for t, how in flat:
                base = t
                sub = False
                while isinstance(base, ast.Subscript):
                    base = base.value
                    sub = True
                if isinstance(base, ast.Attribute) and base.attr == attr:
                    out.append((ci, fn, n, unparse(base.value), how + ("[]" if sub and how in ("assign", "aug", "del") else "")))
    return out


def calls_named(program, mname):
    """all call sites `<recv>.mname(...)` / `mname(...)` -> (cls, fn, call)"""
    out = []
    for ci, fn in program.all_functions():
        for n in ast.walk(fn):
            if isinstance(n, ast.Call) and call_name(n) == mname:
                out.append((ci, fn, n))
    return out


def qual(ci, fn):
    return "%s.%s" % (ci.name if ci else "<module>", fn.name)


def self_callers(view, mname):
    """methods of the view that call self.mname(...)"""
    out = []
    for m in view.methods():
        ci, fn = view.resolve(m)
        for n in ast.walk(fn):
            if (isinstance(n, ast.Call) and isinstance(n.func, ast.Attribute) and n.func.attr == mname
                    and isinstance(n.func.value, ast.Name) and n.func.value.id == "self"):
                out.append(m)
                break
    return out


def externally_called(program, mname):
    """is there a call `<x>.mname(...)` with x != self / super() anywhere in the package?"""
    for ci, fn, call in calls_named(program, mname):
        f = call.func
        if isinstance(f, ast.Attribute):
            v = f.value
            if isinstance(v, ast.Name) and v.id == "self":
                continue
            if isinstance(v, ast.Call) and isinstance(v.func, ast.Name) and v.func.id == "super":
                continue
            return True
    return False


def is_private_helper(program, view, mname):
    """only ever called as self.mname(...) from other methods of the view, and not an event-handler root"""
    if mname in ROOT_HANDLERS:
        return False
    callers = [c for c in self_callers(view, mname) if c != mname]
    return bool(callers) and not externally_called(program, mname)


# ---- R2: local balance of counter vs collection ---------------------------------------------------------

class Pairing:
    """counter attribute <-> collection attribute, per symbolic owner object, per path of each method body."""

    def __init__(self, counter, coll, rule_id, describe):
        self.counter, self.coll, self.rule_id, self.describe = counter, coll, rule_id, describe

    def delta(self, state):
        """-> {obj: [dcounter, dcoll]}; objects named through a local whose alias was invalidated later keep their original identity"""
        raw = self._delta(state)
        frozen = {k[1]: v for k, v in state.env.items() if k[0] == "frozen"}
        if not frozen:
            return raw
        out = {}
        for obj, (dc, dl) in raw.items():
            base = obj.split(".")[0].split("[")[0]
            ident = frozen[base] + obj[len(base):] if base in frozen else obj
            cur = out.setdefault(ident, [0, 0])
            cur[0] += dc
            cur[1] += dl
        return out

    def _delta(self, state):
        per = {}
        rem_tok, ins_tok = {}, {}
        for e in state.events:
            if e.kind == "aug":
                sp = split_path(e.d["target"])
                if sp and sp[1] == self.counter and sp[2] == "":
                    try:
                        k = int(ast.literal_eval(e.d["value"]))
                    except Exception:
                        k = None
                    if k is None or e.d["op"] not in ("Add", "Sub"):
                        per.setdefault(sp[0], [0, 0])[0] += 1000
                    else:
                        per.setdefault(sp[0], [0, 0])[0] += k if e.d["op"] == "Add" else -k
            elif e.kind == "assign" and not e.d.get("local"):
                sp = split_path(e.d["target"])
                if sp and sp[1] == self.counter and sp[2] == "":
                    # x.counter = x.counter + k
                    m = re.fullmatch(re.escape(e.d["target"]) + r" ([+-]) (\d+)", e.d["value"])
                    if m:
                        per.setdefault(sp[0], [0, 0])[0] += int(m.group(2)) * (1 if m.group(1) == "+" else -1)
                    else:
                        per.setdefault(sp[0], [0, 0])[0] += 1000
            elif e.kind == "call":
                lo = listop(e)
                if lo and lo[2] == self.coll:
                    kind, obj = lo[0], lo[1]
                    if kind == "ins":
                        per.setdefault(obj, [0, 0])[1] += 1
                    elif kind == "rem":
                        per.setdefault(obj, [0, 0])[1] -= 1
                    elif e.d["meth"] in ("sort", "reverse"):
                        per.setdefault(obj, [0, 0])       # order only; where order matters it is checked separately
                    else:
                        per.setdefault(obj, [0, 0])[1] += 1000
            elif e.kind == "del":
                sp = split_path(e.d["target"])
                if sp and sp[1] == self.coll:
                    per.setdefault(sp[0], [0, 0])[1] -= 1
        return per

    def relevant(self, e):
        if e.kind in ("aug", "assign", "del"):
            sp = split_path(e.d["target"])
            return bool(sp) and sp[1] in (self.counter, self.coll) and not (e.kind == "assign" and e.d.get("local"))
        if e.kind == "call":
            lo = listop(e)
            if lo and lo[2] == self.coll:
                return True
            return e.d.get("selfcall", False)
        return False


def check_pairing(ctx, ob, program, views, pairing, skip_methods=("__init__",), loop_iters=(0, 1)):
    """Local balance (Appendix E): every method body balanced on every path; unbalanced private helpers are
    spliced into their callers (fixpoint)."""
    reported = set()
    if ctx.tier == "thorough":
        loop_iters = (0, 1, 2)      # local (un-spliced) walks are cheap: also take every loop twice so that per-iteration imbalance shows
    for view in views:
        unbalanced = set()
        results = {}
        for _round in range(6):
            results = {}
            changed = False
            for m in view.methods():
                if m in skip_methods:
                    continue
                cls, fn = view.resolve(m)
                w = Walker(program, view, keep=pairing.relevant,
                           inline=lambda ev: ev.d["meth"] in unbalanced or new_helper(ev), loop_iters=loop_iters)
                bad = []
                paths = w.paths_of(cls, fn)
                ctx.count("paths:" + pairing.rule_id, len(paths))
                touched = False
                for st in paths:
                    if st.status == "raise":
                        continue
                    d = pairing.delta(st)
                    if d:
                        touched = True
                    for obj, (dc, dl) in d.items():
                        if dc != dl:
                            bad.append((obj, dc, dl, st))
                results[m] = (cls, fn, bad, touched)
                if bad and m not in unbalanced:
                    callers = [c for c in self_callers(view, m) if c != m]
                    if callers and not externally_called(program, m) and m not in ROOT_HANDLERS:
                        unbalanced.add(m)
                        changed = True
            if not changed:
                break
        for m, (cls, fn, bad, touched) in sorted(results.items()):
            if touched:
                ob.seen("%s.%s" % (cls.name, m))
            if m in unbalanced:
                continue
            for obj, dc, dl, st in bad:
                construct = "%s.%s %+d vs %s.%s %+d" % (obj, pairing.counter, dc, obj, pairing.coll, dl)
                where = "%s.%s" % (cls.name, m)
                key = (where, construct)
                if key in reported:
                    continue
                reported.add(key)
                ctx.violation(ob, pairing.rule_id, where, construct, "unbalanced",
                              "%s: on a path of %s (view %s) the counter changes by %+d but the collection by %+d [%s]"
                              % (pairing.describe, where, view.name, dc, dl, facts_text(st)),
                              loc(fn), witness(st))
    return reported


ROOT_HANDLERS = {"have_event", "accept", "release", "renege", "finish_service", "change_shift", "slotted_service",
                 "change_customer_class_while_waiting", "update_next_event_date", "wrap_up_servers",
                 "find_server_utilisation", "block_individual", "release_blocked_individual"}


# ---- path conditions ----------------------------------------------------------------------------------------

def path_condition(events, upto=None, transform=None):
    """unit facts implied by the GUARD events of a path prefix (events before index `upto`)"""
    from . import guards
    facts = {}
    for i, e in enumerate(events):
        if upto is not None and i >= upto:
            break
        if e.kind == "guard":
            f = e.d["formula"]
            if transform is not None:
                f = transform(f)
            guards.assume(f, e.pol, facts)
    return facts


def formula_of(walker, test, frame, env):
    from . import guards
    return guards.norm(test, lambda x: walker.canon(x, frame, env))
