"""CLI:  python -m sa.run <ID> [--tier quick|thorough] [--replay <path>]"""
import argparse
import importlib
import json
import os
import sys
import traceback

from . import report
from .model import AnalysisError, Program


def run_property(pid, tier, seed=0, root=None, quiet=False, write=True):
    mod = importlib.import_module("sa.props." + pid.lower())
    program = Program(root)
    ctx = report.Ctx(pid, tier, program, seed)
    try:
        mod.check(ctx)
    except AnalysisError as e:
        ctx.unrecognised(str(e))
    return ctx, mod


def main(argv=None):
    ap = argparse.ArgumentParser()
    ap.add_argument("prop")
    ap.add_argument("--tier", default=os.environ.get("VERIF_TIER", "quick"), choices=["quick", "thorough"])
    ap.add_argument("--replay")
    ap.add_argument("--root", default=None)
    a = ap.parse_args(argv)
    pid = a.prop.upper()
    if a.root and not os.environ.get("VERIF_OUTDIR"):
        os.environ["VERIF_OUTDIR"] = a.root        # analysing another tree must never overwrite /verif/evidence or /verif/out
    try:
        seed = int(os.environ.get("VERIF_SEED", "0"))
    except ValueError:
        seed = 0
    try:
        ctx, mod = run_property(pid, a.tier, seed, a.root)
        if a.replay:
            with open(a.replay) as fh:
                want = json.load(fh)["finding"]["key"]
            hit = [f for f in ctx.findings if f.key == want]
            if hit:
                f = hit[0]
                print("REPLAY: finding still reported on the current tree")
                print("VIOLATION property=%s replay=%s" % (pid, a.replay))
                print("  rule %s at %s (%s)\n  construct: %s\n  why: %s" % (f.rule, f.loc, f.where, f.construct, f.message))
                for w in f.witness:
                    print("    | %s" % w)
                return 1
            print("REPLAY: finding %s is no longer reported" % want)
            return 0
        selftest_failed = False
        if a.tier == "thorough" and not ctx.errors and not a.root:
            known = {k["key"] for k in report.load_known() if k.get("status") == "known"}
            if all(f.key in known for f in ctx.findings):      # self-validation only matters when the base verdict is "held"
                from .selftest import harness
                ok, stats, msgs = harness.run(pid, ctx)
                ctx.counters["selftest"] = stats
                ctx.notes.append("self-validation: %d variants analysed statically (%d breaking reported, %d preserving unchanged, %d skipped)"
                                 % (stats["variants"], stats["breaking_ok"], stats["preserving_ok"], stats["skipped"]))
                for m in msgs:
                    ctx.unrecognised(m)
        rc = report.finish(ctx, mod.EXPLANATION, mod.RULE)
        return rc
    except AnalysisError as e:
        print("ANALYSIS-ERROR property=%s %s" % (pid, e))
        return 2
    except Exception:
        print("ANALYSIS-ERROR property=%s internal error:" % pid)
        traceback.print_exc(file=sys.stdout)
        return 2


if __name__ == "__main__":
    sys.exit(main())
