"""Projected path enumeration (DESIGN §2.2).

A Walker enumerates the syntactic paths of one root method of a View, splicing resolved self-calls, and
yields per path a tuple of abstract Events.  A rule configures:
  keep(ev)        which events stay on the path (projection onto the rule's alphabet)
  inline(call ev) which resolved self-calls are spliced (default: all, recursion cut)
  track(test)     which branch tests are recorded as GUARD events
Facts about *stable* guard atoms (configuration flags, literal arguments, attribute tests not yet
overwritten) are remembered along a path so that contradictory branch combinations are not explored.
After every statement the path set is deduplicated on (projected events, facts).
"""
import ast
import re

from . import guards
from .model import AnalysisError, is_inf_literal, unparse

PATH_LIMIT = 400000

# attributes of a node that are assigned in __init__ only (checked by C14/R1 `config-immutable`)
CONFIG_ATTRS = {"slotted", "schedule", "reneging", "dynamic_classes", "priority_preempt", "class_change",
                "server_priority_function", "service_discipline", "ps_threshold", "ps_capacity"}
PURE_BUILTINS = {"isinf", "len", "float", "int", "min", "max", "sum", "sorted", "range", "isinstance", "str",
                 "set", "list", "tuple", "enumerate", "zip", "abs", "any", "all", "Decimal", "print", "type",
                 "round", "dict", "reversed", "bool", "repr", "iter"}


class Frame:
    _count = 0

    def __init__(self, view, cls, func, parent=None, callsite=None):
        self.view, self.cls, self.func, self.parent, self.callsite = view, cls, func, parent, callsite
        self.fid = () if parent is None else parent.fid + ((callsite.lineno, callsite.col_offset, func.name),)
        self.depth = 0 if parent is None else parent.depth + 1
        self.tag = "" if parent is None else "__" + "_".join("%s%d" % (f[2][:3], f[0]) for f in self.fid)

    def stack(self):
        out, f = [], self
        while f is not None:
            out.append(f.func)
            f = f.parent
        return out

    @property
    def qual(self):
        return "%s.%s" % (self.cls.name if self.cls else "<module>", self.func.name)


class Event:
    __slots__ = ("kind", "node", "frame", "pol", "d", "_key")

    def __init__(self, kind, node, frame, pol=None, **d):
        self.kind, self.node, self.frame, self.pol, self.d = kind, node, frame, pol, d
        self._key = (kind, id(node), frame.fid, pol, d.get("it"))

    @property
    def line(self):
        return getattr(self.node, "lineno", 0)

    @property
    def where(self):
        m = getattr(self.node, "_module", None)
        return "%s:%s" % (m.rel if m else "?", self.line)

    @property
    def text(self):
        t = unparse(self.node)
        if self.kind == "guard":
            return ("" if self.pol else "not ") + "(" + t.split("\n")[0][:120] + ")"
        return t.split("\n")[0][:160]

    def __getattr__(self, k):
        try:
            return self.d[k]
        except KeyError:
            raise AttributeError(k)

    def __repr__(self):
        return "<%s %s @%s>" % (self.kind, self.text, self.where)


class State:
    __slots__ = ("events", "env", "facts", "status", "ret")

    def __init__(self, events=(), env=None, facts=None, status="normal", ret=None):
        self.events, self.env, self.facts, self.status, self.ret = events, env or {}, facts or {}, status, ret

    def fork(self, **kw):
        s = State(self.events, self.env, self.facts, self.status, self.ret)
        for k, v in kw.items():
            setattr(s, k, v)
        return s

    def key(self):
        # constant-valued locals drive later branch decisions, so they take part in the identity of a path;
        # other aliases deliberately do not (path explosion, DESIGN §2.2)
        consts = frozenset((k, v) for k, v in self.env.items()
                           if v is not None and (v in ("None", "True", "False") or v[0] in "'\"0123456789-"))
        return (tuple(e._key for e in self.events), self.status, frozenset(self.facts.items()), self.ret, consts)


_parse_cache = {}


def _parse_expr(s):
    if s not in _parse_cache:
        _parse_cache[s] = ast.parse(s, mode="eval").body
    return _parse_cache[s]


class _Canon(ast.NodeTransformer):
    def __init__(self, frame, env):
        self.frame, self.env = frame, env

    def visit_Name(self, n):
        if n.id == "self":
            return n
        k = (self.frame.fid, n.id)
        if k in self.env:
            v = self.env[k]
            if v is not None:
                return _parse_expr(v)
        if self.frame.tag and k in self.env:
            return ast.Name(id=n.id + self.frame.tag, ctx=ast.Load())
        if self.frame.tag and n.id in self.frame._locals:
            return ast.Name(id=n.id + self.frame.tag, ctx=ast.Load())
        return n

    def visit_Call(self, n):
        if is_inf_literal(n):
            return ast.Name(id="INF", ctx=ast.Load())
        k = ("call", id(n), self.frame.fid)
        if k in self.env and self.env[k] is not None:
            return _parse_expr(self.env[k])
        return self.generic_visit(n)

    def visit_Lambda(self, n):
        return n

    def visit_ListComp(self, n):
        return self._comp(n)

    visit_SetComp = visit_GeneratorExp = visit_DictComp = visit_ListComp

    def _comp(self, n):
        # comprehension targets shadow locals: leave them untouched
        bound = set()
        for g in n.generators:
            for t in ast.walk(g.target):
                if isinstance(t, ast.Name):
                    bound.add(t.id)
        saved = {}
        for b in bound:
            k = (self.frame.fid, b)
            if k in self.env:
                saved[k] = self.env[k]
        if saved:
            self.env = dict(self.env)
            for k in saved:
                del self.env[k]
        out = self.generic_visit(n)
        return out


_component_cache = {}


def _component(value, i):
    k = (id(value), i)
    if k not in _component_cache:
        n = ast.Subscript(value=value, slice=ast.Constant(value=i), ctx=ast.Load())
        ast.copy_location(n, value)
        ast.copy_location(n.slice, value)
        _component_cache[k] = n
    return _component_cache[k]


# fields holding plain values (dates, durations, class labels): a temporary stored into one of them can be named by the field afterwards
SCALAR_FIELDS = {"arrival_date", "exit_date", "service_start_date", "service_end_date", "reneging_date", "class_change_date", "next_end_service_date",
                 "date_last_update", "original_service_start_date", "service_time", "time_left", "original_service_time", "priority_class",
                 "prev_priority_class", "customer_class", "previous_class", "next_class", "original_class", "next_event_date", "next_event_type"}


def _pure_predicate(expr):
    """a comparison / boolean combination / isinf / isinstance test over access paths and constants (no other calls)"""
    if not (isinstance(expr, (ast.Compare, ast.BoolOp)) or (isinstance(expr, ast.UnaryOp) and isinstance(expr.op, ast.Not)) or
            (isinstance(expr, ast.Call) and isinstance(expr.func, ast.Name) and expr.func.id in ("isinf", "isinstance"))):
        return False
    for x in ast.walk(expr):
        if isinstance(x, ast.Call):
            if not (isinstance(x.func, ast.Name) and x.func.id in ("isinf", "isinstance", "float", "len")):
                return False
        if isinstance(x, (ast.Lambda, ast.ListComp, ast.GeneratorExp, ast.DictComp, ast.SetComp, ast.IfExp, ast.NamedExpr, ast.Await, ast.Yield)):
            return False
    return True


def _copy_expr(n):
    if isinstance(n, ast.Starred):
        return ast.Starred(value=_copy_expr(n.value), ctx=ast.Load())
    return ast.parse(ast.unparse(n), mode="eval").body


_locals_cache = {}
_aug_cache = {}
_calls_cache = {}
_loads_cache = {}


def func_locals(fn):
    if id(fn) not in _locals_cache:
        _locals_cache[id(fn)] = _func_locals(fn)
    return _locals_cache[id(fn)]


def _func_locals(fn):
    names = set(a.arg for a in fn.args.args + fn.args.kwonlyargs)
    if fn.args.vararg:
        names.add(fn.args.vararg.arg)
    if fn.args.kwarg:
        names.add(fn.args.kwarg.arg)
    def rec(n):
        if isinstance(n, (ast.ListComp, ast.SetComp, ast.DictComp, ast.GeneratorExp, ast.Lambda)):
            return          # comprehension / lambda variables are not function locals
        if isinstance(n, ast.Name) and isinstance(n.ctx, ast.Store):
            names.add(n.id)
        for c in ast.iter_child_nodes(n):
            rec(c)
    for st in fn.body:
        rec(st)
    names.discard("self")
    return names


_paren_cache = {}


def _needs_parens(text):
    """does `text` need parentheses when used as the base of an attribute / subscript?"""
    r = _paren_cache.get(text)
    if r is None:
        try:
            n = _parse_expr(text)
            r = not isinstance(n, (ast.Name, ast.Attribute, ast.Subscript, ast.Call, ast.List, ast.ListComp, ast.Dict, ast.Set, ast.Tuple,
                                   ast.DictComp, ast.SetComp)) and not (isinstance(n, ast.Constant) and isinstance(n.value, str))
            if isinstance(n, ast.Tuple):
                r = not text.startswith("(")
        except SyntaxError:
            r = True
        _paren_cache[text] = r
    return r


_gen_cache = {}


def _is_generator(fn):
    k = id(fn)
    if k not in _gen_cache:
        _gen_cache[k] = any(isinstance(n, (ast.Yield, ast.YieldFrom)) for n in ast.walk(fn))
    return _gen_cache[k]


ALIAS_TYPES = (ast.Name, ast.Attribute, ast.Subscript, ast.Constant)
_ATOMIC = re.compile(r"^[\w.\[\]'\"()]+$|^[^ ]+$")


class Walker:
    def __init__(self, program, view, keep=None, inline=None, track=None, loop_iters=(0, 1), max_depth=10,
                 literal_args=None, record_stable_facts=True, extra_stable=None, reads=None, local_reads=False):
        self.program, self.view = program, view
        self.keep = keep or (lambda e: True)
        self.inline = inline or (lambda e: True)
        self.track = track or (lambda test, frame: False)
        self.loop_iters = loop_iters
        self.max_depth = max_depth
        self.literal_args = literal_args or {}
        self.record_stable_facts = record_stable_facts
        self.extra_stable = extra_stable
        self.reads = reads                  # predicate on self-attribute names whose loads are reported as `reads` events
        self.local_reads = local_reads      # also report loads of function locals (root frame only)
        self.npaths = 0
        self._lc = {}

    # ---- public ----------------------------------------------------------------------------
    def paths(self, mname, facts=None):
        r = self.view.resolve(mname)
        if r is None:
            raise AnalysisError("anchor method %s.%s not found" % (self.view.name, mname))
        return self.paths_of(r[0], r[1], facts)

    def paths_of(self, cls, fn, facts=None):
        frame = Frame(self.view, cls, fn)
        frame._locals = func_locals(fn)
        st = State(facts=dict(facts or {}))
        env = {}
        for p, v in self.literal_args.items():
            env[((), p)] = v
        st.env = env
        out = self.block(fn.body, [st], frame)
        res = []
        for s in out:
            if s.status in ("normal", "return", "raise"):
                res.append(s)
        res = self.dedupe(res)
        self.npaths += len(res)
        return res

    # ---- canonical expressions -----------------------------------------------------------------
    def canon(self, expr, frame, env):
        if expr is None:
            return "None"
        r = self._fast(expr, frame, env)
        if r is not None:
            return r
        t = _Canon(frame, env).visit(_copy_expr(expr))
        return ast.unparse(ast.fix_missing_locations(t))

    def _fast(self, n, frame, env):
        """string building for access paths / constants / simple calls; None -> use the general transformer"""
        if isinstance(n, ast.Name):
            if n.id == "self":
                return "self"
            k = (frame.fid, n.id)
            v = env.get(k)
            if v is not None:
                return v
            if frame.tag and (k in env or n.id in frame._locals):
                return n.id + frame.tag
            return n.id
        if isinstance(n, ast.Attribute):
            b = self._fast(n.value, frame, env)
            if b is None:
                return None
            if _needs_parens(b):
                b = "(" + b + ")"
            return b + "." + n.attr
        if isinstance(n, ast.Constant):
            return repr(n.value)
        if isinstance(n, ast.Subscript):
            b = self._fast(n.value, frame, env)
            i = self._fast(n.slice, frame, env)
            if b is None or i is None:
                return None
            if _needs_parens(b):
                b = "(" + b + ")"
            return "%s[%s]" % (b, i)
        if isinstance(n, ast.Call):
            if is_inf_literal(n):
                return "INF"
            k = ("call", id(n), frame.fid)
            if env.get(k) is not None:
                return env[k]
            if n.keywords and any(kw.arg is None for kw in n.keywords):
                return None
            f = self._fast(n.func, frame, env)
            if f is None:
                return None
            parts = []
            for a in n.args:
                if isinstance(a, ast.Starred):
                    return None
                x = self._fast(a, frame, env)
                if x is None:
                    return None
                parts.append(x)
            for kw in n.keywords:
                x = self._fast(kw.value, frame, env)
                if x is None:
                    return None
                parts.append("%s=%s" % (kw.arg, x))
            return "%s(%s)" % (f, ", ".join(parts))
        return None

    def alias_value(self, expr, frame, env):
        """canonical string if expr is alias-like (access path, constant, inf, inlined call result) else None"""
        if isinstance(expr, ast.UnaryOp) and isinstance(expr.op, ast.USub) and isinstance(expr.operand, ast.Constant) and isinstance(expr.operand.value, (int, float)):
            return "-%r" % expr.operand.value          # a negative numeric literal
        if isinstance(expr, ast.UnaryOp) and isinstance(expr.op, ast.UAdd) and isinstance(expr.operand, ast.Constant) and isinstance(expr.operand.value, (int, float)):
            return "%r" % expr.operand.value           # `+1`
        if isinstance(expr, ALIAS_TYPES) or is_inf_literal(expr):
            if isinstance(expr, ast.Subscript) and not isinstance(expr.slice, (ast.Constant, ast.Name, ast.Attribute, ast.UnaryOp, ast.BinOp, ast.Subscript)):
                # (a position looked up with `<list>.index(x)` is still a plain element access: `xs[[k(i) for i in xs].index(key)]`)
                sl = expr.slice
                if not (isinstance(sl, ast.Call) and isinstance(sl.func, ast.Attribute) and sl.func.attr == "index" and len(sl.args) == 1 and not sl.keywords
                        and isinstance(sl.args[0], (ast.Name, ast.Attribute, ast.Subscript, ast.Constant))):
                    return None
            return self.canon(expr, frame, env)
        if isinstance(expr, ast.Call):
            k = ("call", id(expr), frame.fid)
            if env.get(k) is not None:
                return env[k]
        if _pure_predicate(expr):
            return self.canon(expr, frame, env)       # a boolean temporary: named by the predicate it holds (dropped when an operand is written)
        return None

    # ---- statements ------------------------------------------------------------------------------
    def dedupe(self, states):
        seen, out = set(), []
        for s in states:
            k = s.key()
            if k not in seen:
                seen.add(k)
                out.append(s)
        if len(out) > PATH_LIMIT:
            raise AnalysisError("path limit exceeded (%d)" % len(out))
        return out

    def block(self, stmts, states, frame):
        done = []
        cur = states
        for st in stmts:
            nxt = []
            for s in cur:
                if s.status != "normal":
                    done.append(s)
                else:
                    nxt.append(s)
            if not nxt:
                cur = []
                break
            cur = self.dedupe(self.stmt(st, nxt, frame))
        return done + cur

    def emit(self, state, ev):
        if self.keep(ev):
            return state.fork(events=state.events + (ev,))
        return state

    def stmt(self, st, states, frame):
        if isinstance(st, ast.Expr):
            if isinstance(st.value, ast.Constant):
                return states
            return self.expr(st.value, states, frame)
        if isinstance(st, ast.Assign) and len(st.targets) == 1 and not isinstance(st.targets[0], ast.Name) and isinstance(st.value, ast.BinOp) \
                and isinstance(st.value.op, (ast.Add, ast.Sub)) and ast.unparse(st.value.left) == ast.unparse(st.targets[0]):
            # `x.f = x.f + k` is the same effect as `x.f += k`
            aug = ast.AugAssign(target=st.targets[0], op=st.value.op, value=st.value.right)
            ast.copy_location(aug, st)
            aug._module = getattr(st, "_module", None)
            aug._parent = getattr(st, "_parent", None)
            key = id(st)
            if key not in _aug_cache:
                _aug_cache[key] = aug
            return self.stmt(_aug_cache[key], states, frame)
        if isinstance(st, ast.Assign):
            # (`flag = a and b` evaluates b only when a holds, exactly like `if a and b:`)
            states = self.test_expr(st.value, states, frame) if isinstance(st.value, ast.BoolOp) else self.expr(st.value, states, frame)
            if self.reads is not None:
                for tgt in st.targets:
                    attrs, locs = self._loads(tgt, frame)
                    if attrs:
                        states = [self.emit(s, Event("reads", tgt, frame, attrs=tuple(attrs), locals=())) for s in states]
            out = []
            for s in states:
                for tgt in st.targets:
                    s = self.assign(s, tgt, st.value, st, frame)
                out.append(s)
            return out
        if isinstance(st, ast.AnnAssign):
            if st.value is None:
                return states
            states = self.expr(st.value, states, frame)
            return [self.assign(s, st.target, st.value, st, frame) for s in states]
        if isinstance(st, ast.AugAssign):
            states = self.expr(st.value, states, frame)
            if self.reads is not None or self.local_reads:
                load = _parse_expr(ast.unparse(st.target))
                attrs, locs = self._loads(load, frame)
                if attrs or locs:
                    states = [self.emit(s, Event("reads", st, frame, attrs=tuple(attrs), locals=tuple(locs))) for s in states]
            out = []
            for s in states:
                tc = self.canon(st.target, frame, s.env)
                ev = Event("aug", st, frame, target=tc, op=type(st.op).__name__, value=self.canon(st.value, frame, s.env),
                           value_node=st.value, target_node=st.target)
                s = self.emit(s, ev)
                s = self.kill(s, tc, frame, st.target)
                out.append(s)
            return out
        if isinstance(st, ast.Return):
            if st.value is not None:
                states = self.expr(st.value, states, frame)
            out = []
            for s in states:
                rv = self.alias_value(st.value, frame, s.env) if st.value is not None else "None"
                ev = Event("return", st, frame, value=rv, value_node=st.value, canon=self.canon(st.value, frame, s.env) if st.value is not None else "None")
                s = self.emit(s, ev)
                out.append(s.fork(status="return", ret=rv))
            return out
        if isinstance(st, ast.Raise):
            out = []
            for s in states:
                s = self.emit(s, Event("raise", st, frame))
                out.append(s.fork(status="raise"))
            return out
        if isinstance(st, ast.If):
            return self.if_(st, states, frame)
        if isinstance(st, ast.For):
            return self.for_(st, states, frame)
        if isinstance(st, ast.While):
            return self.while_(st, states, frame)
        if isinstance(st, ast.Pass):
            return states
        if isinstance(st, ast.Break):
            return [s.fork(status="break") for s in states]
        if isinstance(st, ast.Continue):
            return [s.fork(status="continue") for s in states]
        if isinstance(st, ast.Delete):
            out = []
            for s in states:
                for tgt in st.targets:
                    tc = self.canon(tgt, frame, s.env)
                    s = self.emit(s, Event("del", st, frame, target=tc, target_node=tgt))
                    s = self.kill(s, tc, frame, tgt)
                out.append(s)
            return out
        if isinstance(st, ast.Try):
            body = self.block(st.body, states, frame)
            out = list(body)
            for h in st.handlers:
                out += self.block(h.body, states, frame)
            if st.orelse:
                normal = [s for s in out if s.status == "normal"]
                rest = [s for s in out if s.status != "normal"]
                out = rest + self.block(st.orelse, normal, frame)
            if st.finalbody:
                normal = [s for s in out if s.status == "normal"]
                rest = [s for s in out if s.status != "normal"]
                out = rest + self.block(st.finalbody, normal, frame)
            return out
        if isinstance(st, ast.With):
            for it in st.items:
                states = self.expr(it.context_expr, states, frame)
            return self.block(st.body, states, frame)
        if isinstance(st, (ast.FunctionDef, ast.ClassDef, ast.Import, ast.ImportFrom, ast.Global, ast.Nonlocal)):
            return states
        if isinstance(st, ast.Assert):
            return self.expr(st.test, states, frame)
        raise AnalysisError("statement kind %s not supported at %s" % (type(st).__name__, getattr(st, "lineno", "?")))

    def assign(self, s, tgt, value, st, frame, component=False):
        if isinstance(tgt, (ast.Tuple, ast.List)):
            for i, el in enumerate(tgt.elts):
                sub = None
                if isinstance(value, (ast.Tuple, ast.List)) and len(value.elts) == len(tgt.elts):
                    sub = value.elts[i]
                elif value is not None and not isinstance(value, (ast.Tuple, ast.List)) and not any(isinstance(x, ast.Starred) for x in tgt.elts):
                    sub = _component(value, i)       # unpacking: the i-th component of the value
                s = self.assign(s, el, sub, st, frame, component=sub is not None and not isinstance(value, (ast.Tuple, ast.List)))
            return s
        if isinstance(tgt, ast.Starred):
            return self.assign(s, tgt.value, None, st, frame)
        av = self.alias_value(value, frame, s.env) if value is not None and not component else None
        vc = self.canon(value, frame, s.env) if value is not None else "?"
        if isinstance(tgt, ast.Name):
            name = tgt.id + frame.tag
            s = self.kill(s, name, frame, tgt)
            env = dict(s.env)
            env[(frame.fid, tgt.id)] = av
            s = s.fork(env=env)
            ev = Event("assign", st, frame, target=name, value=vc, alias=av, local=True, value_node=value, target_node=tgt)
            return self.emit(s, ev)
        tc = self.canon(tgt, frame, s.env)
        ev = Event("assign", st, frame, target=tc, value=vc, alias=av, local=False, value_node=value, target_node=tgt)
        s = self.emit(s, ev)
        s = self.kill(s, tc, frame, tgt)
        if isinstance(value, ast.Name) and isinstance(tgt, ast.Attribute) and value.id in getattr(frame, "_locals", ()) and not component:
            # `x.f = tmp`: from here on tmp and x.f hold the same value; name the local by the field it was stored into (until either is written)
            cur = s.env.get((frame.fid, value.id))
            params = {a.arg for a in frame.func.args.args}
            # only temporaries holding a looked-up value (`tmp = table[key]`), never parameters or locals that name an object
            scalar = tgt.attr in SCALAR_FIELDS
            stable = isinstance(cur, str) and re.fullmatch(r"self(\.\w+)+", cur) is not None      # self.now, self.simulation.current_time, ...: a better name already
            if value.id not in params and ((cur is None and scalar) or (isinstance(cur, str) and not stable and ("[" in cur or "(" in cur or scalar)
                                                                         and not cur.startswith(("'", '"')) and not re.fullmatch(r"True|False|None|-?[\d.]+|float\('inf'\)", cur))):
                env = dict(s.env)
                env[(frame.fid, value.id)] = tc
                s = s.fork(env=env)
        if isinstance(value, ast.Name) and isinstance(tgt, ast.Attribute) and isinstance(tgt.value, ast.Name) and tgt.value.id == "self" and not component \
                and frame.func.name == "__init__" and value.id in {a.arg for a in frame.func.args.args[1:]} \
                and (s.env.get((frame.fid, value.id)) is None or re.fullmatch(r"\w+", str(s.env.get((frame.fid, value.id))))) and _stored_once(frame.func, value.id):
            # a constructor keeps its argument: `self.simulation = simulation` -- afterwards the parameter and the field name the same object
            env = dict(s.env)
            env[(frame.fid, value.id)] = tc
            s = s.fork(env=env)
        return s

    def kill(self, s, tc, frame, tgt_node):
        """A write to access path tc: stale aliases become opaque, facts mentioning it are dropped."""
        if isinstance(tgt_node, ast.Name):
            pat = re.compile(r"(?<![\w.])%s(?![\w])" % re.escape(tgt_node.id + frame.tag))
            own = (frame.fid, tgt_node.id)
        else:
            pat = re.compile(r"(?<![\w.])%s(?![\w])" % re.escape(tc))
            own = None
        env = None
        for k, v in s.env.items():
            if k == own or (v is not None and isinstance(v, str) and pat.search(v)):
                if env is None:
                    env = dict(s.env)
                env[k] = None
                if k != own and v is not None and isinstance(k[1], str) and k[0] != "call" and k[0] != "frozen":
                    # the local keeps denoting the object it was bound to: remember that identity under its opaque name
                    tag = "" if not k[0] else "__" + "_".join("%s%d" % (f[2][:3], f[0]) for f in k[0])
                    env[("frozen", k[1] + tag)] = v
        if own is not None and own not in s.env:
            if env is None:
                env = dict(s.env)
            env[own] = None
        if env is not None:
            s = s.fork(env=env)
        facts = None
        for a in s.facts:
            if any(isinstance(x, str) and pat.search(x) for x in a[1:]):
                if self._is_config_atom(a):
                    continue
                if facts is None:
                    facts = dict(s.facts)
                del facts[a]
        if facts is not None:
            s = s.fork(facts=facts)
        return s

    # ---- expressions ---------------------------------------------------------------------------------
    def calls_in(self, expr):
        """Call nodes in evaluation order (inner before outer), not descending into lambdas."""
        c = _calls_cache.get(id(expr))
        if c is not None and c[0] is expr:
            return c[1]
        out = self._calls_in(expr)
        _calls_cache[id(expr)] = (expr, out)
        return out

    def _calls_in(self, expr):
        out = []

        def rec(n, incomp):
            if isinstance(n, ast.Lambda):
                return
            comp = incomp or isinstance(n, (ast.ListComp, ast.SetComp, ast.DictComp, ast.GeneratorExp))
            for c in ast.iter_child_nodes(n):
                rec(c, comp)
            if isinstance(n, ast.Call):
                out.append((n, incomp))
        rec(expr, False)
        return out

    def _loads(self, expr, frame):
        k = (id(expr), frame.depth == 0)
        c = self._lc.get(k)
        if c is not None and c[0] is expr:
            return c[1], c[2]
        attrs, locs = self._loads_uncached(expr, frame)
        self._lc[k] = (expr, attrs, locs)
        return attrs, locs

    def _loads_uncached(self, expr, frame):
        attrs, locs = [], []
        bound = set()
        for n in ast.walk(expr):
            if isinstance(n, ast.comprehension):
                for t in ast.walk(n.target):
                    if isinstance(t, ast.Name):
                        bound.add(t.id)
            elif isinstance(n, ast.Lambda):
                for a in n.args.args:
                    bound.add(a.arg)
        for n in ast.walk(expr):
            if isinstance(n, ast.Attribute) and isinstance(n.value, ast.Name) and n.value.id == "self" and isinstance(n.ctx, ast.Load):
                if self.reads is not None and self.reads(n.attr):
                    par = getattr(n, "_parent", None)
                    if isinstance(par, ast.Call) and par.func is n and self.view.resolve(n.attr) is not None:
                        continue        # a method call, not a data read
                    if n.attr not in attrs:
                        attrs.append(n.attr)
            elif self.local_reads and frame.depth == 0 and isinstance(n, ast.Name) and isinstance(n.ctx, ast.Load):
                if n.id in frame._locals and n.id not in bound and n.id not in locs:
                    locs.append(n.id)
        return attrs, locs

    def expr(self, expr, states, frame, reads=True):
        if reads and (self.reads is not None or self.local_reads):
            attrs, locs = self._loads(expr, frame)
            if attrs or locs:
                states = [self.emit(s, Event("reads", expr, frame, attrs=tuple(attrs), locals=tuple(locs))) for s in states]
        for call, incomp in self.calls_in(expr):
            nxt = []
            for s in states:
                nxt += self.call(call, s, frame, incomp)
            states = nxt
        # `(x := e)` inside an expression the normal forms left in place (a loop test): x is bound to e once the expression has been evaluated
        if any(isinstance(x, ast.NamedExpr) for x in ast.walk(expr)):
            for ne in _named_exprs(expr):
                states = [self.assign(s, ne.target, ne.value, ne, frame) for s in states]
        return states

    def resolve_self_call(self, call, frame, env=None):
        f = call.func
        if isinstance(f, ast.Name) and env is not None and frame.cls is not None:
            # a local bound to a bound method of self (h = self.m ... h())
            v = env.get((frame.fid, f.id))
            if isinstance(v, str):
                m = re.fullmatch(r"self\.(\w+)", v)
                if m and not self.view.is_property(m.group(1)):
                    return self.view.resolve(m.group(1))
            return None
        if (isinstance(f, ast.Call) and isinstance(f.func, ast.Name) and f.func.id == "getattr" and len(f.args) == 2 and not f.keywords
                and isinstance(f.args[0], ast.Name) and f.args[0].id == "self" and env is not None and frame.cls is not None):
            # getattr(self, name)() with `name` a local holding a string constant on this path
            nm = f.args[1]
            v = repr(nm.value) if isinstance(nm, ast.Constant) else env.get((frame.fid, nm.id)) if isinstance(nm, ast.Name) else None
            if isinstance(v, str):
                m = re.fullmatch(r"'(\w+)'|\"(\w+)\"", v)
                if m and not self.view.is_property(m.group(1) or m.group(2)):
                    return self.view.resolve(m.group(1) or m.group(2))
            return None
        if isinstance(f, ast.Attribute):
            if isinstance(f.value, ast.Name) and f.value.id == "self":
                if frame.cls is None:
                    return None
                return self.view.resolve(f.attr)
            if (isinstance(f.value, ast.Call) and isinstance(f.value.func, ast.Name) and f.value.func.id == "super"
                    and frame.cls is not None):
                return self.view.super_resolve(frame.cls, f.attr)
        return None

    def call(self, call, s, frame, incomp):
        f = call.func
        meth = f.attr if isinstance(f, ast.Attribute) else (f.id if isinstance(f, ast.Name) else None)
        recv = self.canon(f.value, frame, s.env) if isinstance(f, ast.Attribute) else None
        args = [self.canon(a, frame, s.env) for a in call.args]
        kw = {k.arg: self.canon(k.value, frame, s.env) for k in call.keywords if k.arg}
        target = self.resolve_self_call(call, frame, s.env)
        if target is not None and isinstance(f, (ast.Name, ast.Call)):
            meth, recv = target[1].name, "self"
        elif isinstance(f, ast.Name) and s.env.get((frame.fid, f.id)):
            al = s.env[(frame.fid, f.id)]
            if isinstance(al, str) and al.isidentifier() and "__" not in al:
                meth = al        # a local / parameter bound to a class or function name: the callee is that name
        if target is not None and self.view.is_property(meth):
            target = None
        ev = Event("call", call, frame, meth=meth, recv=recv, args=args, kw=kw, target=target, incomp=incomp,
                   selfcall=target is not None)
        if (target is not None and not incomp and frame.depth < self.max_depth
                and target[1] not in frame.stack() and not _is_generator(target[1]) and self.inline(ev)):
            return self.splice(call, s, frame, target, ev)
        s = self.emit(s, ev)
        # unknown callee may write attributes: forget non-configuration facts
        if not (isinstance(f, ast.Name) and f.id in PURE_BUILTINS) and meth not in ("append", "index", "get", "keys", "items", "values"):
            facts = {a: v for a, v in s.facts.items() if self._is_config_atom(a) or self._is_local_atom(a)}
            if len(facts) != len(s.facts):
                s = s.fork(facts=facts)
        return [s]

    def splice(self, call, s, frame, target, ev):
        cls, fn = target
        nf = Frame(self.view, cls, fn, parent=frame, callsite=call)
        nf._locals = func_locals(fn)
        env = dict(s.env)
        params = [a.arg for a in fn.args.args]
        if params and params[0] == "self":
            params = params[1:]
        defaults = fn.args.defaults
        dmap = {}
        for p, d in zip(params[len(params) - len(defaults):], defaults):
            dmap[p] = d
        bound = {}
        for p, a in zip(params, call.args):
            bound[p] = (a, frame)
        for k in call.keywords:
            if k.arg:
                bound[k.arg] = (k.value, frame)
        for p in params:
            if p in bound:
                a, fr = bound[p]
                env[(nf.fid, p)] = self.alias_value(a, fr, s.env)
            elif p in dmap:
                env[(nf.fid, p)] = self.alias_value(dmap[p], nf, {})
            else:
                env[(nf.fid, p)] = None
        s0 = self.emit(s.fork(env=env), Event("enter", call, frame, callee=nf.qual, meth=fn.name, args=ev.args, kw=ev.kw,
                                              recv="self", target=target))
        outs = self.block(fn.body, [s0], nf)
        res = []
        for o in outs:
            if o.status in ("normal", "return"):
                rv = o.ret if o.status == "return" else "None"
                env2 = {k: v for k, v in o.env.items() if k[0] != nf.fid}      # callee locals die with the frame
                env2[("call", id(call), frame.fid)] = rv
                facts2 = {a: v for a, v in o.facts.items() if not any(isinstance(x, str) and nf.tag in x for x in a[1:])}
                o2 = o.fork(status="normal", ret=None, env=env2, facts=facts2)
                o2 = self.emit(o2, Event("leave", call, frame, callee=nf.qual, meth=fn.name, value=rv))
                res.append(o2)
            elif o.status == "raise":
                res.append(o)
            else:
                raise AnalysisError("break/continue escaped %s" % nf.qual)
        return self.dedupe(res)

    # ---- branches --------------------------------------------------------------------------------------
    def _is_config_atom(self, a):
        txt = " ".join(x for x in a[1:] if isinstance(x, str))
        names = re.findall(r"self\.(\w+)", txt)
        if a[0] == "isinf" and a[1] == "self.c":
            return True
        others = re.findall(r"(?<![\w.])([A-Za-z_]\w*)", re.sub(r"self(\.\w+)+", "", re.sub(r"'[^']*'", "", txt)))
        others = [o for o in others if o not in ("None", "True", "False", "INF")]
        return bool(names) and not others and all(n in CONFIG_ATTRS for n in names) and "[" not in txt and "(" not in txt

    def _is_local_atom(self, a):
        return all("." not in x and "[" not in x and "(" not in x for x in a[1:] if isinstance(x, str))

    def _is_stable_atom(self, a):
        txt = [x for x in a[1:] if isinstance(x, str)]
        for x in txt:
            if "(" in x or "[" in x:
                return False
        if self.extra_stable is not None and not self.extra_stable(a):
            return False
        return True

    def _with_method_facts(self, f, facts):
        """a bound method `self.m` (a local aliased to it, after canonicalisation) is neither None nor false"""
        extra = None
        for a in guards.atoms(f):
            if a[0] in ("isnone", "truth") and isinstance(a[1], str) and re.fullmatch(r"'[^']+'|\"[^\"]+\"", a[1]) and a not in facts:
                # a non-empty string constant (a local holding one, after canonicalisation)
                if extra is None:
                    extra = dict(facts)
                extra[a] = (a[0] == "truth")
                continue
            if a[0] in ("isnone", "truth") and isinstance(a[1], str) and a[1].startswith("self.") and a[1][5:].isidentifier() and a not in facts:
                m = a[1][5:]
                if self.view is not None and self.view.resolve(m) is not None and not self.view.is_property(m):
                    if extra is None:
                        extra = dict(facts)
                    extra[a] = (a[0] == "truth")
        return extra if extra is not None else facts

    def branch(self, test, s, frame):
        """-> list of (state, polarity) feasible under the facts of s."""
        f = guards.norm(test, lambda e: self.canon(e, frame, s.env))
        v = guards.ev(f, self._with_method_facts(f, s.facts))
        out = []
        for pol in (True, False):
            if v is not None and v != pol:
                continue
            s2 = s
            if self.record_stable_facts:
                facts = dict(s.facts)
                tmp = {}
                guards.assume(f, pol, tmp)
                for a, val in tmp.items():
                    if self._is_stable_atom(a):
                        facts[a] = val
                if facts != s.facts:
                    s2 = s.fork(facts=facts)
            if self.track(test, frame):
                s2 = self.emit(s2, Event("guard", test, frame, pol=pol, formula=f))
            out.append((s2, pol))
        return out

    def test_expr(self, test, states, frame):
        """evaluate a branch test; operands of and/or that cannot be reached (short circuit) are not evaluated"""
        if isinstance(test, ast.BoolOp) and (self.reads is not None or self.local_reads):
            stop_on = isinstance(test.op, ast.Or)
            live = states
            done = []
            for v in test.values:
                live = self.test_expr(v, live, frame)
                nxt = []
                for s in live:
                    f = guards.norm(v, lambda e: self.canon(e, frame, s.env))
                    r = guards.ev(f, s.facts)
                    if r is not None and r == stop_on:
                        done.append(s)      # short circuit: the remaining operands are not evaluated
                    else:
                        nxt.append(s)
                live = nxt
                if not live:
                    break
            return done + live
        return self.expr(test, states, frame)

    def if_(self, st, states, frame):
        states = self.test_expr(st.test, states, frame)
        t_states, f_states = [], []
        for s in states:
            for s2, pol in self.branch(st.test, s, frame):
                (t_states if pol else f_states).append(s2)
        out = self.block(st.body, self.dedupe(t_states), frame) if t_states else []
        if st.orelse:
            out += self.block(st.orelse, self.dedupe(f_states), frame) if f_states else []
        else:
            out += f_states
        return out

    def for_(self, st, states, frame):
        states = self.expr(st.iter, states, frame)
        out = []
        maxit = max(self.loop_iters)
        cur = states
        for it in range(0, maxit + 1):
            if it in self.loop_iters:
                # leave the loop after `it` iterations
                for s in cur:
                    out.append(self.emit(s, Event("loopexit", st, frame, it=it, iters=it, iter=self.canon(st.iter, frame, s.env))))
            if it == maxit:
                break
            nxt = []
            for s in cur:
                itc = self.canon(st.iter, frame, s.env)
                s = self.emit(s, Event("iter", st, frame, it=it, iter=itc, target=unparse(st.target), iter_node=st.iter))
                s = self.assign(s, st.target, None, st, frame) if not isinstance(st.target, ast.Name) else self._bind_loopvar(s, st, frame)
                nxt.append(s)
            body = self.block(st.body, self.dedupe(nxt), frame)
            cur = []
            for s in body:
                if s.status in ("normal", "continue"):
                    cur.append(s.fork(status="normal"))
                elif s.status == "break":
                    out.append(self.emit(s.fork(status="normal"), Event("loopexit", st, frame, it=-1, iters=it + 1, iter=self.canon(st.iter, frame, s.env))))
                else:
                    out.append(s)
            cur = self.dedupe(cur)
        if st.orelse:
            raise AnalysisError("for-else not supported at line %d" % st.lineno)
        return self.dedupe(out)

    def _bind_loopvar(self, s, st, frame):
        return self.kill(s, st.target.id + frame.tag, frame, st.target)

    def while_(self, st, states, frame):
        out = []
        maxit = max(self.loop_iters)
        cur = states
        const_true = isinstance(st.test, ast.Constant) and bool(st.test.value)
        for it in range(0, maxit + 1):
            cur = self.expr(st.test, cur, frame)
            if it == maxit:
                # abstractly leave after maxit iterations -- unless the test is known to hold (then the path goes on looping)
                if not const_true:
                    for s in cur:
                        for s2, pol in self.branch(st.test, s, frame):
                            if not pol:
                                out.append(self.emit(s2, Event("loopexit", st, frame, it=it, iters=it)))
                break
            t_states = []
            for s in cur:
                for s2, pol in self.branch(st.test, s, frame):
                    if pol:
                        t_states.append(s2)
                    elif it in self.loop_iters:
                        out.append(self.emit(s2, Event("loopexit", st, frame, it=it, iters=it)))
            nxt = [self.emit(s, Event("iter", st, frame, it=it, iter=None, target=None, iter_node=None)) for s in t_states]
            body = self.block(st.body, self.dedupe(nxt), frame)
            cur = []
            for s in body:
                if s.status in ("normal", "continue"):
                    cur.append(s.fork(status="normal"))
                elif s.status == "break":
                    out.append(self.emit(s.fork(status="normal"), Event("loopexit", st, frame, it=-1, iters=it + 1)))
                else:
                    out.append(s)
            cur = self.dedupe(cur)
        return self.dedupe(out)


def _stored_once(fn, name):
    """the parameter `name` of fn is never rebound and is stored into exactly one attribute of self"""
    if any(isinstance(x, ast.Name) and x.id == name and isinstance(x.ctx, (ast.Store, ast.Del)) for x in ast.walk(fn)):
        return False
    n = sum(1 for x in ast.walk(fn) if isinstance(x, ast.Assign) and isinstance(x.value, ast.Name) and x.value.id == name
            and any(isinstance(t, ast.Attribute) for t in x.targets))
    return n == 1


def _named_exprs(expr):
    """assignment expressions evaluated by expr itself (not those inside lambdas or comprehensions, which have their own scope or evaluation time)"""
    out = []
    def rec(n):
        if isinstance(n, (ast.Lambda, ast.ListComp, ast.GeneratorExp, ast.DictComp, ast.SetComp)):
            return
        for c in ast.iter_child_nodes(n):
            rec(c)
        if isinstance(n, ast.NamedExpr):
            out.append(n)
    rec(expr)
    return out


def show_path(state, maxlen=12):
    parts = []
    for e in state.events:
        if e.kind in ("enter", "leave", "loopexit", "iter"):
            continue
        parts.append(e.text)
    if len(parts) > maxlen:
        parts = parts[:maxlen // 2] + ["..."] + parts[-maxlen // 2:]
    return " -> ".join(parts)
