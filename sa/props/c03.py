"""C03 Journey continuity (DESIGN §4 C03): destination agreement, one terminal record per departure written before
the reset and the hand-over, baulk/rejection terminal and alone, data_records append-only."""
import ast

from .. import rules
from ..model import AnalysisError, call_name, loc, unparse
from ..paths import Walker
from ..rules import family_views, listop, witness, facts_text

EXPLANATION = (
    "Static analysis of the departure methods of all Node-family views and of the arrival hand-over: on every path the node whose id is "
    "stored in individual.destination is the very object the customer is then released / blocked / rerouted to, release hands the customer "
    "to its own next_node parameter, the unblocking node passes itself, destination is written only by the listed methods and a queue entry "
    "is removed whenever it is cleared early; every departure writes exactly one terminal record (service / interrupted-with-destination / "
    "renege) before the attributes are reset and before accept(); baulk/rejection paths write exactly one record and go to the exit, admitted "
    "paths write none; data_records is only ever appended to, by the four writers. exit_date and the next arrival_date are both `now` of the "
    "same event. Record values of a run are not inspected.")
RULE = "instances = departure/hand-over call sites and record writers found on the tree, evaluated on all paths of all views"

EXIT = "self.simulation.nodes[-1]"
RECORDERS = ("write_individual_record", "write_interruption_record", "write_reneging_record", "write_baulking_or_rejection_record")


def check(ctx):
    P = ctx.program
    iters = (0, 1)
    views = family_views(P, "Node")
    destination_agreement(ctx, P, views, iters)
    destination_writers(ctx, P, views, iters)
    terminal_records(ctx, P, views, iters)
    arrival_terminal(ctx, P, iters)
    records_append_only(ctx, P)
    same_instant(ctx, P, views, iters)
    # a stale or wrong entry in a destination's blocked_queue sends a later customer to a node its record does not name (shared instances)
    from . import c07, c01
    c07.fifo(ctx, P, views, iters)
    c01.no_touch_after_handover(ctx, P, views, iters)
    ctx.assume("in-repo routers return elements of simulation.nodes (C09)")


def _kw_or_pos(e, name, pos):
    if name in e.d["kw"]:
        return e.d["kw"][name]
    return e.d["args"][pos] if len(e.d["args"]) > pos else None


def destination_agreement(ctx, P, views, iters):
    ob = ctx.ob("DEST", "the node recorded as destination is the node object the customer is handed / blocked / rerouted to, on every path")
    done = set()

    def viol(cls, m, construct, reason, msg, where, st):
        if (cls.name, m, reason) in done:
            return
        done.add((cls.name, m, reason))
        ctx.violation(ob, "R8.destination", "%s.%s" % (cls.name, m), construct, reason, msg, where, witness(st))

    for view in views:
        # finish_service and renege: assign X.destination = N.id_number, then hand X to N
        for root, sinks in (("finish_service", ("release", "block_individual")), ("renege", ("accept",))):
            cls, fn = view.method(root)

            def keep(e, sinks=sinks):
                if e.kind == "assign" and not e.d.get("local"):
                    return e.d["target"].endswith(".destination")
                return e.kind == "call" and (e.d["meth"] in sinks or e.d["meth"] in RECORDERS)
            w = Walker(P, view, keep=keep, inline=lambda ev: ev.d["meth"] not in ("release", "block_individual", "reset_individual_attributes") + RECORDERS, loop_iters=iters)
            nsink = 0
            for st in w.paths_of(cls, fn):
                if st.status == "raise":
                    continue
                dest = {}
                for e in st.events:
                    if e.kind == "assign":
                        tok = e.d["target"][: -len(".destination")]
                        v = e.d["value"]
                        dest[tok] = v[: -len(".id_number")] if v.endswith(".id_number") else "?" + v
                    elif e.d["meth"] in sinks:
                        nsink += 1
                        if e.d["meth"] == "accept":
                            tok, node = (e.d["args"] + ["?"])[0], e.d["recv"]
                        else:
                            tok, node = (e.d["args"] + ["?", "?"])[0], (e.d["args"] + ["?", "?"])[1]
                        ob.ok("%s.%s:%s->%s" % (view.name, root, e.d["meth"], node), "%s.%s: destination=%s.id_number then %s(%s, %s)" % (view.name, root, dest.get(tok), e.d["meth"], tok, node))
                        if dest.get(tok) != node:
                            viol(cls, root, "%s towards %s, destination recorded from %s" % (e.d["meth"], node, dest.get(tok, "nothing")),
                                 "destination-mismatch", "the customer is handed to %s but its recorded destination comes from %s" % (node, dest.get(tok, "no assignment on this path")),
                                 e.where, st)
                    elif e.d["meth"] in RECORDERS and root == "renege":
                        tok = (e.d["args"] + ["?"])[0]
                        if tok not in dest:
                            viol(cls, root, e.text, "record-before-destination", "the renege record reads individual.destination before it is assigned on this path", e.where, st)
            if not nsink:
                ctx.unrecognised("DEST: no hand-over found on the paths of %s.%s" % (view.name, root))
        # release: hand-over to the next_node parameter
        cls, fn = view.method("release")
        params = [a.arg for a in fn.args.args][1:]
        w = Walker(P, view, keep=lambda e: e.kind == "call" and e.d["meth"] == "accept" and not e.d.get("selfcall"),
                   inline=lambda ev: ev.d["meth"] != "release_blocked_individual", loop_iters=iters)
        for st in w.paths_of(cls, fn):
            for e in st.events:
                ob.ok("%s.release:accept" % view.name, "%s.release: %s" % (view.name, e.text))
                if len(params) < 2 or e.d["recv"] != params[1] or (e.d["args"] + ["?"])[0] != params[0]:
                    viol(cls, "release", e.text, "handed-elsewhere", "release(ind, next_node) must hand ind to next_node.accept", e.where, st)
        # reroute: same node in the interruption record and in the release
        r = view.resolve("reroute")
        if r is None:
            ctx.unrecognised("DEST: reroute not found")
        else:
            cls, fn = r
            w = Walker(P, view, keep=lambda e: e.kind == "call" and e.d["meth"] in ("write_interruption_record", "release"), inline=rules.new_helper, loop_iters=iters)
            for st in w.paths_of(cls, fn):
                rec = [e for e in st.events if e.d["meth"] == "write_interruption_record"]
                rel = [e for e in st.events if e.d["meth"] == "release"]
                if st.status == "raise":
                    continue
                ob.ok("%s.reroute" % view.name, "%s.reroute: %s" % (view.name, " ; ".join(x.text for x in st.events)))
                if len(rec) != 1 or len(rel) != 1:
                    viol(cls, "reroute", "%d records, %d releases" % (len(rec), len(rel)), "reroute-shape", "reroute must write one interruption record and release once", loc(fn), st)
                    continue
                d = _kw_or_pos(rec[0], "destination", 1)
                node = _kw_or_pos(rel[0], "next_node", 1)
                if d != "%s.id_number" % node:
                    viol(cls, "reroute", "record destination=%s, release to %s" % (d, node), "destination-mismatch",
                         "the interruption record names %s but the customer is released to %s" % (d, node), rec[0].where, st)
                if st.events.index(rec[0]) > st.events.index(rel[0]):
                    viol(cls, "reroute", "record after release", "record-after-handover", "the interruption record must be written before the hand-over resets the fields it reads", rec[0].where, st)


def destination_writers(ctx, P, views, iters):
    ob = ctx.ob("DWR", "Individual.destination is written only by finish_service / renege / reset / interrupted-restart; an early clear removes the blocked-queue entry on the same path")
    allowed = {"finish_service", "renege", "reset_individual_attributes", "begin_interrupted_individuals_service", "__init__"}
    n = 0
    for ci, fn, node, recv, how in rules.attr_writes(P, "destination"):
        n += 1
        ob.seen(rules.qual(ci, fn))
        if not (rules.effective_names(P, ci, fn) & allowed) and not (ci and _helper_of(P, ci, fn, allowed)):
            ctx.violation(ob, "R1.destination-writer", rules.qual(ci, fn), unparse(node), "extra-writer",
                          "destination written outside the methods that fix / clear it (a blocked customer must keep its destination until released)", loc(node))
    ctx.floor("writes of destination", n, 4)
    for view in views:
        for m in view.methods():
            if m in ("reset_individual_attributes", "__init__"):
                continue
            cls, fn = view.resolve(m)
            clears = [x for x in ast.walk(fn) if isinstance(x, ast.Assign) and isinstance(x.targets[0], ast.Attribute)
                      and x.targets[0].attr == "destination" and unparse(x.value) == "False"]
            if not clears:
                continue

            def keep(e):
                if e.kind == "assign":
                    return e.d["target"].endswith(".destination") and e.d["value"] == "False"
                lo = listop(e) if e.kind == "call" else None
                return bool(lo and lo[2] == "blocked_queue" and lo[0] == "rem")
            w = Walker(P, view, keep=keep, inline=rules.new_helper, loop_iters=iters)
            for st in w.paths_of(cls, fn):
                if any(e.kind == "assign" for e in st.events):
                    ob.ok("%s.%s:clear" % (cls.name, m))
                    if not any(e.kind == "call" for e in st.events):
                        ctx.violation(ob, "R8.destination", "%s.%s" % (cls.name, m), "destination = False", "cleared-while-queued",
                                      "destination cleared although the customer's blocked-queue entry is not removed on this path", loc(clears[0]), witness(st))


def _helper_of(P, ci, fn, allowed):
    for c in P.subclasses(ci.name):
        v = P.view(c)
        callers = rules.self_callers(v, fn.name)
        if callers and all(x in allowed for x in callers) and not rules.externally_called(P, fn.name):
            return True
    return False


def terminal_records(ctx, P, views, iters):
    ob = ctx.ob("REC1", "each departure writes exactly one terminal record, before reset_individual_attributes and before accept()")
    done = set()
    for view in views:
        for root, lits, want in (("release", {"reroute": "False"}, "write_individual_record"), ("release", {"reroute": "True"}, None),
                                 ("renege", {}, "write_reneging_record")):
            cls, fn = view.method(root)
            w = Walker(P, view, keep=lambda e: e.kind == "call" and (e.d["meth"] in RECORDERS + ("reset_individual_attributes",) or (e.d["meth"] == "accept" and not e.d.get("selfcall"))),
                       inline=lambda ev: ev.d["meth"] not in RECORDERS + ("reset_individual_attributes", "release_blocked_individual"),
                       literal_args=lits, loop_iters=iters)
            for st in w.paths_of(cls, fn):
                if st.status == "raise":
                    continue
                ms = [e.d["meth"] for e in st.events]
                recs = [m for m in ms if m in RECORDERS]
                label = "%s%s" % (root, "[reroute]" if lits.get("reroute") == "True" else "")
                ob.ok("%s.%s:%s" % (view.name, label, ">".join(ms)), "%s.%s: %s" % (view.name, label, " -> ".join(ms)))
                problems = []
                if want is None:
                    if recs:
                        problems.append(("record-on-reroute", "release(reroute=True) must not write a second record (reroute already wrote the interruption record)"))
                else:
                    if recs != [want]:
                        problems.append(("not-exactly-one-record", "expected exactly one %s, found %s" % (want, recs or "none")))
                    else:
                        i = ms.index(want)
                        if "reset_individual_attributes" in ms and ms.index("reset_individual_attributes") < i:
                            problems.append(("record-after-reset", "the record is written after reset_individual_attributes cleared the fields it reads"))
                        if "accept" in ms and ms.index("accept") < i:
                            problems.append(("record-after-handover", "the record is written after the customer was handed to the next node"))
                if "accept" in ms and "reset_individual_attributes" in ms and ms.index("accept") < ms.index("reset_individual_attributes"):
                    problems.append(("reset-after-handover", "attributes reset after accept(): the next node's arrival data would be wiped"))
                for reason, msg in problems:
                    if (cls.name, label, reason) in done:
                        continue
                    done.add((cls.name, label, reason))
                    ctx.violation(ob, "R4.terminal-record", "%s.%s" % (cls.name, label), " -> ".join(ms), reason, msg, loc(fn), witness(st))
        # preempt (non-reroute) / interrupt_service: interruption record before the fields it reads are clobbered -> C11
    return


def arrival_terminal(ctx, P, iters):
    ob = ctx.ob("ARRT", "arrival: a baulk/rejection path writes exactly one record and goes to the exit; an admitted path writes none")
    done = set()
    for view in family_views(P, "ArrivalNode"):
        cls, fn = view.method("release_individual")
        w = Walker(P, view, keep=lambda e: e.kind == "call" and e.d["meth"] in ("accept",) + RECORDERS, loop_iters=iters)
        for st in w.paths_of(cls, fn):
            if st.status == "raise":
                continue
            recs = [e for e in st.events if e.d["meth"] in RECORDERS]
            acc = [e for e in st.events if e.d["meth"] == "accept"]
            ob.ok("%s:%d:%s" % (view.name, len(recs), acc[0].d["recv"] if acc else "-"), "%s.release_individual: %s" % (view.name, " -> ".join(x.text[:50] for x in st.events)))
            reason = None
            if len(acc) != 1:
                reason = "not-one-handover"
            elif acc[0].d["recv"] == EXIT and len(recs) != 1:
                reason = "exit-without-single-record"
            elif acc[0].d["recv"] != EXIT and recs:
                reason = "record-on-admission"
            elif recs and st.events.index(recs[0]) > st.events.index(acc[0]) and acc[0].d["recv"] != EXIT:
                reason = "record-after-handover"      # (at the exit the order is free: ExitNode.accept does not touch the customer's fields)
            if reason and (cls.name, reason) not in done:
                done.add((cls.name, reason))
                ctx.violation(ob, "R4.terminal-record", "%s.release_individual" % cls.name, " -> ".join(x.d["meth"] for x in st.events), reason,
                              "baulk/rejection must be (one record, then exit) and admission must be record-free", loc(fn), witness(st))


def records_append_only(ctx, P):
    ob = ctx.ob("RAPP", "data_records is only appended to (tail), only by the four record writers")
    n = 0
    for ci, fn, node, recv, how in rules.attr_writes(P, "data_records"):
        n += 1
        q = rules.qual(ci, fn)
        ob.seen(q)
        if how == "assign" and "__init__" in rules.effective_names(P, ci, fn):
            continue
        if how != "append":
            ctx.violation(ob, "R1.records-append-only", q, unparse(node), "not-append", "data_records must only grow at the tail (list order is journey order)", loc(node))
        elif not (rules.effective_names(P, ci, fn) & set(RECORDERS)):
            ctx.violation(ob, "R1.records-append-only", q, unparse(node), "extra-writer", "records appended outside the record writers", loc(node))
    ctx.floor("data_records writes", n, 2)
    k = 0
    for view in family_views(P, "Node"):
        for m in RECORDERS:
            r = view.resolve(m)
            if r is None:
                continue
            if any(isinstance(x, ast.Call) and isinstance(x.func, ast.Attribute) and x.func.attr == "append" and isinstance(x.func.value, ast.Attribute) and x.func.value.attr == "data_records"
                   for x in rules.walk(P, view, r[1])):
                k += 1
            else:
                ctx.violation(ob, "R1.records-append-only", "%s.%s" % (r[0].name, m), "data_records.append", "writer-without-append", "the record writer does not append a record", loc(r[1]))
    ctx.floor("record writers appending to data_records", k, 4)


def same_instant(ctx, P, views, iters):
    ob = ctx.ob("INST", "exit_date (release, renege) and the next arrival_date (accept path) are both self.now of the same event")
    for view in views:
        for root, field in (("release", "exit_date"), ("renege", "exit_date"), ("accept", "arrival_date")):
            cls, fn = view.method(root)
            tokp = [a.arg for a in fn.args.args][1] if len(fn.args.args) > 1 else None
            w = Walker(P, view, keep=lambda e, field=field: e.kind == "assign" and e.d["target"].endswith("." + field) and e.d["value"] != "False",
                       inline=lambda ev: ev.d["meth"] not in ("release_blocked_individual", "reset_individual_attributes", "decide_preempt"), loop_iters=iters)
            for st in w.paths_of(cls, fn):
                if st.status == "raise":
                    continue
                vals = [e.d["value"] for e in st.events]
                ob.ok("%s.%s:%s" % (view.name, root, ",".join(vals)))
                if not vals or any(v != "self.now" for v in vals):
                    bad = [e for e in st.events if e.d["value"] != "self.now"]
                    ctx.violation(ob, "R7.same-instant", "%s.%s" % (cls.name, root), "%s = %s" % (field, vals or "never assigned"), "not-now",
                                  "%s must be the clock of the event (records of consecutive visits must chain without gap)" % field,
                                  bad[0].where if bad else loc(fn), witness(st))
                    break
