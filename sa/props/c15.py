"""C15 Reproducibility -- structural clauses (DESIGN §4 C15): random sources within the two seeded streams (R10), isolation of stateful
objects borrowed from the Network, no run-time process-global state."""
import ast

from .. import rules, scans
from ..callgraph import callgraph
from ..model import AnalysisError, call_name, loc, unparse, is_self_attr
from ..rules import family_views

EXPLANATION = (
    "Static effect analysis over the whole package: every randomness source is the stdlib module-global `random` (direct or from-import) or `ciw.rng` looked up at call time, "
    "both re-seeded by ciw.seed; there is no private Random()/default_rng() outside seed and the package initialiser, no os.urandom/secrets/uuid/time source, no id()/hash() "
    "dependent value, no iteration over a set; rng is never bound by `from ciw import rng`. Isolation: every Network field that can hold an object with run-time state (classes "
    "whose methods other than the constructor write self.* or that own an iterator: computed from the source) is, at each site where a Simulation or node reads it, wrapped in "
    "copy.deepcopy(...) or re-initialised by an initialise() that re-assigns every run-time-state attribute. No module-level state is written at run time except ciw.rng (by seed) "
    "and the decimal precision (by an exact Simulation's constructor). Bit-identical floats then follow from CPython determinism, which is not analysed.")
EXPLANATION += (" Added later: " 'the precision write does not depend on the precision found in the process.')
RULE = "instances = random-source call sites of the package, borrow sites of Network fields, module-level writes"

NETWORK_FIELDS = {"arrival_distributions": "Distribution", "service_distributions": "Distribution", "batching_distributions": "Distribution",
                  "reneging_time_distributions": "Distribution", "class_change_time_distributions": "Distribution", "routing": "NetworkRouting|NodeRouting",
                  "number_of_servers": "Schedule"}


def check(ctx):
    P = ctx.program
    sources(ctx, P)
    isolation(ctx, P)
    orders(ctx, P)
    globals_(ctx, P)
    keyed_tables(ctx, P)
    ctx.assume("user-supplied callables (baulking functions, routing functions, custom distributions) are deterministic given the two streams")
    ctx.assume("Schedule.initialise() re-initialises the shared object: sufficient for sequential reuse; two live simulations sharing one schedule are outside the property's wording")


def sources(ctx, P):
    ob = ctx.ob("SRC", "random sources are the global `random` module or ciw.rng (call-time lookup); seed re-seeds both; no other nondeterminism source")
    G = callgraph(P)
    n = 0
    for q, lst in sorted(G.sources.items()):
        for kind, text, node in lst:
            n += 1
            ob.ok("%s:%s" % (q, kind), "%s: %s" % (q, text[:70]))
            if kind.startswith("random.") and kind != "random.seed":
                continue
            if kind.startswith("ciw.rng."):
                continue
            if q == "seed" and (kind == "random.seed" or kind.startswith("numpy-random:np.random.default_rng")):
                continue
            ctx.violation(ob, "R10.random-source", q, text[:100], "unseeded-source",
                          "`%s` is not one of the two streams that ciw.seed re-seeds (global random module, ciw.rng): results would not be reproducible from the seed" % kind, loc(node))
    ctx.floor("random source call sites", n, 15)
    # module-level code: only the package initialiser may create ciw.rng
    for m in P.modules.values():
        for st in m.tree.body:
            if isinstance(st, (ast.FunctionDef, ast.ClassDef)):
                continue
            for x in ast.walk(st):
                if isinstance(x, ast.Call) and call_name(x) in ("default_rng", "Random", "SystemRandom", "RandomState"):
                    ob.ok("module:%s" % m.name, unparse(st)[:60])
                    if not (m.name == "ciw" and isinstance(st, ast.Assign) and unparse(st.targets[0]) == "rng"):
                        ctx.violation(ob, "R10.random-source", m.name, unparse(st)[:100], "private-generator", "a generator created at import time is not re-seeded by ciw.seed", loc(st))
            if isinstance(st, ast.ImportFrom) and any(a.name == "rng" for a in st.names):
                ctx.violation(ob, "R10.random-source", m.name, unparse(st), "rng-bound-at-import", "`from ... import rng` binds the generator object at import time; ciw.seed replaces ciw.rng, so this copy is never re-seeded", loc(st))
            if isinstance(st, (ast.Import, ast.ImportFrom)):
                names = [a.name for a in st.names] + ([st.module] if isinstance(st, ast.ImportFrom) and st.module else [])
                for bad in ("secrets", "uuid"):
                    if bad in names:
                        ctx.violation(ob, "R10.random-source", m.name, unparse(st), "nondeterministic-import", "module %s is a nondeterminism source" % bad, loc(st))
    # seed() re-seeds both streams
    fn = P.functions.get(("ciw.auxiliary", "seed"))
    if fn is None:
        raise AnalysisError("ciw.auxiliary.seed not found")
    s = unparse(fn).replace(" ", "")
    z = fn.args.args[0].arg
    ob.ok("seed", "random.seed(%s); ciw.rng = np.random.default_rng(seed=%s)" % (z, z))
    if "random.seed(%s)" % z not in s or "ciw.rng=np.random.default_rng(seed=%s)" % z not in s:
        ctx.violation(ob, "R10.random-source", "seed", "random.seed(z); ciw.rng = default_rng(seed=z)", "seed-incomplete", "ciw.seed must re-seed both streams from its argument", loc(fn))
    # id()/hash()/set iteration
    for ci, fn in P.all_functions():
        for x in ast.walk(fn):
            if isinstance(x, ast.Call) and isinstance(x.func, ast.Name) and x.func.id in ("id", "hash") and x.func.id not in [a.arg for a in fn.args.args]:
                ctx.violation(ob, "R10.random-source", P.func_name(fn), unparse(x), "address-dependent", "id()/hash() values vary between processes", loc(x))
            its = []
            if isinstance(x, ast.For):
                its.append(x.iter)
            if isinstance(x, ast.comprehension):
                its.append(x.iter)
            for it in its:
                if isinstance(it, (ast.Set, ast.SetComp)) or (isinstance(it, ast.Call) and isinstance(it.func, ast.Name) and it.func.id in ("set", "frozenset")):
                    ctx.violation(ob, "R10.random-source", P.func_name(fn), unparse(it)[:80], "set-iteration", "iteration order of a set of strings depends on hash randomisation", loc(it))


def stateful_attrs(P, cname):
    """run-time state of class cname: attributes written by methods other than __init__/initialise, or holding an iterator consumed by next()"""
    view = P.view(cname)
    state = set()
    for m in view.methods():
        cls, fn = view.resolve(m)
        if (cname, m) == ("Slotted", "get_next_shift"):
            from ..config import contexts
            if not any(v["SLOTTED"] for v in contexts(P, P.view("Node")).reachable("change_shift")):
                continue        # inherited but never called on a Slotted: change_shift is unreachable for slotted configurations (verified)
        for x in ast.walk(fn):
            tgts = []
            if isinstance(x, ast.Assign):
                tgts = x.targets
            elif isinstance(x, ast.AugAssign):
                tgts = [x.target]
            for t in tgts:
                for tt in (t.elts if isinstance(t, ast.Tuple) else [t]):
                    if is_self_attr(tt) and m not in ("__init__", "initialise", "error_check_at_initialise"):
                        state.add(tt.attr)
            if isinstance(x, ast.Call) and isinstance(x.func, ast.Name) and x.func.id == "next" and x.args and is_self_attr(x.args[0]):
                state.add(x.args[0].attr)
            if isinstance(x, ast.Call) and isinstance(x.func, ast.Attribute) and x.func.attr in ("pop", "append", "remove", "insert", "extend", "clear", "update", "setdefault", "sort", "reverse") \
                    and is_self_attr(x.func.value):
                state.add(x.func.value.attr)
            # an element of a container attribute is written: self.table[k] = v / self.table[k] += v
            for t in tgts:
                if isinstance(t, ast.Subscript) and is_self_attr(t.value) and m not in ("__init__", "initialise", "error_check_at_initialise"):
                    state.add(t.value.attr)
        # a parameter is modified in place (p[i] = v, p[i] += v, p.append(..)) and a call inside the class passes one of the object's own containers for it
        params = [a.arg for a in fn.args.args][1:]
        mutated = set()
        for x in ast.walk(fn):
            tg = x.targets if isinstance(x, ast.Assign) else [x.target] if isinstance(x, ast.AugAssign) else []
            for t in tg:
                if isinstance(t, ast.Subscript) and isinstance(t.value, ast.Name) and t.value.id in params:
                    mutated.add(t.value.id)
            if isinstance(x, ast.Call) and isinstance(x.func, ast.Attribute) and x.func.attr in ("pop", "append", "remove", "insert", "extend", "clear", "sort", "reverse") \
                    and isinstance(x.func.value, ast.Name) and x.func.value.id in params:
                mutated.add(x.func.value.id)
        if mutated:
            for m2 in view.methods():
                for c_ in ast.walk(view.resolve(m2)[1]):
                    if isinstance(c_, ast.Call) and isinstance(c_.func, ast.Attribute) and unparse(c_.func.value) == "self" and c_.func.attr == m:
                        for i_, a_ in enumerate(c_.args):
                            if i_ < len(params) and params[i_] in mutated and is_self_attr(a_):
                                state.add(a_.attr)
                        for k_ in c_.keywords:
                            if k_.arg in mutated and is_self_attr(k_.value):
                                state.add(k_.value.attr)
    state -= {"simulation", "node"}     # back-references set by Simulation when it adopts the object
    return state


def reinitialised(P, cname, state):
    view = P.view(cname)
    r = view.resolve("initialise")
    if r is None:
        return False
    assigned = set()
    seen, todo = set(), [r[1]]
    while todo:
        f = todo.pop()
        if id(f) in seen:
            continue
        seen.add(id(f))
        for x in ast.walk(f):
            if isinstance(x, ast.Assign):
                for t in x.targets:
                    for tt in (t.elts if isinstance(t, ast.Tuple) else [t]):
                        if is_self_attr(tt):
                            assigned.add(tt.attr)
            if isinstance(x, ast.Call) and isinstance(x.func, ast.Attribute) and isinstance(x.func.value, ast.Name) and x.func.value.id == "self":
                rr = view.resolve(x.func.attr)
                if rr:
                    todo.append(rr[1])
    return state <= assigned


def isolation(ctx, P):
    ob = ctx.ob("ISO", "each Network field that may hold a stateful object is deep-copied or fully re-initialised at every site where the simulation reads it")
    fam_state = {}
    for field, fams in NETWORK_FIELDS.items():
        st = {}
        for fam in fams.split("|"):
            for c in P.subclasses(fam):
                s = stateful_attrs(P, c)
                if s:
                    st[c] = s
        fam_state[field] = st
    ctx.notes.append("stateful classes found: %s" % {f: {c: sorted(s) for c, s in st.items()} for f, st in fam_state.items()})
    allst = set(c for st in fam_state.values() for c in st)
    for need in ("Sequential", "Cycle", "Schedule"):
        if need not in allst:
            ctx.unrecognised("ISO: %s not recognised as stateful (state detection changed?)" % need)
    n = 0
    for ci, fn in P.all_functions():
        mod = fn._module.name
        if mod in ("ciw.network", "ciw.import_params"):
            continue
        # single-assignment locals, so that `cc = ...customer_classes[k]; cc.<field>` is seen as the same borrow
        cnt, ldefs = {}, {}
        for y in ast.walk(fn):
            if isinstance(y, ast.Assign) and len(y.targets) == 1 and isinstance(y.targets[0], ast.Name):
                cnt[y.targets[0].id] = cnt.get(y.targets[0].id, 0) + 1
                ldefs[y.targets[0].id] = unparse(y.value)
            elif isinstance(y, (ast.For, ast.comprehension)) and isinstance(y.target, ast.Name):
                cnt[y.target.id] = cnt.get(y.target.id, 0) + 1
                ldefs[y.target.id] = "(element of %s)" % unparse(y.iter)
        ldefs = {k: v for k, v in ldefs.items() if cnt[k] == 1}
        sites_ = []
        for x in ast.walk(fn):
            if isinstance(x, ast.Attribute) and x.attr in NETWORK_FIELDS and isinstance(x.ctx, ast.Load):
                sites_.append((x, x.value, x.attr))
            elif isinstance(x, ast.Call) and isinstance(x.func, ast.Name) and x.func.id == "getattr" and len(x.args) >= 2:
                # getattr(obj, name): the name is a literal, or a parameter of a helper whose call sites pass literals
                if isinstance(x.args[1], ast.Constant) and x.args[1].value in NETWORK_FIELDS:
                    sites_.append((x, x.args[0], x.args[1].value))
                elif isinstance(x.args[1], ast.Name) and x.args[1].id in [a_.arg for a_ in fn.args.args]:
                    pos = [a_.arg for a_ in fn.args.args].index(x.args[1].id) - (1 if ci is not None else 0)
                    for c2, f2, call in rules.calls_named(P, fn.name):
                        val = call.args[pos] if pos < len(call.args) else next((k.value for k in call.keywords if k.arg == x.args[1].id), None)
                        if isinstance(val, ast.Constant) and val.value in NETWORK_FIELDS:
                            sites_.append((x, x.args[0], val.value))
                        elif not isinstance(val, ast.Constant):
                            ctx.unrecognised("ISO: getattr(%s, %s) in %s with a non-literal name at %s" % (unparse(x.args[0])[:40], x.args[1].id, P.func_name(fn), P.func_name(f2)))
        for x, basenode, attr in sites_:
            base = scans._subst(unparse(basenode), ldefs)
            if "network" not in base and not base.startswith("node") and "service_centres" not in base and "customer_classes" not in base:
                continue
            if attr == "routing" and "customer_classes" not in base:
                continue
            field = attr
            st = fam_state[field]
            if not st:
                continue
            n += 1
            q = P.func_name(fn)
            # (a) inside copy.deepcopy(...)
            p, copied = x, False
            while p is not fn:
                p = p._parent
                if isinstance(p, ast.Call) and unparse(p.func) in ("copy.deepcopy", "deepcopy"):
                    copied = True
            # (b) re-initialised: .initialise() called in this function on the value read, and initialise re-assigns all state of every stateful class of the family
            reinit = False
            if not copied:
                calls_init = any(isinstance(y, ast.Call) and isinstance(y.func, ast.Attribute) and y.func.attr == "initialise"
                                 for y in (rules.walk(P, P.view(ci.name), fn) if ci is not None else ast.walk(fn)))
                reinit = calls_init and all(reinitialised(P, c, s) for c, s in st.items())
            # only tested for being a Schedule / None: no use of the object
            par = x._parent
            only_test = (isinstance(par, ast.Call) and call_name(par) == "isinstance") or (isinstance(par, ast.Compare))
            ob.ok("%s:%s:%s" % (q, field, "copy" if copied else "reinit" if reinit else "test" if only_test else "by-reference"), "%s: %s [%s]" % (q, unparse(x)[:70], "deepcopy" if copied else "re-initialised" if reinit else "by reference"))
            if copied or reinit or only_test:
                continue
            bad = sorted(st)
            if not copied and calls_init:
                # the objects are re-initialised here: one finding per class whose initialise() leaves run-time state behind (so that a class that newly
                # acquires such state is not hidden behind one already known)
                for c_ in [c for c in bad if not reinitialised(P, c, st[c])]:
                    ctx.violation(ob, "R10.isolation", q, "%s:%s" % (field, c_), "stateful-object-by-reference",
                                  "%s is used by reference from the Network and %s.initialise() does not reset %s: a second Simulation built from the same Network continues "
                                  "where the first one stopped instead of starting fresh" % (field, c_, "/".join(sorted(st[c_]))), loc(x))
                continue
            ctx.violation(ob, "R10.isolation", q, "%s" % field, "stateful-object-by-reference",
                          "%s is used by reference from the Network; it may hold an object with run-time state (%s), so a second Simulation built from the same Network "
                          "continues where the first one stopped instead of starting fresh" % (field, ", ".join("%s.%s" % (c, "/".join(sorted(st[c]))) for c in bad[:4])), loc(x))
    ctx.floor("borrow sites of stateful Network fields", n, 7)


def orders(ctx, P):
    ob = ctx.ob("ORDER", "sequences of class names that fix iteration (hence sampling) order are sorted; per-class dictionaries consumed by sampling loops are built over that sorted list")
    n = 0
    for ci, fn in P.all_functions():
        for x in ast.walk(fn):
            if isinstance(x, ast.Assign):
                t = unparse(x.targets[0])
                if t.endswith("class_names") or t.endswith("class_names']") or t.endswith('class_names"]'):
                    v = x.value
                    uses_keys = any(isinstance(y, ast.Call) and isinstance(y.func, ast.Attribute) and y.func.attr == "keys" for y in ast.walk(v))
                    if uses_keys:
                        n += 1
                        ob.ok("%s:%s" % (P.func_name(fn), t), "%s: %s" % (P.func_name(fn), unparse(x)[:80]))
                        if not (isinstance(v, ast.Call) and isinstance(v.func, ast.Name) and v.func.id == "sorted"):
                            ctx.violation(ob, "R10.iteration-order", P.func_name(fn), unparse(x)[:100], "class-names-not-sorted",
                                          "the list of class names is taken in dictionary insertion order: two parameter sets that compare equal would then sample in different orders", loc(x))
    ctx.floor("class-name lists built from dict keys", n, 2)
    # sampling loops over a dict: the dict must be built over the sorted class names
    for ci, fn in P.all_functions():
        for lp in [x for x in ast.walk(fn) if isinstance(x, ast.For)]:
            it = lp.iter
            dict_iter = getattr(lp, "_dict_iter", None)
            if not dict_iter and not (isinstance(it, ast.Call) and isinstance(it.func, ast.Attribute) and it.func.attr in ("items", "keys", "values")):
                continue
            if not any(isinstance(y, ast.Call) and call_name(y) in ("sample", "_sample", "random_choice", "random") for y in ast.walk(lp)):
                continue
            coll = rules.inline_locals(fn, it if dict_iter else it.func.value)
            field = coll.attr if isinstance(coll, ast.Attribute) else unparse(coll)
            ob.ok("%s:loop-over-%s" % (P.func_name(fn), field), "%s samples while iterating %s" % (P.func_name(fn), unparse(it)[:70]))
            # construction site(s) of a dict of that name in import_params: comprehension / loops over params['customer_class_names']
            built = []
            for c2, f2 in P.all_functions():
                if f2._module.name != "ciw.import_params":
                    continue
                for y in ast.walk(f2):
                    if isinstance(y, ast.Assign) and unparse(y.targets[0]) == field and isinstance(y.value, ast.DictComp):
                        gens = [unparse(rules.inline_locals(f2, g.iter)).replace('"', "'") for z in ast.walk(y.value) if isinstance(z, ast.DictComp) for g in z.generators]
                        built.append(gens)
            if not built or any(g != "params['customer_class_names']" for gens in built for g in gens):
                ctx.violation(ob, "R10.iteration-order", P.func_name(fn), "for ... in %s" % unparse(it)[:80], "sampling-order-from-user-dict",
                              "random numbers are drawn while iterating a dictionary whose key order is not fixed by the sorted class names", loc(lp))


def keyed_tables(ctx, P, ob=None):
    """per-class tables are built by looking each class NAME up (`{c: src[c] for c in names}`); pairing the sorted list of class names positionally with the
    values of a user dictionary (`zip(names, d.values())`) gives every class somebody else's entry unless the user happened to write the dictionary in
    sorted order"""
    ob = ob or ctx.ob("KEYED", "no per-class table is built by zipping class names with a dictionary's values/items (order of a user dict is not the sorted order)")
    n = 0
    for ci, fn in P.all_functions():
        for x in ast.walk(fn):
            if isinstance(x, ast.Call) and isinstance(x.func, ast.Name) and x.func.id == "zip" and len(x.args) >= 2:
                n += 1
                texts = [unparse(a) for a in x.args]
                names = [t for t in texts if "class_names" in t or "customer_class_names" in t]
                dictorder = [t for a, t in zip(x.args, texts) if isinstance(a, ast.Call) and isinstance(a.func, ast.Attribute) and a.func.attr in ("values", "items", "keys") and t not in names]
                ob.ok("%s:%s" % (P.func_name(fn), unparse(x)[:50]), "%s: %s" % (P.func_name(fn), unparse(x)[:80]))
                if names and dictorder:
                    ctx.violation(ob, "R10.iteration-order", P.func_name(fn), unparse(x)[:100], "names-zipped-with-dict-order",
                                  "the sorted class names are paired by position with `%s`, whose order is the user's insertion order: classes get each other's entries" % dictorder[0], loc(x))
    return n


def globals_(ctx, P):
    ob = ctx.ob("GLOB", "no process-global state is written at run time except ciw.rng (seed) and the decimal precision (exact Simulation constructor)")
    n = 0
    for ci, fn in P.all_functions():
        q = P.func_name(fn)
        for x in ast.walk(fn):
            if isinstance(x, ast.Global):
                ctx.violation(ob, "R10.global-state", q, unparse(x), "global-statement", "module-level state written at run time", loc(x))
            if isinstance(x, (ast.Assign, ast.AugAssign)):
                for t in (x.targets if isinstance(x, ast.Assign) else [x.target]):
                    txt = unparse(t)
                    if txt.startswith("ciw.") or txt.startswith("getcontext()."):
                        n += 1
                        ob.ok("%s:%s" % (q, txt), "%s: %s" % (q, unparse(x)[:60]))
                        # ... and what is written there must not depend on the process-global state itself (what an earlier simulation left behind)
                        if txt == "getcontext().prec":
                            p_, child = getattr(x, "_parent", None), x
                            while p_ is not None and p_ is not fn:
                                if isinstance(p_, (ast.If, ast.While)) and any("getcontext(" in unparse(y) or unparse(y).startswith("ciw.") for y in ast.walk(p_.test) if isinstance(y, (ast.Call, ast.Attribute))):
                                    ctx.violation(ob, "R10.global-state", q, unparse(p_.test)[:80], "global-write-depends-on-global-state",
                                                  "whether the decimal precision is set depends on the precision found in the process: the second of two exact simulations "
                                                  "then runs with the first one's precision", loc(p_))
                                child, p_ = p_, getattr(p_, "_parent", None)
                        in_sim_ctor = q == "Simulation.__init__" or (ci is not None and ci.name == "Simulation" and set(rules.effective_names(P, ci, fn)) == {"__init__"})
                        if (q == "seed" and txt == "ciw.rng") or (in_sim_ctor and txt == "getcontext().prec"):
                            continue        # (a helper that only the constructor calls is part of the constructor)
                        ctx.violation(ob, "R10.global-state", q, unparse(x)[:80], "global-write", "process-global state is modified at run time", loc(x))
    ctx.floor("recognised global writes", n, 2)
    # module-level objects: anything built at import time other than the documented two (the generator `rng`, the record type) is shared by every
    # Network / Simulation of the process -- a default router, distribution or schedule kept there carries state from one run into the next
    for m in P.modules.values():
        for st in m.tree.body:
            if isinstance(st, (ast.Assign, ast.AnnAssign)) and getattr(st, "value", None) is not None:
                tg = [unparse(t) for t in (st.targets if isinstance(st, ast.Assign) else [st.target])]
                v = st.value
                if (m.name, tg) in (("ciw", ["rng"]), ("ciw.data_record", ["DataRecord"])):
                    ob.ok("%s:%s" % (m.name, tg[0]))
                    continue
                if isinstance(v, (ast.Call, ast.List, ast.Dict, ast.Set, ast.ListComp, ast.DictComp, ast.SetComp)) and not (
                        all(nm in getattr(P, "module_constants", {}).get(m.name, {}) for nm in tg)):
                    if isinstance(v, ast.Call) and call_name(v) in ("namedtuple", "frozenset", "tuple", "TypeVar"):
                        continue
                    if not isinstance(v, ast.Call):
                        # a container: state only if something in the package writes into it
                        from ..desugar import MUTATORS
                        touched = False
                        for m2 in P.modules.values():
                            for y in ast.walk(m2.tree):
                                if isinstance(y, ast.Subscript) and isinstance(y.ctx, (ast.Store, ast.Del)) and unparse(y.value).split(".")[-1] in tg:
                                    touched = True
                                if isinstance(y, ast.Call) and isinstance(y.func, ast.Attribute) and y.func.attr in MUTATORS and unparse(y.func.value).split(".")[-1] in tg:
                                    touched = True
                                if isinstance(y, ast.Global) and set(y.names) & set(tg):
                                    touched = True
                        if not touched:
                            continue
                    ctx.violation(ob, "R10.global-state", m.name, unparse(st)[:80], "module-level-object",
                                  "an object created at import time is shared by all simulations in the process: if it holds run-time state (a router, a distribution, a "
                                  "schedule, a cache) a second simulation continues where the first one stopped", loc(st))
    # class-level mutable attributes shared between instances
    for c in P.classes.values():
        for st in c.node.body:
            if isinstance(st, ast.Assign) and isinstance(st.value, (ast.List, ast.Dict, ast.Set, ast.Call)):
                names_ = [t.id for t in st.targets if isinstance(t, ast.Name)]
                if names_ and all(nm in getattr(P, "class_constants", {}).get(c.name, {}) for nm in names_):
                    continue        # a literal table that nothing in the package writes or mutates: a constant, not state
                ctx.violation(ob, "R10.global-state", c.name, unparse(st)[:80], "class-level-mutable", "a mutable class attribute is shared by all simulations in the process", loc(st))
