"""C14 Runs end normally and stop exactly (DESIGN §4 C14): protocol-aware definite initialisation (R9), zero-iteration locals,
loop guards, method<->counter table, completed flags, guard consistency (shared with C07/C11/C01)."""
import ast

from .. import guards, rules
from ..config import contexts, ATOMS
from ..model import AnalysisError, call_name, loc, unparse, is_self_attr
from ..paths import Walker
from ..rules import family_views, witness, facts_text
from . import c01, c07, c11, c17

EXPLANATION = (
    "Static analysis aimed at the internal errors and the stop conditions that a configuration sweep would have to find: (R9) along the life-cycle protocol "
    "of each class (constructor, then the handlers in the orders the event loop allows: straight after __init__ only accept / update_next_event_date / the event "
    "types __init__ can leave / the stop epilogue; everything after the first update_next_event_date) every read of a self attribute is preceded by an assignment on "
    "every path consistent with the node's configuration valuation -- for the Node family, arrival nodes, trackers, schedules, Simulation; locals of the three main "
    "loops are defined on the zero-iteration path; the loops are `while clock < T` (strict) / `while count < n` with one event per iteration and the clock advanced after "
    "it; the method strings map to the four counters with a raising default; completed=False is passed exactly at the three non-completion hand-overs; the guards whose "
    "failure mode is an exception (has-server predicate, decide_preempt sibling guard, removal index) are consistent. Absence of all other internal errors (user "
    "callbacks, malformed parameters accepted by validation) is not decided.")
EXPLANATION += (" Added later: " "outside the node classes a node's server list is read only under a finite-c test of that node; in the exact views no raw operator mixes a may-Decimal with a may-Float operand (shared with C20).")
RULE = "instances = attribute reads on all protocol paths x configuration valuations of each class view; loop/table/flag sites of simulation.py"

NODE_PHASE_A = ("accept", "update_next_event_date", "have_event", "wrap_up_servers", "find_server_utilisation", "write_baulking_or_rejection_record")
NODE_PHASE_B = ("have_event", "accept", "release", "block_individual", "release_blocked_individual", "update_next_event_date", "wrap_up_servers",
                "find_server_utilisation", "write_baulking_or_rejection_record")


def check(ctx):
    P = ctx.program
    iters = (0, 1)
    node_init(ctx, P, iters)
    simple_protocols(ctx, P, iters)
    loop_locals(ctx, P, iters)
    loop_guards(ctx, P, iters)
    counter_table(ctx, P)
    completed_flags(ctx, P)
    foreign_server_lists(ctx, P)
    # exact arithmetic: a raw operator that meets a Decimal and a float raises TypeError in the middle of a run (shared instances, C20)
    from . import c20
    for cname in ("ExactNode", "ExactArrivalNode"):
        if cname in P.classes:
            c20.closure(ctx, P, cname)
    # guards whose failure mode is an exception (shared rule instances)
    views = family_views(P, "Node")
    c07.disarm(ctx, P, views, iters)
    c07.victims_not_blocked(ctx, P, views)      # (its failure mode is an exception in the middle of a run)
    c11.call_sites(ctx, P, views, iters)
    c01.index_agreement(ctx, P, views, iters)
    # book-keeping whose failure mode is an exception (list.remove of an absent customer) or a wrong stop count
    from . import c12
    c12.interrupted_flag(ctx, P, views, iters)
    c01.linear_node(ctx, P, views, iters)
    c07.fifo(ctx, P, views, iters)
    # every event scheduled before the horizon is executed: the end-of-service scans must not drop a service that started at date 0.0 (shared instances, C02)
    from . import c02
    c02.scan_rules(ctx, P)
    c02.sentinel_tests(ctx, P)
    from . import c13
    c13.renege_leaves_class_change_cache(ctx, P, views, iters)
    from ..rules import Pairing, check_pairing
    obp = ctx.ob("R2.pop", "node population counter changes exactly with individuals[*] on every path of every method (a drifting counter ends in list.remove / index errors)")
    check_pairing(ctx, obp, P, views, Pairing("number_of_individuals", "individuals", "R2.population", "population counter vs individuals[*]"), loop_iters=iters)
    ctx.assume("user callbacks (distributions, routing functions, disciplines, baulking functions) do not raise")
    ctx.assume("attributes of Individual objects set by the node (class_change_date, reneging_date, route, PS fields) are not tracked by R9: they are read under the same configuration guard that assigns them")


def _self_assigned(st_events, upto=None):
    out = set()
    for i, e in enumerate(st_events):
        if upto is not None and i >= upto:
            break
        if e.kind in ("assign",) and not e.d.get("local") and e.d["target"].startswith("self.") and e.d["target"].count(".") == 1 and "[" not in e.d["target"]:
            out.add(e.d["target"][5:])
    return out


_CFG_KEYS = ("self.c", "self.slotted", "self.schedule", "self.reneging", "self.dynamic_classes", "next_event_type", "self.priority_preempt", "isinstance")
_cfg_cache = {}


def _cfg_track(t, f):
    k = id(t)
    if k not in _cfg_cache:
        s = unparse(t)
        hit = any(key in s for key in _CFG_KEYS)
        if not hit and any(isinstance(x, ast.Name) for x in ast.walk(t)):
            # a test on a local that names a configuration attribute (`kind = self.schedule.schedule_type ... if kind == 'schedule'`)
            s2 = unparse(rules.inline_locals(f.func, t))
            hit = any(key in s2 for key in _CFG_KEYS)
        _cfg_cache[k] = (t, hit)        # (the node is kept alive so that its id is not reused)
    return _cfg_cache[k][1]


def _extra_facts(events, v):
    """isinstance(<x>.number_of_servers, Schedule) <-> SCHED (Node.__init__)"""
    extra = {}
    for e in events:
        if e.kind == "guard":
            for a in guards.atoms(e.d["formula"]):
                if a[0] == "isinstance" and a[2].endswith("Schedule"):
                    extra[a] = v["SCHED"]
    return extra


def node_init(ctx, P, iters):
    ob = ctx.ob("R9.node", "Node family: every self attribute read on the protocol paths (phase A straight after __init__, phase B after the first update_next_event_date) is assigned before, under every feasible configuration")
    names = P.subclasses("Node")
    results = []
    try:
        import multiprocessing as mp
        with mp.get_context("fork").Pool(min(len(names), 8)) as pool:
            results = pool.starmap(_node_init_view, [(P.root, n, iters) for n in names])
    except (OSError, ImportError):
        results = [_node_init_view(P.root, n, iters) for n in names]
    done = set()
    nreads = 0
    for viols, n, seen, npaths in results:
        nreads += n
        ctx.count("paths:R9", npaths)
        for k in seen:
            ob.ok(k)
        for key, args in viols:
            if key in done:
                continue
            done.add(key)
            ctx.violation(ob, *args)
    ctx.floor("conditionally initialised attribute reads checked", nreads, 20)


def _node_init_view(root_dir, view_name, iters):
    from ..model import Program
    P = Program(root_dir)
    view = P.view(view_name)
    viols, seen = [], set()
    done = set()
    nreads = npaths = 0
    C = contexts(P, view)
    methods = set(view.methods()) | rules.class_level_names(P, view.name)
    icls, ifn = view.method("__init__")
    w = Walker(P, view, keep=lambda e: e.kind in ("assign", "guard"), track=_cfg_track, loop_iters=iters)
    init_paths = [st for st in w.paths_of(icls, ifn) if st.status != "raise"]
    init_all = None
    for st in init_paths:
        a = _self_assigned(st.events)
        init_all = a if init_all is None else (init_all & a)
    init_all = init_all or set()
    interesting = lambda attr: attr not in init_all and attr not in methods
    INIT = {}
    for v in C.vals:
        cur = None
        for st in init_paths:
            if C.pc_possible(st.events, len(st.events), v, _extra_facts(st.events, v)):
                a = _self_assigned(st.events)
                cur = a if cur is None else (cur & a)
        INIT[v] = cur if cur is not None else set()
    # reads inside __init__ itself
    w = Walker(P, view, keep=lambda e: e.kind in ("assign", "guard", "reads"), track=_cfg_track, reads=lambda a: a not in methods, loop_iters=iters)
    for st in w.paths_of(icls, ifn):
        if st.status == "raise":
            continue
        have = set()
        for e in st.events:
            if e.kind == "assign":
                have |= _self_assigned([e])
            elif e.kind == "reads":
                for a in e.d["attrs"]:
                    nreads += 1
                    if a not in have and (icls.name, "__init__", a) not in done:
                        done.add((icls.name, "__init__", a))
                        viols.append(((e.frame.cls.name, "__init__", a), ("R9.init", "%s.__init__" % e.frame.cls.name, "read self.%s" % a, "read-before-assignment",
                                      "self.%s is read in the constructor before it is assigned on this path" % a, e.where, witness(st))))
    # what update_next_event_date definitely assigns
    ucls, ufn = view.method("update_next_event_date")
    w = Walker(P, view, keep=lambda e: e.kind in ("assign", "guard"), track=_cfg_track, loop_iters=iters)
    upaths = [st for st in w.paths_of(ucls, ufn) if st.status != "raise"]
    DA = {}
    for v in C.vals:
        cur = None
        for st in upaths:
            if C.pc_possible(st.events, len(st.events), v):
                a = _self_assigned(st.events)
                cur = a if cur is None else (cur & a)
        DA[v] = cur or set()
    cache = {}
    for phase, roots in (("A", NODE_PHASE_A), ("B", NODE_PHASE_B)):
        for root in roots:
            r = view.resolve(root)
            if r is None:
                continue
            cls, fn = r
            if root not in cache:
                w = Walker(P, view, keep=lambda e: e.kind in ("guard", "reads") or (e.kind == "assign" and not e.d.get("local") and e.d["target"].startswith("self.") and interesting(e.d["target"][5:].split(".")[0].split("[")[0])),
                           track=_cfg_track, reads=interesting, loop_iters=iters)
                cache[root] = [st for st in w.paths_of(cls, fn) if st.status != "raise" and any(e.kind == "reads" for e in st.events)]
                npaths += len(cache[root])
            for st in cache[root]:
                for v in C.reachable(root):
                    extra = {}
                    if phase == "A" and root == "have_event":
                        left = "slotted_service" if v["SLOTTED"] else "shift_change" if v["SCHED"] else None
                        for t in ("end_service", "shift_change", "renege", "class_change", "slotted_service"):
                            extra[("eq", "'%s'" % t, "self.next_event_type")] = (t == left)
                    if not C.pc_possible(st.events, len(st.events), v, extra):
                        continue
                    avail = set(INIT[v]) | (DA[v] if phase == "B" else set())
                    for i, e in enumerate(st.events):
                        if e.kind == "assign":
                            avail |= _self_assigned([e])
                        elif e.kind == "reads":
                            for a in e.d["attrs"]:
                                nreads += 1
                                seen.add("%s:%s" % (e.frame.qual, a))
                                if a not in avail:
                                    key = (e.frame.qual, a)
                                    if key in done:
                                        continue
                                    done.add(key)
                                    viols.append((key, ("R9.init", e.frame.qual, "read self.%s" % a, "no-init",
                                                  "self.%s is read here but is not assigned on every path before: reached from %s in phase %s (%s) under configuration {%s}"
                                                  % (a, root, phase, "straight after __init__" if phase == "A" else "after the first update_next_event_date", v.show()),
                                                  e.where, witness(st))))
    return viols, nreads, seen, npaths


def simple_protocols(ctx, P, iters):
    ob = ctx.ob("R9.other", "arrival nodes, trackers, schedules, Simulation, exit node, server: constructor (+initialise) assigns every attribute the other methods read")
    done = set()
    specs = []
    for c in P.subclasses("ArrivalNode"):
        specs.append((c, ("__init__", "initialise"), None))
    for c in P.subclasses("StateTracker"):
        specs.append((c, ("__init__", "initialise"), None))
    for c in P.subclasses("Schedule"):
        specs.append((c, ("__init__", "initialise"), None))
    for c in ("Simulation", "ExitNode", "Server", "Individual"):
        specs.append((c, ("__init__",), None))
    for c in P.subclasses("NoDetection"):
        specs.append((c, ("__init__",), None))
    nreads = 0
    for cname, ctors, _ in specs:
        view = P.view(cname)
        methods = set(view.methods()) | rules.class_level_names(P, view.name)
        have = None
        # constructor chain: definitely assigned after running the constructors in order
        avail = set()
        for ct in ctors:
            r = view.resolve(ct)
            if r is None:
                continue
            cls, fn = r
            w = Walker(P, view, keep=lambda e: e.kind in ("assign", "reads"), reads=lambda a: a not in methods, loop_iters=iters)
            cur = None
            for st in w.paths_of(cls, fn):
                if st.status == "raise":
                    continue
                h = set(avail)
                for e in st.events:
                    if e.kind == "assign":
                        h |= _self_assigned([e])
                    else:
                        for a in e.d["attrs"]:
                            nreads += 1
                            if a not in h and (cname, ct, a) not in done:
                                done.add((cname, ct, a))
                                ctx.violation(ob, "R9.init", "%s.%s" % (e.frame.cls.name, ct), "read self.%s" % a, "read-before-assignment",
                                              "self.%s is read in %s before it is assigned" % (a, ct), e.where, witness(st))
                cur = h if cur is None else (cur & h)
            avail = cur if cur is not None else avail
        for m in sorted(methods):
            if m in ctors or m.startswith("__"):
                continue
            if view.resolve(m) is None:
                continue        # a class-level attribute, not a method
            cls, fn = view.resolve(m)
            w = Walker(P, view, keep=lambda e: e.kind in ("reads",) or (e.kind == "assign" and not e.d.get("local")), reads=lambda a: a not in methods and a not in avail,
                       inline=lambda ev: True, loop_iters=iters)
            for st in w.paths_of(cls, fn):
                if st.status == "raise":
                    continue
                h = set()
                for e in st.events:
                    if e.kind == "assign":
                        h |= _self_assigned([e])
                    else:
                        for a in e.d["attrs"]:
                            nreads += 1
                            ob.ok("%s:%s" % (e.frame.qual, a))
                            if a not in h:
                                # attributes that a *different* public method of the same class assigns are the caller's protocol (e.g. get_all_records -> all_records);
                                # report only when no path of this method and no constructor assigns it
                                key = (cname, e.frame.qual, a)
                                if key in done:
                                    continue
                                done.add(key)
                                if _assigned_by_user_protocol(P, view, a, m):
                                    continue
                                if cname == "Server" and m == "utilisation":
                                    continue    # a statistic read by the user after a stop: busy_time/total_time are maintained by the node (wrap_up_servers assigns both)
                                if cname == "Slotted" and m == "get_next_shift" and not any(v["SLOTTED"] for v in contexts(P, P.view("Node")).reachable("change_shift")):
                                    continue    # get_next_shift is only called by change_shift, which no slotted configuration reaches (verified on the tree)
                                ctx.violation(ob, "R9.init", e.frame.qual, "read self.%s" % a, "no-init",
                                              "self.%s is read by %s.%s but %s does not assign it on every path" % (a, cname, m, "/".join(ctors)), e.where, witness(st))
    ctx.floor("attribute reads outside constructors", nreads, 5)


USER_PROTOCOL = {
    # attribute: methods whose earlier call (by the user / the event loop) defines it -- each confirmed by reading
    ("Simulation", "progress_bar"): "assigned and read under the same `progress_bar` argument of the simulate_* call",
    ("Simulation", "all_records"): "result cache written by get_all_records",
    ("ArrivalNode", "simulation"): "",
}


def _assigned_by_user_protocol(P, view, attr, m):
    if (view.name, attr) in USER_PROTOCOL or any((c, attr) in USER_PROTOCOL for c in view.mro):
        return True
    # distributions / routers receive `simulation` (and `node`) from Simulation / NetworkRouting before use
    return False


# reads of another node's server list from outside the node classes that need no guard, with the reason
FOREIGN_SERVERS_OK = {
    ("StateDigraph.action_at_blockage", 1): "the receiver is the destination of a blockage: a node that can be full has a finite capacity, hence a finite number of servers",
}


def foreign_server_lists(ctx, P):
    """`servers` exists only on nodes with a finite number of servers (Node.__init__ creates it under `not isinf(self.c)`).  The node's own methods are
    checked configuration by configuration (R9.init); code outside the node classes -- detector, trackers, routers, the simulation -- that reads
    `<node>.servers` must do so under a finite-`c` test of that same node, or be a listed site whose receiver is known to be finite."""
    ob = ctx.ob("FSRV", "outside the node classes `<node>.servers` is read only under `<node>.c` finite (infinite-server nodes have no server list)")
    node_classes = set(P.subclasses("Node"))
    n = 0
    for ci, fn in P.all_functions():
        if ci is not None and (ci.name in node_classes or ci.name in P.subclasses("Server")):
            continue
        q = P.func_name(fn)
        params = [a.arg for a in fn.args.args]
        for x in ast.walk(fn):
            if not (isinstance(x, ast.Attribute) and x.attr == "servers" and isinstance(x.ctx, ast.Load)) or unparse(x.value) == "self":
                continue
            n += 1
            recv = unparse(x.value)
            ob.ok("%s:%s.servers" % (q, recv))
            guarded = False
            child, p = x, getattr(x, "_parent", None)
            while p is not None and p is not fn:
                if isinstance(p, ast.If) and any(child is y for y in p.body + p.orelse):
                    facts = {}
                    guards.assume(guards.norm(p.test, unparse), any(child is y for y in p.body), facts)
                    if facts.get(("isinf", recv + ".c")) is False:
                        guarded = True
                child, p = p, getattr(p, "_parent", None)
            listed = isinstance(x.value, ast.Name) and x.value.id in params and (q, params.index(x.value.id) - 1) in FOREIGN_SERVERS_OK
            if not guarded and not listed:
                ctx.violation(ob, "R9.init", q, "%s.servers" % recv, "server-list-of-a-node-that-may-have-none",
                              "%s reads `%s.servers` without testing that this node has a finite number of servers: infinite-server nodes never create the list "
                              "(AttributeError), processor-sharing and slotted nodes keep no customer on it" % (q, recv), loc(x))
    ctx.floor("foreign reads of a node's server list", n, 2)


def loop_locals(ctx, P, iters):
    ob = ctx.ob("LOC0", "the three main loops: every local read after the loop is assigned on every path, including the zero-iteration path")
    sim = P.view("Simulation")
    done = set()
    n = 0
    for m in ("simulate_until_max_time", "simulate_until_max_customers", "simulate_until_deadlock"):
        cls, fn = sim.method(m)
        params = set(a.arg for a in fn.args.args)
        w = Walker(P, sim, keep=lambda e: e.kind in ("reads", "guard") or (e.kind == "assign" and e.d.get("local")) or e.kind == "iter", track=lambda t, f: True, inline=rules.new_helper,
                   local_reads=True, loop_iters=iters)
        for st in w.paths_of(cls, fn):
            if st.status == "raise":
                continue
            have = set(params)
            for e in st.events:
                if e.kind == "assign":
                    have.add(e.d["target"])
                elif e.kind == "iter" and e.d.get("target"):
                    have.add(e.d["target"])
                elif e.kind == "reads":
                    for a in e.d["locals"]:
                        n += 1
                        ob.ok("%s:%s" % (m, a))
                        if a not in have and (m, a) not in done:
                            done.add((m, a))
                            ctx.violation(ob, "R9.local", "Simulation.%s" % m, "read of local %s" % a, "unbound-local",
                                          "local variable %s may be read before assignment (e.g. when the loop body never runs)" % a, e.where, witness(st, 18))
    ctx.floor("local reads in the main loops", n, 10)


def _partial_getattr(v):
    return isinstance(v, ast.Call) and call_name(v) == "partial" and len(v.args) == 3 and not v.keywords and isinstance(v.args[0], ast.Name) and v.args[0].id == "getattr"


def _returns_lambdas(view, call):
    """call is `self.helper(...)` of a newly extracted helper whose every return gives a lambda (the counter chosen by `method`)"""
    if not (isinstance(call, ast.Call) and isinstance(call.func, ast.Attribute) and unparse(call.func.value) == "self" and call.func.attr not in rules.ANCHOR_METHODS):
        return False
    r = view.resolve(call.func.attr)
    if r is None:
        return False
    rets = [x for x in ast.walk(r[1]) if isinstance(x, ast.Return)]
    return bool(rets) and all(isinstance(x.value, ast.Lambda) for x in rets)


def loop_guards(ctx, P, iters):
    ob = ctx.ob("LOOPG", "simulate_until_max_time loops `while clock < T` (strict); simulate_until_max_customers `while count() < n`; one event per iteration, clock advanced after it")
    sim = P.view("Simulation")
    for m, want in (("simulate_until_max_time", ("lt", "self.current_time", "max_simulation_time")), ("simulate_until_max_customers", ("lt", "check()", "max_customers"))):
        cls, fn = sim.method(m)
        loops = [x for x in ast.walk(fn) if isinstance(x, ast.While)]
        if len(loops) != 1:
            ctx.unrecognised("LOOPG: expected one while loop in %s" % m)
            continue
        test = rules.clone(loops[0].test)
        class _NoWalrus(ast.NodeTransformer):       # `(before := count()) < n` tests `count() < n`
            def visit_NamedExpr(self, n):
                return self.visit(n.value)
        test = _NoWalrus().visit(test)
        f = guards.norm(test, unparse)
        ob.ok(m, "%s: while %s" % (m, guards.show(f)))
        if m == "simulate_until_max_customers":
            lam = set(unparse(x.targets[0]) for x in ast.walk(fn) if isinstance(x, ast.Assign) and (isinstance(x.value, ast.Lambda) or _returns_lambdas(sim, x.value) or _partial_getattr(x.value)))
            if len(lam) == 1:
                want = ("lt", "%s()" % lam.pop(), "max_customers")
        if f != want:
            ctx.violation(ob, "R5.loop-guard", "Simulation.%s" % m, "while %s" % unparse(loops[0].test), "loop-guard",
                          "the loop must run exactly while %s (events scheduled strictly before the horizon / until the count is first reached)" % guards.show(want), loc(loops[0]))
        # the clock is set from the next active node before the loop and wrap-up uses the horizon
    c17.loops(ctx, P, iters)
    cls, fn = sim.method("simulate_until_max_time")
    wraps = [x for x in ast.walk(fn) if isinstance(x, ast.Call) and call_name(x) == "wrap_up_servers"]
    ob.ok("wrap-up-at-horizon")
    if len(wraps) != 1 or unparse(wraps[0].args[0]) != "max_simulation_time":
        ctx.violation(ob, "R5.loop-guard", "Simulation.simulate_until_max_time", "wrap_up_servers(max_simulation_time)", "wrap-up-time", "server statistics must be closed at the requested horizon", loc(fn))
    # event_and_return_nextnode: one have_event, then every node updates, then the next active node
    cls, fn = sim.method("event_and_return_nextnode")
    w = Walker(P, sim, keep=lambda e: e.kind == "call" and e.d["meth"] in ("have_event", "update_next_event_date", "find_next_active_node") or e.kind in ("iter", "return"), inline=rules.new_helper, loop_iters=iters)
    for st in w.paths_of(cls, fn):
        seq = [e.d["meth"] if e.kind == "call" else e.kind for e in st.events]
        ob.ok("event_and_return_nextnode:%s" % ">".join(seq))
        calls = [x for x in seq if x not in ("iter",)]
        if calls.count("have_event") != 1 or calls[0] != "have_event" or "find_next_active_node" not in calls or calls.index("find_next_active_node") < max([i for i, x in enumerate(calls) if x == "update_next_event_date"] or [0]):
            ctx.violation(ob, "R4.event-step", "Simulation.event_and_return_nextnode", " -> ".join(calls), "event-step-shape",
                          "one step = exactly one have_event, then update_next_event_date of the service nodes, then find_next_active_node", loc(fn), witness(st))
            break
    loops = [x for x in ast.walk(fn) if isinstance(x, ast.For)]
    if not loops or unparse(loops[0].iter) != "self.transitive_nodes":
        ctx.violation(ob, "R4.event-step", "Simulation.event_and_return_nextnode", "for node in ...", "update-not-all-nodes", "after an event every service node must refresh its next event", loc(fn))


def counter_table(ctx, P):
    ob = ctx.ob("MCNT", "simulate_until_max_customers: Complete/Finish/Arrive/Accept select the four counters, anything else raises")
    sim = P.view("Simulation")
    cls, fn = sim.method("simulate_until_max_customers")
    want = {"Complete": "self.nodes[-1].number_of_completed_individuals", "Finish": "self.nodes[-1].number_of_individuals",
            "Arrive": "self.nodes[0].number_of_individuals", "Accept": "self.nodes[0].number_accepted_individuals"}
    got = {}
    raising_default = False
    for meth in list(want) + ["<other>"]:
        w = Walker(P, sim, keep=lambda e: (e.kind == "assign" and e.d.get("local") and (isinstance(e.d.get("value_node"), ast.Lambda) or _partial_getattr(e.d.get("value_node")))) or e.kind in ("raise", "iter", "loopexit")
                   or (e.kind == "return" and isinstance(e.d.get("value_node"), ast.Lambda) and e.frame.func is not fn),
                   literal_args={"method": repr(meth)}, inline=rules.new_helper, loop_iters=(0,))
        for st in w.paths_of(cls, fn):
            lam = [e for e in st.events if e.kind in ("assign", "return")]
            if st.status == "raise":
                if meth == "<other>":
                    raising_default = True
                continue
            if meth == "<other>":
                raising_default = False
                break
            if len(lam) == 1 and _partial_getattr(lam[0].d["value_node"]):
                # partial(getattr, X, "name") is `lambda: X.name`: read on this path (X and the name may be locals set in the selected branch)
                import re as _re
                m_ = _re.fullmatch(r"partial\(getattr,\s*(.+),\s*['\"](\w+)['\"]\)", lam[0].d["value"])
                got[meth] = "%s.%s" % (m_.group(1), m_.group(2)) if m_ else lam[0].d["value"]
                continue
            got[meth] = unparse(rules.inline_locals(lam[0].frame.func, lam[0].d["value_node"].body)) if len(lam) == 1 else "%d counters selected" % len(lam)
    for k, v in want.items():
        ob.ok(k, "%s -> %s" % (k, got.get(k)))
        if got.get(k) != v:
            ctx.violation(ob, "R12.method-table", "Simulation.simulate_until_max_customers", "%s -> %s" % (k, got.get(k)), "wrong-counter", "method %r must count %s" % (k, v), loc(fn))
    if not raising_default:
        ctx.violation(ob, "R12.method-table", "Simulation.simulate_until_max_customers", "else: raise", "no-raising-default", "an unknown method must raise instead of looping on an undefined counter", loc(fn))
    # the counters themselves: ExitNode.accept
    for c in P.subclasses("ExitNode"):
        v = P.view(c)
        cls, fn = v.method("accept")
        w = Walker(P, v, keep=lambda e: e.kind in ("aug", "guard"), track=lambda t, f: True)
        okc = False
        for st in w.paths_of(cls, fn):
            comp = [e for e in st.events if e.kind == "aug" and e.d["target"] == "self.number_of_completed_individuals"]
            g = [e for e in st.events if e.kind == "guard" and e.d["formula"] == ("truth", "completed")]
            if comp:
                okc = bool(g) and g[0].pol
                if not okc:
                    ctx.violation(ob, "R12.method-table", "%s.accept" % cls.name, comp[0].text, "completed-counter-guard", "number_of_completed_individuals must count exactly the customers accepted with completed=True", comp[0].where)
        ob.ok("%s.accept:completed" % c)
        d = fn.args.defaults
        if not d or unparse(d[-1]) != "True":
            ctx.violation(ob, "R12.method-table", "%s.accept" % cls.name, "completed default", "completed-default", "ExitNode.accept(ind) without flag is a completed journey", loc(fn))


def completed_flags(ctx, P):
    ob = ctx.ob("CMPL", "completed=False exactly at the non-completion hand-overs (rejection, baulk, renege); ordinary release passes no flag")
    want_false = {"release_individual", "decide_baulk", "renege"}
    n = 0
    for ci, fn, call in rules.calls_named(P, "accept"):
        kw = {k.arg: unparse(k.value) for k in call.keywords}
        n += 1
        q = rules.qual(ci, fn)
        ob.ok("%s:%s" % (q, kw.get("completed")), "%s: %s" % (q, unparse(call)))
        if rules.effective_names(P, ci, fn) & want_false:
            if kw.get("completed") != "False":
                ctx.violation(ob, "R12.completed-flag", q, unparse(call), "completed-not-false", "a rejected / baulking / reneging customer has not completed its journey: completed=False", loc(call))
        elif "completed" in kw or len(call.args) > 1:
            ctx.violation(ob, "R12.completed-flag", q, unparse(call), "completed-flag-on-ordinary-handover", "ordinary hand-overs must not override the completion flag", loc(call))
    ctx.floor("accept call sites", n, 3)
    roots = set()
    for ci, fn, call in rules.calls_named(P, "accept"):
        roots |= rules.effective_names(P, ci, fn) & (want_false | {"release", "send_individual"})
    ctx.floor("hand-over roots with an accept call site", len(roots), 5)
