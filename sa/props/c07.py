"""C07 Type I blocking (DESIGN §4 C07): release-or-block, departure => unblock, FIFO queue operations, cascade,
disarm of the blocked completion (has-server predicate consistency), is_blocked life-cycle."""
import ast
import re

from .. import guards, rules
from ..config import contexts
from ..model import AnalysisError, call_name, loc, unparse, is_inf_literal
from ..paths import Walker
from ..rules import Pairing, check_pairing, family_views, listop, split_path, witness, facts_text
from . import c06

EXPLANATION = (
    "Static analysis of ciw/node.py over all Node-family views: (a) finish_service is `release iff pop(dest) < capacity(dest) else block` "
    "on the same destination object; (b) every path that lowers a node's population ends with release_blocked_individual() on that node; "
    "(c) blocked_queue is only appended at the tail (by block_individual, on the destination), popped at the head (pop(0)) and paired with "
    "len_blocked_queue on every path; (d) the release performed for the unblocked customer is the ordinary release (hence cascades); "
    "(e) the blocked customer's completion is disarmed on every configuration in which the node owns server objects (context-sensitive "
    "comparison with the canonical has-server predicate over the feasible configuration valuations) and the server-less scan filters blocked "
    "customers; (f) is_blocked is set at blocking and cleared on every path that ends the blockage. These make 'blocked_queue(n) non-empty => "
    "n is full' inductive; the instants themselves are not observed.")
RULE = "instances = (rule, method, construct) on the current tree, each evaluated on all paths x feasible configuration valuations x views"

HAS = lambda v: (not v["INF"]) and (not v["SLOTTED"])


def check(ctx):
    P = ctx.program
    iters = (0, 1)
    views = family_views(P, "Node")
    c06.transfer_guard(ctx, P, iters)
    c06.unblock_guard(ctx, P, iters)
    block_keeps_server(ctx, P, views, iters)
    departure_unblocks(ctx, P, views, iters)
    fifo(ctx, P, views, iters)
    disarm(ctx, P, views, iters)
    blocked_flag(ctx, P, views, iters)
    victims_not_blocked(ctx, P, views)
    # a blocked customer keeps its server across a non-pre-emptive shift change as well: busy servers are only marked off duty
    from . import c12
    c12.off_duty(ctx, P, views, iters)
    # a blocked customer keeps its server AND its service place: number_in_service (what capacitated slots and JSQ read) follows starts/stops only
    from . import c09
    c09.in_service(ctx, P, iters, only={"block_individual", "release", "finish_service"})
    ctx.assume("only in-repo node classes; configuration flags immutable after __init__ (checked)")
    ctx.assume("PS nodes have an integer capacity (no Schedule)")


def victims_not_blocked(ctx, P, views):
    """a blocked customer has finished its service and holds its server until the destination admits it (Type I blocking).  Priority pre-emption picks its
    victim among the servers' customers; unless blocked customers are excluded there, a blocked one can be thrown off its server: it stays in the destination's
    blocked queue with its service dates wiped, and when the destination later pulls it in the run ends in AttributeError (`individual.server.id_number` on
    False) or, with 'reroute', in ValueError (the customer is no longer at the node the queue entry names).  Decided structurally: somewhere in decide_preempt
    (helpers read through) the candidates' `is_blocked` must be tested."""
    ob = ctx.ob("VBLK", "decide_preempt never selects a blocked customer as the victim (is_blocked is tested when the candidates are collected)")
    for view in views:
        r = view.resolve("decide_preempt")
        if r is None:
            ctx.unrecognised("VBLK: decide_preempt not found in view %s" % view.name)
            continue
        cls, fn = r
        if cls.name != view.name and any(v.name == cls.name for v in views):
            continue        # inherited unchanged: reported once, at the class that defines it
        tested = any(isinstance(x, ast.Attribute) and x.attr == "is_blocked" and isinstance(x.ctx, ast.Load) for x in rules.walk(P, view, fn))
        ob.ok("%s.decide_preempt" % cls.name, "is_blocked tested: %s" % tested)
        if not tested:
            ctx.violation(ob, "R6.victim", "%s.decide_preempt" % cls.name, "victims among the servers' customers", "victim-may-be-blocked",
                          "the pre-emption victim is chosen among all customers holding a server, blocked ones included: a blocked customer that is pre-empted stays in its "
                          "destination's blocked queue without a server and with its dates wiped -- the run later ends in AttributeError / ValueError", loc(fn))


def block_keeps_server(ctx, P, views, iters):
    ob = ctx.ob("KEEP", "the block branch of finish_service reaches no detatch_server/attach_server (a blocked customer keeps its server)")
    for view in views:
        cls, fn = view.method("finish_service")
        w = Walker(P, view, keep=lambda e: e.kind in ("call", "enter") and e.d["meth"] in ("block_individual", "detatch_server", "attach_server", "release"),
                   inline=lambda ev: ev.d["meth"] != "release", loop_iters=iters)
        for st in w.paths_of(cls, fn):
            ms = [e.d["meth"] for e in st.events]
            if "block_individual" in ms:
                ob.ok("%s:block-path" % view.name, " -> ".join(ms))
                if "detatch_server" in ms or "attach_server" in ms:
                    ctx.violation(ob, "R4.block-keeps-server", "%s.finish_service" % cls.name, " -> ".join(ms), "server-changed-on-block",
                                  "a customer that is blocked must keep its server until it leaves", loc(fn), witness(st))


def departure_unblocks(ctx, P, views, iters):
    ob = ctx.ob("UNBLK", "every path that decrements self.number_of_individuals later calls self.release_blocked_individual() (never left blocked)")
    seen = set()
    n = 0
    for view in views:
        # roots: the methods whose own body lowers the population (a private helper is replaced by its callers)
        roots, todo = set(), [m for m in view.methods() if m != "__init__" and any(
            (isinstance(x, ast.AugAssign) and isinstance(x.op, ast.Sub) and rules.is_self_attr(x.target, "number_of_individuals")) or
            (isinstance(x, ast.Assign) and rules.is_self_attr(x.targets[0], "number_of_individuals") and isinstance(x.value, ast.BinOp) and isinstance(x.value.op, ast.Sub))
            for x in ast.walk(view.resolve(m)[1]))]
        while todo:
            m = todo.pop()
            if m in roots:
                continue
            if rules.is_private_helper(P, view, m):
                todo += [c for c in rules.self_callers(view, m) if c != m]
            else:
                roots.add(m)
        for m in sorted(roots):
            cls, fn = view.resolve(m)

            def keep(e):
                if e.kind == "aug":
                    return e.d["target"] == "self.number_of_individuals" and e.d["op"] == "Sub"
                return e.kind in ("call",) and e.d["meth"] == "release_blocked_individual" and e.d["recv"] == "self"
            w = Walker(P, view, keep=keep, inline=lambda ev: ev.d["meth"] != "release_blocked_individual", loop_iters=iters)
            for st in w.paths_of(cls, fn):
                if st.status == "raise":
                    continue
                pending = None

                def loops_at_root(e):
                    # the loops of the root method that enclose this event (an event inside a spliced helper counts at the helper's call site)
                    node, fr = e.node, e.frame
                    while fr.parent is not None and fr.callsite is not None:
                        node, fr = fr.callsite, fr.parent
                    out = []
                    p_ = getattr(node, "_parent", None)
                    while p_ is not None and not isinstance(p_, ast.FunctionDef):
                        if isinstance(p_, (ast.For, ast.While)):
                            out.append(id(p_))
                        p_ = getattr(p_, "_parent", None)
                    return out
                for e in st.events:
                    if e.kind == "aug":
                        pending = e
                        n += 1
                    elif e.kind == "call":
                        if pending is not None and not set(loops_at_root(pending)) <= set(loops_at_root(e)) and (cls.name, m, "loop") not in seen:
                            seen.add((cls.name, m, "loop"))
                            ctx.violation(ob, "R4.unblock", "%s.%s" % (cls.name, m), "self.number_of_individuals -= 1", "several-departures-one-unblock",
                                          "customers leave inside a loop but release_blocked_individual() is called once after it: release_blocked_individual admits one "
                                          "blocked customer per call, so with k departures k - 1 blocked customers stay blocked although there is room", pending.where, witness(st))
                        pending = None
                if st.events:
                    ob.ok("%s.%s" % (cls.name, m), "%s.%s [%s]: %s" % (view.name, m, facts_text(st), " -> ".join(x.text for x in st.events)))
                if pending is not None:
                    key = (cls.name, m)
                    if key in seen:
                        continue
                    seen.add(key)
                    lit = "reroute" if any(a[0] == "truth" and a[1] == "reroute" and v for a, v in st.facts.items()) else "no-unblock"
                    ctx.violation(ob, "R4.unblock", "%s.%s" % (cls.name, m), "self.number_of_individuals -= 1", "departure-without-unblock" + ("[reroute]" if lit == "reroute" else ""),
                                  "a place is freed at this node but release_blocked_individual() is not called afterwards on this path [%s]: "
                                  "a customer blocked towards this node stays blocked although there is room" % facts_text(st),
                                  pending.where, witness(st))
    ctx.floor("population decrements", n, 2)


def fifo(ctx, P, views, iters):
    ob = ctx.ob("FIFO", "blocked_queue: tail append (by block_individual on the destination), head pop(0)/[0] in release_blocked_individual, paired with len_blocked_queue")
    n = 0
    for ci, fn, node, recv, how in rules.attr_writes(P, "blocked_queue"):
        n += 1
        q = rules.qual(ci, fn)
        ob.seen("%s:%s" % (q, how))
        okk = False
        if how == "assign" and "__init__" in rules.effective_names(P, ci, fn) and recv == "self":
            okk = True
        elif how == "append":
            okk = True
        elif how == "pop":
            okk = len(node.args) == 1 and isinstance(node.args[0], ast.Constant) and node.args[0].value == 0 and recv == "self"
        elif how == "remove":
            okk = "begin_interrupted_individuals_service" in rules.effective_names(P, ci, fn)   # pre-emptive schedule: the interrupted customer gives up its place in the queue
        if not okk:
            ctx.violation(ob, "R1.fifo", q, unparse(node), "non-fifo-op", "blocked_queue must be appended at the tail and popped at the head (pop(0)) only", loc(node))
    ctx.floor("blocked_queue operations", n, 4)
    for view in views:
        cls, fn = view.method("release_blocked_individual")
        for x in ast.walk(fn):
            if isinstance(x, ast.Subscript) and isinstance(x.value, ast.Attribute) and x.value.attr == "blocked_queue":
                ob.seen("%s:index:%s" % (view.name, unparse(x.slice)))
                if unparse(x.slice) != "0":
                    ctx.violation(ob, "R1.fifo", "%s.release_blocked_individual" % cls.name, unparse(x), "not-head",
                                  "the customer that is released must be the head of the blocked queue (longest blocked)", loc(x))
        # the tuple appended identifies (blocking node, customer); block_individual appends on the destination, not on self
        cls, fn = view.method("block_individual")
        params = [a.arg for a in fn.args.args][1:]
        apps = [x for x in ast.walk(fn) if isinstance(x, ast.Call) and isinstance(x.func, ast.Attribute) and x.func.attr == "append"
                and isinstance(x.func.value, ast.Attribute) and x.func.value.attr == "blocked_queue"]
        if len(apps) != 1:
            ctx.unrecognised("FIFO: expected one blocked_queue.append in %s.block_individual" % view.name)
        for a in apps:
            dest = unparse(a.func.value.value)
            ob.seen("%s:append-on:%s" % (view.name, dest))
            if len(params) < 2 or dest != params[1]:
                ctx.violation(ob, "R1.fifo", "%s.block_individual" % cls.name, unparse(a), "queue-of-wrong-node",
                              "the blocked customer must be queued at the destination node passed in", loc(a))
            item = unparse(rules.inline_locals(fn, a.args[0])).replace(" ", "") if a.args else ""      # (a local naming the entry is read through)
            if item != "(self.id_number,%s.id_number)" % params[0]:
                ctx.violation(ob, "R1.fifo", "%s.block_individual" % cls.name, unparse(a), "queue-entry",
                              "queue entries must be (blocking node id, customer id): release_blocked_individual looks the customer up by them", loc(a))
    ob2 = ctx.ob("R2.blq", "len_blocked_queue changes exactly with blocked_queue on every path, per node object")
    check_pairing(ctx, ob2, P, views, Pairing("len_blocked_queue", "blocked_queue", "R2.blocked-queue", "len_blocked_queue vs blocked_queue"), loop_iters=iters)
    # (d) cascade: the release of the unblocked customer is the ordinary release (no reroute flag)
    ob3 = ctx.ob("CASC", "the unblocked customer is released by the ordinary release(ind, self): it ends with that node's own unblocking call")
    for view in views:
        cls, fn = view.method("release_blocked_individual")
        k = 0
        for x in ast.walk(fn):
            if isinstance(x, ast.Call) and call_name(x) == "release":
                k += 1
                ob3.ok("%s:%s" % (view.name, unparse(x)), unparse(x))
                if len(x.args) > 2 or any(kw.arg == "reroute" for kw in x.keywords):
                    ctx.violation(ob3, "R4.cascade", "%s.release_blocked_individual" % cls.name, unparse(x), "reroute-release",
                                  "unblocking must use the ordinary release so that the vacated node unblocks its own queue in turn", loc(x))
        if k == 0:
            ctx.unrecognised("CASC: no release(...) call in %s.release_blocked_individual" % view.name)


EXEMPT_DEREF = {
    # preempt is entered only after decide_preempt found a busy server (max over self.servers succeeded), so a
    # server object exists; the empty-servers case is the separate finding K-01 (C11/C14)
    "preempt": "server taken from a victim that decide_preempt found on a Server object",
}


def _deref_sites(view):
    """uses of <customer>.server that need a Server object: <x>.server.<attr>, or <x>.server handed to detatch_server"""
    out = []
    for m in view.methods():
        if m in EXEMPT_DEREF:
            continue
        cls, fn = view.resolve(m)
        detach_args = set()
        for n in ast.walk(fn):
            if isinstance(n, ast.Call) and call_name(n) == "detatch_server" and n.args and isinstance(n.args[0], ast.Name):
                detach_args.add(n.args[0].id)
        for n in ast.walk(fn):
            if not (isinstance(n, ast.Attribute) and n.attr == "server" and isinstance(n.ctx, ast.Load)):
                continue
            if isinstance(n.value, ast.Name) and n.value.id == "self":
                continue
            par = n._parent
            if isinstance(par, ast.Attribute) and par.value is n:
                out.append((m, cls, fn, n))
            elif isinstance(par, ast.Call) and call_name(par) == "detatch_server" and par.args and par.args[0] is n:
                out.append((m, cls, fn, n))
            elif isinstance(par, ast.Assign) and par.value is n and any(isinstance(t, ast.Name) and t.id in detach_args for t in par.targets):
                out.append((m, cls, fn, n))
    return out


def disarm(ctx, P, views, iters):
    ob = ctx.ob("HASSRV", "every guarded dereference of <customer>.server.<attr> is reachable only on configurations where the node owns server objects (not inf, not slotted)")
    ob2 = ctx.ob("DISARM", "on every configuration with server objects, every finish_service path resets the finishing server's next_end_service_date to inf (blocked customer cannot complete twice)")
    ob3 = ctx.ob("SCANF", "the server-less end-of-service scan skips blocked customers")
    total_sites = 0
    for view in views:
        C = contexts(P, view)
        sites = _deref_sites(view)
        total_sites += len(sites)
        by_method = {}
        for m, cls, fn, node in sites:
            by_method.setdefault(m, []).append(node)
        for m, nodes in by_method.items():
            cls, fn = view.resolve(m)
            ids = set(id(x) for x in nodes)

            def keep(e, ids=ids):
                if e.kind == "guard":
                    return True
                n = e.node
                return e.kind in ("assign", "call", "return", "aug") and any(id(x) in ids for x in ast.walk(n))
            w = Walker(P, view, keep=keep, track=lambda t, fr: True, inline=rules.new_helper, loop_iters=iters)
            for st in w.paths_of(cls, fn):
                for i, e in enumerate(st.events):
                    if e.kind == "guard":
                        continue
                    for v in C.reachable(m):
                        if C.pc_possible(st.events, i, v) and not HAS(v):
                            ctx.violation(ob, "R5.has-server", "%s.%s" % (cls.name, m), e.text, "deref-without-server-object",
                                          "%s dereferences the customer's server under configuration {%s}, in which the node owns no server objects "
                                          "(siblings guard this with `not isinf(self.c) and not self.slotted`)" % (m, v.show()), e.where, witness(st))
                            break
                    ob.ok("%s.%s:%s" % (cls.name, m, e.text[:50]), "%s.%s: %s safe on %d valuations" % (view.name, m, e.text[:60], len(C.reachable(m))))
        # completeness of the disarm in finish_service
        cls, fn = view.method("finish_service")

        def keep2(e):
            if e.kind == "guard":
                return True
            return e.kind == "assign" and e.d["target"].endswith(".server.next_end_service_date")
        w = Walker(P, view, keep=keep2, track=lambda t, fr: fr.depth == 0,
                   inline=lambda ev: ev.d["meth"] not in ("release", "block_individual", "change_customer_class", "next_node", "decide_between_simultaneous_individuals"),
                   loop_iters=iters)
        reported = False
        for st in w.paths_of(cls, fn):
            if st.status == "raise":
                continue
            has_disarm = any(e.kind == "assign" and e.d["value"] == "INF" for e in st.events)
            for v in C.reachable("finish_service"):
                if not HAS(v):
                    continue
                if C.pc_possible(st.events, len(st.events), v):
                    ob2.ok("%s:%s" % (view.name, v.show()), "finish_service under {%s}: %s" % (v.show(), " -> ".join(x.text for x in st.events)))
                    if not has_disarm and not reported:
                        reported = True
                        ctx.violation(ob2, "R5.has-server", "%s.finish_service" % cls.name, "server.next_end_service_date = inf", "disarm-missing",
                                      "under configuration {%s} (node owns server objects) a path of finish_service does not reset the server's "
                                      "next_end_service_date: if the customer is then blocked the same end_service event fires again" % v.show(),
                                      loc(fn), witness(st))
        # (e) slotted/infinite scan filters blocked customers
        r = view.resolve("update_next_end_service_without_server")
        if r is None:
            ctx.unrecognised("SCANF: update_next_end_service_without_server not found")
        else:
            cls, fn = r
            loops = [x for x in ast.walk(fn) if isinstance(x, ast.For)]
            okk = False
            for lp in loops:
                tv = unparse(lp.target)
                for x in ast.walk(lp):
                    if isinstance(x, ast.If):
                        f = guards.norm(x.test, unparse)
                        facts = {}
                        guards.assume(f, True, facts)
                        if facts.get(("truth", tv + ".is_blocked")) is False:
                            # all writes of possible_next_events / appends must be inside this If
                            inner = [y for y in ast.walk(lp) if (isinstance(y, ast.Assign) and "possible_next_events" in unparse(y.targets[0])) or
                                     (isinstance(y, ast.Call) and call_name(y) == "append")]
                            inside = set(id(y) for y in ast.walk(x))
                            if inner and all(id(y) in inside for y in inner):
                                okk = True
            ob3.ok("%s:scan-filter" % view.name, "for ind in all_individuals: if not ind.is_blocked ...")
            from .. import scans as _scans
            for sc in _scans.find_scans(fn):
                v_ = unparse(sc.loop.target)
                for arm, nm in [(sc.arm, "reset")] + [(t, "tie") for t in sc.ties]:
                    if _scans.arm_condition(sc, arm).get(("truth", v_ + ".is_blocked")) is not False:
                        okk = False
            if not okk and not loops and not _scans.find_scans(fn) and not _scans.find_minfilters(fn):
                # no scan of any recognised form in this method (it may feed a generic helper): undecided, not a missing filter
                ctx.unrecognised("FILT: no scan recognised in %s.update_next_end_service_without_server" % view.name)
            elif not okk:
                ctx.violation(ob3, "R6.filter", "%s.update_next_end_service_without_server" % cls.name, "not ind.is_blocked filter", "blocked-not-filtered",
                              "at a node without server objects a blocked customer would be selected for end_service again", loc(fn))
    ctx.floor("guarded server dereference sites", total_sites, 4)


def blocked_flag(ctx, P, views, iters):
    ob = ctx.ob("R14.blk", "is_blocked: set True only in block_individual; cleared on every path that ends the blockage (accept; interrupted-restart)")
    n = 0
    for ci, fn, node, recv, how in rules.attr_writes(P, "is_blocked"):
        n += 1
        q = rules.qual(ci, fn)
        val = unparse(node.value) if isinstance(node, ast.Assign) else "?"
        ob.seen("%s:%s" % (q, val))
        if val == "True" and "block_individual" not in rules.effective_names(P, ci, fn):
            ctx.violation(ob, "R14.flag", q, unparse(node), "set-outside-block", "is_blocked set True outside block_individual", loc(node))
        if val not in ("True", "False"):
            ctx.violation(ob, "R14.flag", q, unparse(node), "non-literal", "is_blocked must be assigned boolean literals", loc(node))
        if val == "False" and not (rules.effective_names(P, ci, fn) & {"accept", "begin_interrupted_individuals_service", "__init__"}):
            # release() passes the flag to the state tracker and accept() clears it: cleared any earlier, the unblocking is reported as an ordinary departure
            ctx.violation(ob, "R14.flag", q, unparse(node), "cleared-before-release", "is_blocked is cleared before the customer has been released: "
                          "release() reports `blocked` to the state tracker from this flag (it is cleared by the accept() that follows)", loc(node))
    ctx.floor("is_blocked writes", n, 3)
    for view in views:
        # accept clears it for the arriving customer on every path
        cls, fn = view.method("accept")
        p0 = [a.arg for a in fn.args.args][1]
        w = Walker(P, view, keep=lambda e: e.kind == "assign" and e.d["target"].endswith(".is_blocked"), loop_iters=iters)
        for st in w.paths_of(cls, fn):
            if st.status == "raise":
                continue
            ok = any(e.d["target"] == p0 + ".is_blocked" and e.d["value"] == "False" for e in st.events)
            ob.ok("%s.accept" % view.name, "%s.accept: %s" % (view.name, " -> ".join(x.text for x in st.events)))
            if not ok:
                ctx.violation(ob, "R14.flag", "%s.accept" % cls.name, "%s.is_blocked = False" % p0, "not-cleared",
                              "a customer that moved on must not stay flagged as blocked (the end-of-service scan filters on it and the tracker is told its value)",
                              loc(fn), witness(st))
        # block_individual sets it on every path
        cls, fn = view.method("block_individual")
        p0 = [a.arg for a in fn.args.args][1]
        w = Walker(P, view, keep=lambda e: e.kind == "assign" and e.d["target"].endswith(".is_blocked"), loop_iters=iters)
        for st in w.paths_of(cls, fn):
            ok = any(e.d["target"] == p0 + ".is_blocked" and e.d["value"] == "True" for e in st.events)
            ob.ok("%s.block_individual" % view.name)
            if not ok and st.status != "raise":
                ctx.violation(ob, "R14.flag", "%s.block_individual" % cls.name, "%s.is_blocked = True" % p0, "not-set",
                              "a blocked customer must be flagged (it is otherwise a candidate for a second completion at server-less nodes)", loc(fn), witness(st))
        # removal from a blocked_queue by anything but the head-pop must clear the flag on the same path
        for m in view.methods():
            cls, fn = view.resolve(m)
            if not any(isinstance(x, ast.Call) and call_name(x) == "remove" and isinstance(x.func.value, ast.Attribute) and x.func.value.attr == "blocked_queue" for x in ast.walk(fn)):
                continue

            def keep(e):
                if e.kind == "call":
                    lo = listop(e)
                    return bool(lo and lo[2] == "blocked_queue" and lo[0] == "rem" and e.d["meth"] == "remove")
                return e.kind == "assign" and e.d["target"].endswith(".is_blocked")
            w = Walker(P, view, keep=keep, inline=rules.new_helper, loop_iters=iters)
            for st in w.paths_of(cls, fn):
                rem = [e for e in st.events if e.kind == "call"]
                clr = [e for e in st.events if e.kind == "assign" and e.d["value"] == "False"]
                if rem:
                    ob.ok("%s.%s:remove" % (cls.name, m))
                    if not clr:
                        ctx.violation(ob, "R14.flag", "%s.%s" % (cls.name, m), rem[0].text, "not-cleared",
                                      "customer taken out of a blocked queue without clearing is_blocked", rem[0].where, witness(st))
