"""C11 Pre-emptive priorities (DESIGN §4 C11): pre-empt decision at both entries under guards that guarantee server objects
(R5 sibling consistency), victim selection idiom, record before clobber (R4 must-precede from dependences), bookkeeping order,
option exhaustiveness (R12)."""
import ast

from .. import guards, rules
from ..config import contexts
from ..model import AnalysisError, call_name, loc, unparse
from ..paths import Walker
from ..rules import family_views, witness, facts_text

EXPLANATION = (
    "Static analysis of decide_preempt / preempt / interrupt_service / give_service_time_after_preemption over all Node-family views: decide_preempt is "
    "called at both entries into 'waiting while all servers are busy' (accept with no free server; class change that changes the priority), and every call "
    "site must guarantee -- on every configuration valuation that reaches it -- that the node owns at least one server (the sibling site tests "
    "`isinf(c) is False and c > 0`); the victim is chosen as max priority_class over the servers' customers, compared with the newcomer by a strict `<`, then "
    "max service_start_date; in preempt and interrupt_service the interruption record is written after original_service_time is saved and before the fields "
    "it reads (service_start_date, server) are clobbered, time_left is computed before service_end_date is cleared, and the option marker overwrites "
    "service_time only after it was saved; the option strings validated by Schedule/Slotted are exactly those dispatched on. 'Total time served equals the "
    "original requirement' is arithmetic over a history and is not decided.")
RULE = "instances = decide_preempt call sites x reaching valuations, victim-selection idiom slots, dependence-derived orderings on every path of preempt/interrupt_service, option tables"


def check(ctx):
    P = ctx.program
    iters = (0, 1)
    views = family_views(P, "Node")
    call_sites(ctx, P, views, iters)
    victim(ctx, P, views)
    orderings(ctx, P, views, iters)
    options(ctx, P, views)
    ctx.assume("customers at pre-emptive nodes are never blocked (property's own proviso)")


def call_sites(ctx, P, views, iters):
    ob = ctx.ob("SIB", "every decide_preempt call site guarantees, on every reaching configuration, a finite node with at least one server (sibling-guard consistency)")
    ob2 = ctx.ob("ENTRY", "decide_preempt is invoked at both entries into waiting-with-all-servers-busy: accept without free server, priority-changing class change")
    done = set()
    nsites = 0
    for view in views:
        C = contexts(P, view)
        if C.ps:
            continue
        entries = set()
        for m in view.methods():
            cls, fn = view.resolve(m)
            if not any(isinstance(x, ast.Call) and call_name(x) == "decide_preempt" for x in ast.walk(fn)):
                continue
            w = Walker(P, view, keep=lambda e: e.kind == "guard" or (e.kind == "call" and e.d["meth"] in ("decide_preempt", "find_free_server", "change_priority_queue")),
                       track=lambda t, f: True, inline=rules.new_helper, loop_iters=iters)
            for st in w.paths_of(cls, fn):
                for i, e in enumerate(st.events):
                    if e.kind != "call" or e.d["meth"] != "decide_preempt":
                        continue
                    nsites += 1
                    entries.add(m)
                    bad = None
                    for v in C.reachable(m):
                        if not C.pc_possible(st.events, i, v):
                            continue
                        facts = C.facts(v)
                        pc = rules.path_condition(st.events, i)
                        inf = v["INF"]
                        pos = pc.get(("lt", "0", "self.c"), facts.get(("lt", "0", "self.c")))
                        if inf or pos is not True:
                            bad = (v, "infinite-server node" if inf else "c > 0 not established")
                            break
                    ob.ok("%s.%s" % (cls.name, m), "%s.%s: decide_preempt under [%s]" % (view.name, m, "; ".join(x.text for x in st.events[:i] if x.kind == "guard")))
                    if bad and (cls.name, m) not in done:
                        done.add((cls.name, m))
                        ctx.violation(ob, "R5.sibling-guard", "%s.%s" % (cls.name, m), unparse(e.node), "missing-servers-guard",
                                      "decide_preempt takes max() over self.servers; this call site is reachable under configuration {%s} with %s, while the sibling call "
                                      "site in begin_service_if_possible_accept tests `isinf(self.c) is False and self.c > 0`" % (bad[0].show(), bad[1]), e.where, witness(st))
                    # entry (a): in the accept dispatch the call is made exactly when no free server was found
                    if m == "begin_service_if_possible_accept":
                        pcf = rules.path_condition(st.events, i)
                        none_found = [a for a, val in pcf.items() if a[0] == "isnone" and val]
                        if not none_found:
                            ctx.violation(ob2, "R4.preempt-entry", "%s.%s" % (cls.name, m), unparse(e.node), "not-under-no-free-server",
                                          "pre-emption must be decided exactly when find_free_server found nobody", e.where, witness(st))
                    if m == "change_customer_class_while_waiting":
                        pcf = rules.path_condition(st.events, i)
                        changed = [a for a, val in pcf.items() if a[0] == "eq" and "priority_class" in a[1] and "priority_class" in a[2] and val is False]
                        if not changed:
                            ctx.violation(ob2, "R4.preempt-entry", "%s.%s" % (cls.name, m), unparse(e.node), "not-under-priority-change",
                                          "after a class change pre-emption is decided when the priority changed", e.where, witness(st))
        for need in ("begin_service_if_possible_accept", "change_customer_class_while_waiting"):
            ob2.ok("%s:%s" % (view.name, need))
            if need not in entries:
                ctx.violation(ob2, "R4.preempt-entry", "%s.%s" % (view.resolve(need)[0].name if view.resolve(need) else view.name, need), "self.decide_preempt(...)", "entry-without-preempt-decision",
                              "a customer can start waiting here while a lower-priority customer is in service, but decide_preempt is not called", loc(view.resolve(need)[1]) if view.resolve(need) else "")
    ctx.floor("decide_preempt call events", nsites, 2)


def victim(ctx, P, views):
    ob = ctx.ob("VICT", "decide_preempt: least = max priority_class over servers' customers; newcomer.priority < least (strict); victim = max service_start_date among the least-priority ones; preempt(victim, newcomer)")
    for view in views:
        r = view.resolve("decide_preempt")
        if r is None:
            raise AnalysisError("decide_preempt not found")
        cls, fn = r
        newcomer = fn.args.args[1].arg
        src = unparse(fn)
        problems = []
        maxcalls = [x for x in ast.walk(fn) if isinstance(x, ast.Call) and isinstance(x.func, ast.Name) and x.func.id in ("max", "min")]
        least = [x for x in maxcalls if "priority_class" in unparse(x) and "key" not in [k.arg for k in x.keywords]]
        pick = [x for x in maxcalls if any(k.arg == "key" for k in x.keywords)]
        def whole_servers(call):
            # max(<s>.cust.priority_class for <s> in self.servers): one generator over all the servers, no filter
            a0 = call.args[0] if call.args else None
            if not (isinstance(a0, (ast.GeneratorExp, ast.ListComp)) and len(a0.generators) == 1):
                return False
            g = a0.generators[0]
            return unparse(g.iter) == "self.servers" and not g.ifs and isinstance(g.target, ast.Name) and unparse(a0.elt) == g.target.id + ".cust.priority_class"
        if len(least) != 1 or least[0].func.id != "max" or not whole_servers(least[0]):
            problems.append(("least-priority", "the least priority in service must be max(s.cust.priority_class for s in self.servers)"))
        if len(pick) != 1 or pick[0].func.id != "max" or "service_start_date" not in unparse([k.value for k in pick[0].keywords if k.arg == "key"][0]):
            problems.append(("victim-most-recent", "the victim must be the most recently started (max service_start_date) of the least-priority customers"))
        # strict comparison newcomer < least
        least_var = None
        for x in ast.walk(fn):
            if isinstance(x, ast.Assign) and least and x.value is least[0]:
                least_var = unparse(x.targets[0])
        # path-based: preempt(...) is reached exactly under  priority_preempt  and  newcomer.priority_class < least  (strict)
        w = Walker(P, view, keep=lambda e: e.kind == "guard" or (e.kind == "call" and e.d["meth"] == "preempt"), track=lambda t, f: True, inline=rules.new_helper)
        want_cmp = ("lt", "%s.priority_class" % newcomer, least_var)
        want_opt = ("truth", "self.priority_preempt")
        cmp_bad = opt_bad = None
        npre = 0
        for st in w.paths_of(cls, fn):
            if st.status == "raise":
                continue
            idx = [i for i, e in enumerate(st.events) if e.kind == "call" and e.d["meth"] == "preempt"]
            if idx:
                npre += 1
                pc = rules.path_condition(st.events, idx[0])
                if least_var and pc.get(want_cmp) is not True:
                    cmp_bad = cmp_bad or (st, "preempt is reached without `%s.priority_class < %s` (strict)" % (newcomer, least_var))
                if pc.get(want_opt) is not True:
                    opt_bad = opt_bad or st
            else:
                pc = rules.path_condition(st.events, len(st.events))
                if least_var and pc.get(want_cmp) is not False and pc.get(want_opt) is not False:
                    cmp_bad = cmp_bad or (st, "a path with the option set and newcomer.priority_class < %s not refuted ends without preempt" % least_var)
        if least_var is None or npre == 0:
            problems.append(("priority-comparison", "comparison of the newcomer's priority with the least priority in service not found"))
        elif cmp_bad:
            problems.append(("priority-comparison", "pre-empt iff newcomer.priority_class < least priority in service (strict): %s [%s]" % (cmp_bad[1], "; ".join(witness(cmp_bad[0])[:6]))))
        # the filter for the least-prioritised individuals uses equality with least
        comps = [x for x in ast.walk(fn) if isinstance(x, ast.ListComp) and "self.servers" in unparse(x)]
        def only_least(c):
            # [<s>.cust for <s> in self.servers if <s>.cust.priority_class == least]: all servers, filtered by that equality alone
            if len(c.generators) != 1 or not isinstance(c.generators[0].target, ast.Name):
                return False
            g = c.generators[0]
            v_ = g.target.id
            return (unparse(g.iter) == "self.servers" and unparse(c.elt) == v_ + ".cust" and len(g.ifs) == 1
                    and guards.norm(g.ifs[0], unparse) == ("eq",) + tuple(sorted((v_ + ".cust.priority_class", least_var))))
        if not any(least_var and only_least(c) for c in comps):
            problems.append(("least-filter", "candidates must be the customers whose priority_class == least priority"))
        pre = [x for x in ast.walk(fn) if isinstance(x, ast.Call) and call_name(x) == "preempt"]
        if len(pre) != 1 or len(pre[0].args) != 2 or unparse(pre[0].args[1]) != newcomer:
            problems.append(("preempt-call", "preempt(victim, newcomer) must be called once with the newcomer as second argument"))
        else:
            # first argument flows from the max(...) pick
            a0 = unparse(pre[0].args[0])
            if not any(isinstance(x, ast.Assign) and unparse(x.targets[0]) == a0 and pick and x.value is pick[0] for x in ast.walk(fn)):
                problems.append(("preempt-call", "the pre-empted customer is not the one selected by the max(...) pick"))
        ob.ok("%s.decide_preempt" % view.name, "least=%s; cmp strict; pick=max(start date)" % least_var)
        for reason, msg in problems:
            ctx.violation(ob, "R6.victim", "%s.decide_preempt" % cls.name, reason, reason, msg, loc(fn))
        if opt_bad is not None:
            ctx.violation(ob, "R6.victim", "%s.decide_preempt" % cls.name, "priority_preempt guard", "not-under-option", "pre-emption must only happen when priority_preempt is set", loc(fn), witness(opt_bad))


READS_OF_RECORD = ("service_start_date", "arrival_date", "original_service_time", "server", "queue_size_at_arrival", "queue_size_at_departure", "previous_class", "original_class")


def orderings(ctx, P, views, iters):
    ob = ctx.ob("ORD", "preempt / interrupt_service: save original_service_time -> interruption record -> clobber start date / detach; time_left before service_end_date is cleared; option marker after the save")
    done = set()

    def viol(cls, m, construct, reason, msg, where, st):
        if (cls.name, m, reason) in done:
            return
        done.add((cls.name, m, reason))
        ctx.violation(ob, "R4.must-precede", "%s.%s" % (cls.name, m), construct, reason, msg, where, witness(st))
    n = 0
    for view in views:
        for m in ("preempt", "interrupt_service"):
            r = view.resolve(m)
            if r is None:
                raise AnalysisError("%s not found" % m)
            cls, fn = r
            tok = fn.args.args[1].arg

            def keep(e, tok=tok):
                if e.kind == "assign" and not e.d.get("local"):
                    return e.d["target"].startswith(tok + ".")
                return e.kind == "call" and e.d["meth"] in ("write_interruption_record", "detatch_server", "reroute")
            w = Walker(P, view, keep=keep, inline=rules.new_helper, loop_iters=iters)
            for st in w.paths_of(cls, fn):
                if st.status == "raise":
                    continue
                evs = st.events
                idx = {}
                for i, e in enumerate(evs):
                    k = e.d["target"][len(tok) + 1:] if e.kind == "assign" else e.d["meth"]
                    idx.setdefault(k, []).append(i)
                rerouted = "reroute" in idx
                n += 1
                ob.ok("%s.%s:%s" % (view.name, m, "reroute" if rerouted else "requeue"), "%s.%s: %s" % (view.name, m, " -> ".join(x.text[:50] for x in evs)))
                if "original_service_time" not in idx:
                    viol(cls, m, "original_service_time", "original-not-saved", "original_service_time must be saved (the record and the restart option read it)", loc(fn), st)
                    continue
                save = idx["original_service_time"][0]
                if evs[save].d["value"] != tok + ".service_time":
                    viol(cls, m, evs[save].text, "original-not-service-time", "original_service_time must be the current service_time", evs[save].where, st)
                if rerouted:
                    if idx["reroute"][0] < save:
                        viol(cls, m, "reroute before save", "reroute-before-save", "reroute writes the interruption record, which reads original_service_time", evs[idx["reroute"][0]].where, st)
                    continue
                if "write_interruption_record" not in idx or len(idx["write_interruption_record"]) != 1:
                    viol(cls, m, "write_interruption_record", "no-single-interruption-record", "an interruption must be recorded exactly once", loc(fn), st)
                    continue
                rec = idx["write_interruption_record"][0]
                if rec < save:
                    viol(cls, m, "record before save", "record-before-save", "the interruption record reads original_service_time, which is assigned later", evs[rec].where, st)
                for f in READS_OF_RECORD:
                    for i in idx.get(f, []):
                        if f != "original_service_time" and i < rec:
                            viol(cls, m, evs[i].text, "record-after-clobber", "%s.%s is overwritten before the interruption record that reads it is written" % (tok, f), evs[i].where, st)
                for i in idx.get("detatch_server", []):
                    if i < rec:
                        viol(cls, m, evs[i].text, "record-after-detach", "the interruption record reads individual.server.id_number: it must be written before the server is detached", evs[i].where, st)
                # time_left = service_end_date - now, before service_end_date is cleared
                if "time_left" not in idx:
                    viol(cls, m, "time_left", "time-left-not-saved", "time_left must be saved for the resume option", loc(fn), st)
                else:
                    tl = idx["time_left"][0]
                    if evs[tl].d["value"].replace(" ", "") != "%s.service_end_date-self.now" % tok:
                        viol(cls, m, evs[tl].text, "time-left-formula", "time_left must be service_end_date - now", evs[tl].where, st)
                    if any(i < tl for i in idx.get("service_end_date", [])):
                        viol(cls, m, evs[tl].text, "time-left-after-clear", "time_left is computed after service_end_date was cleared", evs[tl].where, st)
                # option marker after the save
                for i in idx.get("service_time", []):
                    if i < save:
                        viol(cls, m, evs[i].text, "marker-before-save", "service_time is overwritten with the option marker before it was saved", evs[i].where, st)
                    opt = "self.priority_preempt" if m == "preempt" else "self.schedule.preemption"
                    if evs[i].d["value"] != opt:
                        viol(cls, m, evs[i].text, "marker-not-option", "service_time must be set to the configured pre-emption option (%s)" % opt, evs[i].where, st)
                if "service_time" not in idx:
                    viol(cls, m, "service_time marker", "no-marker", "the configured option must be left in service_time for the restart", loc(fn), st)
                if "service_start_date" not in idx or evs[idx["service_start_date"][0]].d["value"] != "False":
                    viol(cls, m, "service_start_date = False", "start-not-cleared", "an interrupted customer is no longer in service", loc(fn), st)
    ctx.floor("interruption paths", n, 4)


def options(ctx, P, views):
    ob = ctx.ob("OPT", "pre-emption option strings validated by Schedule/Slotted == strings dispatched on (resample/restart/resume by give_service_time_after_preemption, reroute by preempt/interrupt_service)")
    validated = set()
    for cname in ("Schedule", "Slotted"):
        ci = P.classes.get(cname)
        if ci is None:
            raise AnalysisError("class %s not found" % cname)
        for x in rules.walk(P, P.view(cname), ci.methods["__init__"]):
            lst = x.comparators[0] if isinstance(x, ast.Compare) else None
            if isinstance(lst, ast.Attribute) and unparse(lst.value) == "self":
                # a class-level table of options, looked up on the instance: the definition nearest in this class's MRO
                for c_ in P.mro(cname):
                    if lst.attr in getattr(P, "class_constants", {}).get(c_, {}):
                        lst = P.class_constants[c_][lst.attr]
                        break
            if isinstance(x, ast.Compare) and isinstance(x.ops[0], ast.NotIn) and unparse(x.left) == "preemption" and isinstance(lst, ast.List):
                for el in lst.elts:
                    if isinstance(el, ast.Constant) and isinstance(el.value, str):
                        validated.add(el.value)
    handled = set()
    for view in views:
        cls, fn = view.method("give_service_time_after_preemption")
        for x in rules.walk(P, view, fn):
            if isinstance(x, ast.Compare) and isinstance(x.ops[0], ast.Eq) and isinstance(x.comparators[0], ast.Constant) and unparse(x.left).endswith(".service_time"):
                handled.add(x.comparators[0].value)
        for m in ("preempt", "interrupt_service"):
            cls, fn = view.method(m)
            # on paths: reroute(...) is called exactly under <option> == 'reroute' (whichever way the test is written or the arms are ordered)
            wr = Walker(P, view, keep=lambda e: e.kind == "guard" or (e.kind == "call" and e.d["meth"] == "reroute"), track=lambda t, f: "reroute" in unparse(t), inline=rules.new_helper)
            with_, without = 0, 0
            ok = True
            for st_ in wr.paths_of(cls, fn):
                if st_.status == "raise":
                    continue
                called = any(e.kind == "call" for e in st_.events)
                pc = rules.path_condition(st_.events, len(st_.events))
                opt = [v for a, v in pc.items() if a[0] == "eq" and "'reroute'" in a[1:]]
                if called:
                    with_ += 1
                    ok = ok and bool(opt) and opt[0] is True
                else:
                    without += 1
                    ok = ok and bool(opt) and opt[0] is False
            ok = ok and with_ > 0 and without > 0
            ob.ok("%s.%s:reroute-branch" % (view.name, m))
            if not ok:
                ctx.violation(ob, "R12.options", "%s.%s" % (cls.name, m), "== 'reroute'", "reroute-not-dispatched", "the reroute option is validated but %s does not dispatch on it" % m, loc(fn))
    handled.add("reroute")
    ob.ok("validated=%s" % sorted(validated), "validated %s; handled %s" % (sorted(validated), sorted(handled)))
    if not validated:
        ctx.unrecognised("OPT: option validation list not found in Schedule/Slotted.__init__")
    for o in sorted(validated - handled):
        ctx.violation(ob, "R12.options", "Schedule.__init__", "'%s'" % o, "option-without-handler", "option %r is accepted but no restart branch handles it" % o, "")
    for o in sorted(handled - validated):
        ctx.violation(ob, "R12.options", "Node.give_service_time_after_preemption", "'%s'" % o, "handler-without-option", "restart branch for %r, which Schedule/Slotted never accept" % o, "")
    # the restart options write service_time from the right source
    for view in views:
        cls, fn = view.method("give_service_time_after_preemption")
        tok = fn.args.args[1].arg
        want = {"resample": "self.get_service_time(%s)" % tok, "restart": "%s.original_service_time" % tok, "resume": "%s.time_left" % tok}
        for x in rules.walk(P, view, fn):
            if isinstance(x, ast.If) and isinstance(x.test, ast.Compare) and isinstance(x.test.comparators[0], ast.Constant):
                o = x.test.comparators[0].value
                asg = [s for s in x.body if isinstance(s, ast.Assign)]
                got = unparse(asg[0].value) if asg else "?"
                ob.ok("%s:%s" % (view.name, o), "%s -> service_time = %s" % (o, got))
                if o in want and (got != want[o] or not asg or unparse(asg[0].targets[0]) != tok + ".service_time"):
                    ctx.violation(ob, "R12.options", "%s.give_service_time_after_preemption" % cls.name, "%s: service_time = %s" % (o, got), "option-source",
                                  "option %r must give the customer %s" % (o, want[o]), loc(x))
