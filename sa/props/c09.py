"""C09 Routing and class-change fidelity -- structural clauses (DESIGN §4 C09): router table lookup, routers return their own
destinations, deterministic routers random-free (R10), process-based pop order, JSQ arg-min (R6), number_in_service pairing with
service starts/stops (R2), priority remap at every class write."""
import ast
import re

from .. import guards, rules, scans
from ..callgraph import callgraph
from ..model import AnalysisError, call_name, loc, unparse
from ..paths import Walker
from ..rules import family_views, listop, split_path, witness, facts_text

EXPLANATION = (
    "Static analysis: Node.next_node* consult the router of the customer's class with this node's id; every in-repo router returns simulation.nodes[k] with k taken from its "
    "own destination table (Probabilistic: random_choice over its own destinations and probs, in the same order); Direct, Leave, Cycle and ProcessBased.next_node reach no "
    "random source in the call graph; ProcessBased.next_node is 'exit iff route empty else route.pop(0)'; JoinShortestQueue/LoadBalancing scan all of self.destinations for "
    "a minimal get_queue_size and return one of the minimisers; the quantities JSQ reads are true: number_in_service changes by exactly (service starts - service stops) on "
    "every path of every method of every Node-family view (local balance per node object); every write of customer_class is followed by priority_class = "
    "priority_class_mapping[<that class>], and the class-change draw uses the class names and their probabilities in the same order. That zero-probability entries are never "
    "drawn (random() endpoints) and the distribution of choices are not decided.")
RULE = "instances = router classes and their return sites, call-graph reachability of random sources, service start/stop events per path, class writes"


def check(ctx):
    P = ctx.program
    iters = (0, 1)
    lookup(ctx, P)
    routers(ctx, P)
    deterministic(ctx, P)
    jsq(ctx, P)
    in_service(ctx, P, iters)
    class_change(ctx, P, iters)
    # a class change while waiting that changes the priority moves the customer to its new priority queue, in both directions (shared instance, C08)
    from . import c08
    c08.moves(ctx, P, family_views(P, "Node"), iters)
    ctx.assume("user-supplied routing functions / router subclasses are outside the analysed program")


def lookup(ctx, P):
    ob = ctx.ob("LOOK", "Node.next_node / _for_rerouting / _for_jockeying call the same-named method of routers[ind.customer_class] with (ind, self.id_number)")
    for view in family_views(P, "Node"):
        for m in ("next_node", "next_node_for_rerouting", "next_node_for_jockeying"):
            cls, fn = view.method(m)
            ind = fn.args.args[1].arg
            rets = [x for x in ast.walk(fn) if isinstance(x, ast.Return)]
            got = unparse(rets[0].value).replace(" ", "") if len(rets) == 1 else "?"
            want = "self.simulation.routers[%s.customer_class].%s(%s,self.id_number)" % (ind, m, ind)
            ob.ok("%s.%s" % (view.name, m), got)
            if got != want:
                ctx.violation(ob, "R12.router-lookup", "%s.%s" % (cls.name, m), got, "router-lookup", "must return %s" % want, loc(fn))
    # NetworkRouting dispatches to the router of the node
    nr = P.view("NetworkRouting")
    for m in ("next_node", "next_node_for_rerouting", "next_node_for_jockeying"):
        cls, fn = nr.method(m)
        rets = [x for x in ast.walk(fn) if isinstance(x, ast.Return)]
        got = unparse(rets[0].value).replace(" ", "") if len(rets) == 1 else "?"
        ob.ok("NetworkRouting.%s" % m, got)
        if got != "self.routers[node_id-1].%s(ind)" % m:
            ctx.violation(ob, "R12.router-lookup", "NetworkRouting.%s" % m, got, "router-lookup", "must delegate to the router of node node_id", loc(fn))
    cls, fn = nr.method("initialise")
    if "zip(self.routers,self.simulation.transitive_nodes)" not in unparse(fn).replace(" ", ""):
        ctx.violation(ob, "R12.router-lookup", "NetworkRouting.initialise", "zip(self.routers, transitive_nodes)", "router-node-pairing", "router i must be initialised with node i", loc(fn))


def _router_paths(P, cname):
    """paths of <cname>.next_node -> list of (facts, returned index text, its defining expression text, path state)"""
    view = P.view(cname)
    cls, fn = view.method("next_node")
    w = Walker(P, view, keep=lambda e: e.kind in ("guard", "return", "call", "enter", "leave") or (e.kind == "assign" and e.d.get("local")), track=lambda t, f: True, inline=rules.new_helper)
    out = []
    for st in w.paths_of(cls, fn):
        if st.status != "return":
            out.append((None, None, None, st))
            continue
        ret = [e for e in st.events if e.kind == "return" and e.frame.depth == 0][-1]
        vn = ret.d["value_node"]
        idx = None
        if isinstance(vn, ast.Subscript) and unparse(vn.value) == "self.simulation.nodes":
            idx = vn.slice
        defs = {}
        for e in st.events:
            if e.kind == "assign":
                defs[unparse(e.d["target_node"])] = e.d["value"]
        facts = rules.path_condition(st.events)
        if idx is None:
            out.append((facts, None, None, st))
        else:
            itxt = unparse(idx)
            dtxt = defs.get(itxt, ret.d["value"][len("self.simulation.nodes["):-1] if isinstance(idx, ast.Name) and ret.d["value"] else itxt)
            if isinstance(idx, ast.Name):
                # the index may be the value returned by a newly extracted helper: follow it to the expression that produced it
                from ..typestate import origin
                ri = max(i for i, e in enumerate(st.events) if e is ret)
                o = origin(st.events, ri, idx.id + ret.frame.tag, ret.frame)
                if o is not None:
                    for e in st.events:
                        if e.kind == "return" and e.d.get("value_node") is o[0]:
                            dtxt = e.d.get("canon") or dtxt
                        elif e.kind == "assign" and e.d.get("value_node") is o[0] and e.d.get("value") not in (None, "?"):
                            dtxt = e.d["value"]
            out.append((facts, itxt, dtxt, st))
    return out, fn


def routers(ctx, P):
    ob = ctx.ob("RET", "every in-repo next_node returns simulation.nodes[k] with k from the router's own table")

    def single(cname, want):
        paths, fn = _router_paths(P, cname)
        ob.ok(cname, "%s.next_node: %s" % (cname, [p[2] for p in paths]))
        if len(paths) != 1 or paths[0][2] is None or paths[0][2].replace(" ", "") != want:
            ctx.violation(ob, "R12.router-return", "%s.next_node" % cname, str([p[2] for p in paths])[:150], "router-return",
                          "%s.next_node must return simulation.nodes[%s]" % (cname, want), loc(fn))
    n = 0
    for cname, want in (("Probabilistic", "ciw.random_choice(self.destinations,self.probs)"), ("Direct", "self.to"), ("Leave", "-1"), ("Cycle", "next(self.generator)")):
        if cname not in P.classes or "next_node" not in P.classes[cname].methods:
            ctx.unrecognised("RET: router %s.next_node not found" % cname)
            continue
        n += 1
        single(cname, want)
    # process-based: exit iff the route is empty, else the head of the route
    for cname, head in (("ProcessBased", "ind.route.pop(0)"), ("FlexibleProcessBased", "self.find_next_node_from_subset(ind.route[0],ind)")):
        if cname not in P.classes or P.view(cname).resolve("next_node") is None:
            ctx.unrecognised("RET: router %s.next_node not found" % cname)
            continue
        n += 1
        paths, fn = _router_paths(P, cname)
        ind = fn.args.args[1].arg
        head = head.replace("ind", ind)
        empty_atom = ("eq", "0", "len(%s.route)" % ind)
        okk = len(paths) == 2
        for facts, itxt, d, st in paths:
            if facts is None or d is None:
                okk = False
                continue
            e = facts.get(empty_atom)
            if e is True:
                okk = okk and d.replace(" ", "") == "-1"
            elif e is False:
                okk = okk and d.replace(" ", "") == head
                if cname == "FlexibleProcessBased":
                    upd = [x for x in st.events if x.kind == "call" and x.d["meth"] == "update_individual_route"]
                    okk = okk and len(upd) == 1 and upd[0].d["args"][0] == ind
            else:
                okk = False
        ob.ok(cname, "%s.next_node: %s" % (cname, [(p[2]) for p in paths]))
        if not okk:
            ctx.violation(ob, "R12.router-return", "%s.next_node" % cname, str([p[2] for p in paths])[:150], "router-return",
                          "%s.next_node must be: exit (-1) iff the route is empty, else %s; return simulation.nodes[that index]" % (cname, head), loc(fn))
    # JSQ returns one of the minimisers collected by its scan
    if "JoinShortestQueue" in P.classes:
        n += 1
        paths, fn = _router_paths(P, "JoinShortestQueue")
        scs = scans.find_scans(fn)
        lst = None
        if len(scs) == 1:
            var = unparse(scs[0].loop.target)
            cand = [unparse(t) for x in scs[0].arm.body if isinstance(x, ast.Assign) and unparse(x.value) == "[%s]" % var for t in x.targets]
            lst = cand[0] if cand else None
        elif not scs:
            mfs = [m_ for m_ in scans.find_minfilters(fn) if m_.how == "min-call"]
            lst = mfs[0].cands if len(mfs) == 1 else None
            if lst is None:
                lst = _minimisers_from_helper(P, P.view("JoinShortestQueue"), fn)
        rets = sorted(set(p[2].replace(" ", "") for p in paths if p[2]))
        ob.ok("JoinShortestQueue", "JoinShortestQueue.next_node returns %s" % rets)
        if lst is None or rets != sorted(["ciw.random_choice(%s)" % lst, "%s[0]" % lst]):
            ctx.violation(ob, "R12.router-return", "JoinShortestQueue.next_node", str(rets), "router-return",
                          "JoinShortestQueue must return simulation.nodes[k] with k one of the minimal destinations (random or first)", loc(fn))
        for facts, itxt, d, st in paths:
            if d and facts is not None:
                tb = [(a, v) for a, v in facts.items() if a[0] == "eq" and "self.tie_break" in a[1:]]
                if d.replace(" ", "").startswith("ciw.random_choice") and (("eq", "'random'", "self.tie_break"), True) not in tb:
                    ctx.violation(ob, "R12.router-return", "JoinShortestQueue.next_node", d, "tie-break", "a random tie-break must only be used under tie_break == 'random'", loc(fn))
    ctx.floor("router next_node implementations", n, 7)
    specs = ("Probabilistic", "Direct", "Leave", "Cycle", "JoinShortestQueue", "ProcessBased", "FlexibleProcessBased")
    # any other class defining next_node(ind) must be in the table
    for ci in P.classes_defining("next_node"):
        if ci.name not in specs and ci.name not in P.subclasses("Node") and ci.name not in ("NetworkRouting", "ArrivalNode"):
            ctx.violation(ob, "R12.router-return", "%s.next_node" % ci.name, "new router", "unknown-router", "router class not in the checked table", loc(ci.node))
    # Probabilistic: destinations and probs are extended together with the exit entry
    ci = P.classes["Probabilistic"]
    s = unparse(rules.temporaries_free(ci.methods["__init__"])).replace(" ", "")
    ob.ok("Probabilistic.__init__")
    if "self.destinations=destinations+[-1]" not in s or "self.probs=probs+[1-sum(probs)]" not in s:
        ctx.violation(ob, "R12.router-return", "Probabilistic.__init__", "destinations + [-1] / probs + [1 - sum(probs)]", "tables-misaligned", "the exit entry must be appended to destinations and probs at the same position", loc(ci.methods["__init__"]))
    # Cycle generator cycles over its own table
    ci = P.classes["Cycle"]
    if "self.generator=itertools.cycle(self.cycle)" not in unparse(ci.methods["__init__"]).replace(" ", ""):
        ctx.violation(ob, "R12.router-return", "Cycle.__init__", "itertools.cycle(self.cycle)", "cycle-table", "Cycle must iterate its own cycle in order", loc(ci.methods["__init__"]))
    # LoadBalancing / JSQ queue sizes
    for cname, want in (("JoinShortestQueue", "self.simulation.nodes[node_index].number_of_individuals-self.simulation.nodes[node_index].number_in_service"),
                        ("LoadBalancing", "self.simulation.nodes[node_index].number_of_individuals")):
        fn = P.classes[cname].methods.get("get_queue_size")
        rets = [x for x in ast.walk(fn) if isinstance(x, ast.Return)] if fn else []
        got = unparse(rules.inline_locals(fn, rets[0].value)).replace(" ", "") if len(rets) == 1 else "?"
        ob.ok("%s.get_queue_size" % cname, got)
        if got != want:
            ctx.violation(ob, "R12.router-return", "%s.get_queue_size" % cname, got, "queue-size", "%s must measure %s" % (cname, want), loc(fn) if fn else "")


def deterministic(ctx, P):
    ob = ctx.ob("DET", "Direct / Leave / Cycle / ProcessBased.next_node (and the jockeying defaults) reach no random source in the call graph")
    G = callgraph(P)
    for q in ("Direct.next_node", "Leave.next_node", "Cycle.next_node", "ProcessBased.next_node", "NodeRouting.next_node_for_jockeying", "ProcessBased.next_node_for_jockeying", "FIFO", "LIFO"):
        if "." in q:
            cname_, mname_ = q.split(".")
            res = G.random_sources_in_view(cname_, mname_) if cname_ in P.classes else None
            if res is None:
                ctx.unrecognised("DET: %s not found" % q)
                continue
            hits, reached = res
            if mname_.endswith("_for_jockeying"):
                # a default: it runs in every router class that inherits it, with that class's own next_node / rerouting
                own = P.view(cname_).resolve(mname_)
                for sub_ in P.subclasses(cname_)[1:]:
                    r_ = P.view(sub_).resolve(mname_)
                    if r_ is not None and own is not None and r_[1] is own[1]:
                        h2, s2 = G.random_sources_in_view(sub_, mname_)
                        hits = hits + h2
                        reached = reached | s2
        else:
            if q not in G.funcs:
                ctx.unrecognised("DET: %s not found" % q)
                continue
            hits, reached = G.random_sources_reached(q), G.reach(q)
        ob.ok(q, "%s reaches %d functions, 0 random sources" % (q, len(reached)))
        for via, (kind, text, node) in hits[:1]:
            ctx.violation(ob, "R10.deterministic-router", q, "%s via %s" % (kind, via), "reaches-random-source", "%s must be deterministic but reaches %s in %s" % (q, kind, via), loc(node))


def _minimisers_from_helper(P, view, fn):
    """the local of fn that receives the list of minimisers returned by a newly extracted helper (`cands = self.shortest_queues()`), or None"""
    for x in ast.walk(fn):
        if isinstance(x, ast.Assign) and len(x.targets) == 1 and isinstance(x.targets[0], ast.Name) and isinstance(x.value, ast.Call) \
                and isinstance(x.value.func, ast.Attribute) and unparse(x.value.func.value) == "self" and x.value.func.attr not in rules.ANCHOR_METHODS:
            r = view.resolve(x.value.func.attr)
            if r is not None and any(m_.how == "min-call" and m_.cands == "<return>" for m_ in scans.find_minfilters(r[1])):
                return x.targets[0].id
    return None


def _helper_minfilters(P, view, fn):
    out = []
    for x in rules.walk(P, view, fn):
        if isinstance(x, ast.FunctionDef):
            continue
    seen = set()
    for x in ast.walk(fn):
        if isinstance(x, ast.Call) and isinstance(x.func, ast.Attribute) and unparse(x.func.value) == "self" and x.func.attr not in rules.ANCHOR_METHODS and x.func.attr not in seen:
            seen.add(x.func.attr)
            r = view.resolve(x.func.attr)
            if r is not None:
                out += [m_ for m_ in scans.find_minfilters(r[1]) if m_.how == "min-call"]
    return out


def jsq(ctx, P):
    ob = ctx.ob("JSQ", "JoinShortestQueue.next_node: arg-min of get_queue_size over all of self.destinations, returns a minimiser")
    ci = P.classes["JoinShortestQueue"]
    fn = ci.methods["next_node"]
    scs = scans.find_scans(fn)
    if not scs:
        # two-pass form: sizes over all destinations, their minimum, the destinations attaining it
        mfs = [m_ for m_ in scans.find_minfilters(fn) if m_.how == "min-call"] or _helper_minfilters(P, P.view("JoinShortestQueue"), fn)
        if len(mfs) == 1:
            mf = mfs[0]
            ob.ok("scan", "%s = min(%s for %s in %s); %s = those attaining it" % (mf.best, mf.key, mf.var, mf.coll, mf.cands))
            if mf.coll != "self.destinations":
                ctx.violation(ob, "R6.argmin", "JoinShortestQueue.next_node", "min over %s" % mf.coll, "scan-collection", "all listed destinations must be compared", loc(mf.node))
            if mf.key != "self.get_queue_size(%s)" % mf.var:
                ctx.violation(ob, "R6.argmin", "JoinShortestQueue.next_node", mf.key, "scan-key", "the key must be get_queue_size of the destination being scanned", loc(mf.node))
            _jsq_tail(ctx, P, ob)
            return
    if len(scs) != 1:
        ctx.unrecognised("JSQ: arg-min scan not recognised in JoinShortestQueue.next_node")
        return
    sc = scs[0]
    var = unparse(sc.loop.target)
    ob.ok("scan", "for %s in %s: key %s" % (var, unparse(sc.loop.iter), scans._subst(sc.key, sc.defs)))
    for reason, msg, node in scans.judge(sc):
        ctx.violation(ob, "R6.argmin", "JoinShortestQueue.next_node", "JSQ scan", reason, msg, loc(node))
    if unparse(sc.loop.iter) != "self.destinations":
        ctx.violation(ob, "R6.argmin", "JoinShortestQueue.next_node", "for ... in %s" % unparse(sc.loop.iter), "scan-collection", "all listed destinations must be compared", loc(sc.loop))
    if scans._subst(sc.key, sc.defs) != "self.get_queue_size(%s)" % var:
        ctx.violation(ob, "R6.argmin", "JoinShortestQueue.next_node", sc.key, "scan-key", "the key must be get_queue_size of the destination being scanned", loc(sc.arm))
    arm_assigned = {unparse(t): unparse(s.value) for s in sc.arm.body if isinstance(s, ast.Assign) for t in s.targets}
    lists = [k for k, v in arm_assigned.items() if v == "[%s]" % var]
    if len(lists) != 1:
        ctx.violation(ob, "R6.argmin", "JoinShortestQueue.next_node", str(arm_assigned), "selection-not-from-iteration", "a new minimum must reset the candidate list to that destination", loc(sc.arm))
    for t in sc.ties:
        app = [x for x in ast.walk(t) if isinstance(x, ast.Call) and call_name(x) == "append"]
        if len(app) != 1 or unparse(app[0].args[0]) != var or not lists or unparse(app[0].func.value) != lists[0]:
            ctx.violation(ob, "R6.argmin", "JoinShortestQueue.next_node", "tie arm", "selection-not-from-iteration", "a tie must append that destination", loc(t))
    _jsq_tail(ctx, P, ob)


def _jsq_tail(ctx, P, ob):
    flexible_update(ctx, P, ob)
    # FlexibleProcessBased builds its temporary routers over the given subset
    fview = P.view("FlexibleProcessBased")
    fcls, fp = fview.method("find_next_node_from_subset")
    sub_p = fp.args.args[1].arg if len(fp.args.args) > 1 else "subset"
    want = {"random": "random_choice", "jsq": "JoinShortestQueue", "lb": "LoadBalancing"}
    ob.ok("FlexibleProcessBased.find_next_node_from_subset")
    for choice, callee in want.items():
        facts = {}
        for u in want:
            guards.assume(guards.norm(ast.parse("self.choice == %r" % u, mode="eval").body, unparse), u == choice, facts)
        w = Walker(P, fview, keep=lambda e: e.kind == "call" and e.d["meth"] in set(want.values()), inline=rules.new_helper, track=lambda t, f: True)
        okk, npaths = True, 0
        for st in w.paths_of(fcls, fp, facts=facts):
            if st.status == "raise":
                continue
            npaths += 1
            calls = [e for e in st.events if e.kind == "call"]
            if len(calls) != 1 or calls[0].d["meth"] != callee:
                okk = False
            else:
                e = calls[0]
                over = e.d["kw"].get("destinations") if callee != "random_choice" else (e.d["args"][0] if e.d["args"] else e.d["kw"].get("array"))
                if over != sub_p:
                    okk = False
        if not okk or npaths == 0:
            ctx.violation(ob, "R6.argmin", "FlexibleProcessBased.find_next_node_from_subset", "subset routers", "scan-collection", "the flexible choice must be made among the given subset", loc(fp))
            break


class _InService:
    rule_id = "R2.in-service"

    @staticmethod
    def owner(target):
        """which node's counter does a start/stop of `target` (x.service_start_date) belong to"""
        m = re.match(r"^\(?(.*?)\.all_individuals\[", target)
        if m and m.group(1) != "self":
            return m.group(1)
        return "self"


def in_service(ctx, P, iters, only=None):
    ob = ctx.ob("R2.ins", "number_in_service changes by exactly (#service starts - #service stops) on every path of every method, per node object (JSQ reads true queue lengths)")
    reported = set()
    for view in family_views(P, "Node"):
        unbalanced = set()
        results = {}

        def relevant(e):
            if e.kind == "aug":
                return e.d["target"].endswith(".number_in_service")
            if e.kind == "assign" and not e.d.get("local"):
                return e.d["target"].endswith(".service_start_date") or e.d["target"].endswith(".number_in_service")
            if e.kind == "call":
                lo = listop(e)
                if lo and lo[2] == "individuals" and lo[1] == "self":
                    return True
                return e.d.get("selfcall", False)
            return False
        for _round in range(5):
            changed = False
            results = {}
            for m in view.methods():
                if m in ("__init__", "reset_individual_attributes"):
                    continue
                cls, fn = view.resolve(m)
                w = Walker(P, view, keep=relevant, inline=lambda ev: ev.d["meth"] in unbalanced or rules.new_helper(ev), loop_iters=iters)
                bad = []
                touched = False
                for st in w.paths_of(cls, fn):
                    if st.status == "raise":
                        continue
                    per = {}
                    removed = []
                    for e in st.events:
                        if e.kind == "aug":
                            obj = e.d["target"][: -len(".number_in_service")]
                            k = 1 if e.d["op"] == "Add" else -1 if e.d["op"] == "Sub" else 1000
                            per.setdefault(obj, [0, 0])[0] += k * (int(e.d["value"]) if e.d["value"].isdigit() else 1000)
                        elif e.kind == "assign" and e.d["target"].endswith(".number_in_service"):
                            per.setdefault(e.d["target"][: -len(".number_in_service")], [0, 0])[0] += 1000
                        elif e.kind == "assign":
                            obj = _InService.owner(e.d["target"])
                            if e.d["value"] == "False":
                                per.setdefault(obj, [0, 0])[1] -= 1
                            else:
                                per.setdefault(obj, [0, 0])[1] += 1
                        elif e.kind == "call":
                            lo = listop(e)
                            if lo and lo[0] == "rem" and m == "release":
                                per.setdefault("self", [0, 0])[1] -= 1       # departure of an in-service customer
                            # renege: its subject is selected by the `not ind.server` scan (a waiting customer) -- table line, no stop
                    if per:
                        touched = True
                    for obj, (dc, ds) in per.items():
                        if dc != ds:
                            bad.append((obj, dc, ds, st))
                results[m] = (cls, fn, bad, touched)
                if bad and m not in unbalanced and rules.is_private_helper(P, view, m) and (cls.name == "Node" or m not in rules.ANCHOR_METHODS) and m not in ("preempt", "interrupt_service", "begin_interrupted_individuals_service"):
                    unbalanced.add(m)
                    changed = True
            if not changed:
                break
        for m, (cls, fn, bad, touched) in sorted(results.items()):
            if touched:
                ob.seen("%s.%s" % (cls.name, m))
            if m in unbalanced or (only is not None and m not in only):
                continue
            for obj, dc, ds, st in bad:
                construct = "%s.number_in_service %+d vs starts-stops %+d" % ("self" if obj == "self" else "other-node", dc, ds)
                key = ("%s.%s" % (cls.name, m), construct)
                if key in reported:
                    continue
                reported.add(key)
                ctx.violation(ob, "R2.in-service", "%s.%s" % (cls.name, m), construct, "unbalanced",
                              "on a path of %s.%s (view %s) %s.number_in_service changes by %+d but services started minus stopped is %+d [%s]: JoinShortestQueue then sees a wrong waiting line"
                              % (cls.name, m, view.name, obj, dc, ds, facts_text(st)), loc(fn), witness(st))
    ctx.floor("methods touching number_in_service / service_start_date", len(ob.nontrivial), 7)


def class_change(ctx, P, iters):
    ob = ctx.ob("PRIO", "every write of customer_class is followed by priority_class = priority_class_mapping[<the same class>] on the same path; class-change draw aligns names and probabilities")
    n = 0
    for view in family_views(P, "Node"):
        for m in view.methods():
            cls, fn = view.resolve(m)
            if not any(isinstance(x, ast.Assign) and isinstance(x.targets[0], ast.Attribute) and x.targets[0].attr == "customer_class" for x in ast.walk(fn)):
                continue
            w = Walker(P, view, keep=lambda e: e.kind == "assign" and not e.d.get("local") and (e.d["target"].endswith(".customer_class") or e.d["target"].endswith(".priority_class")),
                       inline=rules.new_helper, loop_iters=iters)
            for st in w.paths_of(cls, fn):
                evs = st.events
                for i, e in enumerate(evs):
                    if not e.d["target"].endswith(".customer_class"):
                        continue
                    n += 1
                    tok = e.d["target"][: -len(".customer_class")]
                    src = e.d["value"]
                    after = [x for x in evs[i + 1:] if x.d["target"] == tok + ".priority_class"]
                    anyw = [x for x in evs if x.d["target"] == tok + ".priority_class"]
                    okk = False
                    # priority from the new class: read back from customer_class (must come after the write) or computed from the same source expression (order free)
                    if after and after[0].d["value"].replace(" ", "") == "self.simulation.network.priority_class_mapping[%s.customer_class]" % tok:
                        okk = True
                    if anyw and anyw[-1].d["value"].replace(" ", "") == "self.simulation.network.priority_class_mapping[%s]" % src.replace(" ", "") and "random_choice" not in src:
                        okk = True
                    nxt = after or anyw
                    ob.ok("%s.%s:%s" % (cls.name, m, tok), "%s.%s: %s ; %s" % (view.name, m, e.text[:50], nxt[0].text[:80] if nxt else "-"))
                    if not okk:
                        ctx.violation(ob, "R2.priority-remap", "%s.%s" % (cls.name, m), e.text.split("(")[0][:80], "priority-not-remapped",
                                      "after the class is rewritten the priority must be priority_class_mapping[new class]", e.where, witness(st))
        # class-change draw
        cls, fn = view.method("change_customer_class")
        tok = fn.args.args[1].arg
        s = unparse(rules.inline_locals(fn, fn)).replace(" ", "").replace("\n", "")
        want = "random_choice(self.simulation.network.customer_class_names,[self.class_change[%s.previous_class][clss_name]forclss_nameinself.simulation.network.customer_class_names])" % tok
        ob.ok("%s.change_customer_class:draw" % view.name)
        # structural: random_choice(NAMES, [self.class_change[TOK.previous_class][v] for v in NAMES]) with the same NAMES (the comprehension variable is free)
        names_ = "self.simulation.network.customer_class_names"
        draw_ok = False
        fn_il = rules.inline_locals(fn, fn)
        for c_ in ast.walk(fn_il):
            if isinstance(c_, ast.Call) and call_name(c_) == "random_choice" and len(c_.args) == 2 and not c_.keywords and unparse(c_.args[0]) == names_:
                probs = c_.args[1]
                if isinstance(probs, ast.Name):
                    # the row of probabilities named once, after previous_class was set (it reads it), then handed to the draw
                    ds_ = [y for y in ast.walk(fn_il) if isinstance(y, ast.Assign) and any(isinstance(t, ast.Name) and t.id == probs.id for t in y.targets)]
                    prev_ = [y for y in ast.walk(fn_il) if isinstance(y, ast.Assign) and unparse(y.targets[0]) == tok + ".previous_class"]
                    if len(ds_) == 1 and prev_ and scans.precedes(fn_il, prev_[0], ds_[0]):
                        probs = ds_[0].value
                if isinstance(probs, ast.ListComp) and len(probs.generators) == 1:
                    g_ = probs.generators[0]
                    if isinstance(g_.target, ast.Name) and unparse(g_.iter) == names_ and not g_.ifs \
                            and unparse(probs.elt).replace(" ", "") == "self.class_change[%s.previous_class][%s]" % (tok, g_.target.id):
                        draw_ok = True
        if not draw_ok or ("%s.previous_class=%s.customer_class" % (tok, tok)) not in s:
            ctx.violation(ob, "R2.priority-remap", "%s.change_customer_class" % cls.name, "random_choice(class names, row of the class-change matrix)", "class-draw",
                          "the new class must be drawn from the class names with the probabilities of the current class's row, in the same order", loc(fn))
    for view in family_views(P, "ArrivalNode"):
        cls, fn = view.method("have_event")
        n += 1
        ob.ok("%s.have_event:priority" % view.name)
        w = Walker(P, view, keep=lambda e: e.kind == "call" and e.d["meth"] == "IndividualType", inline=rules.new_helper)
        ctor = [e for st in w.paths_of(cls, fn) for e in st.events]
        if not ctor or any(e.d["args"][1:3] != ["self.next_class", "self.simulation.network.priority_class_mapping[self.next_class]"] for e in ctor):
            ctx.violation(ob, "R2.priority-remap", "%s.have_event" % cls.name, "IndividualType(id, next_class, priority_class_mapping[next_class])", "priority-not-remapped",
                          "a new customer's priority must be the mapping of its class", loc(fn))
    ctx.floor("class writes", n, 3)


def flexible_update(ctx, P, ob):
    """FlexibleProcessBased.update_individual_route: 'any' -> drop the whole stage; 'all' -> remove ONE occurrence of the chosen node, drop the stage when it is empty"""
    view = P.view("FlexibleProcessBased")
    cls, fn = view.method("update_individual_route")
    ind, nid = fn.args.args[1].arg, fn.args.args[2].arg
    for rule in ("any", "all"):
        w = Walker(P, view, keep=lambda e: e.kind == "guard" or (e.kind == "call" and e.d["meth"] in ("remove", "pop")) or (e.kind == "assign" and not e.d.get("local")), track=lambda t, f: True, inline=rules.new_helper)
        okk, npaths = True, 0
        for st in w.paths_of(cls, fn, facts={("eq", "'any'", "self.rule"): rule == "any", ("eq", "'all'", "self.rule"): rule == "all"}):
            if st.status == "raise":
                continue
            npaths += 1
            evs = [e for e in st.events if e.kind != "guard"]
            facts = rules.path_condition(st.events)
            drop = [e for e in evs if e.kind == "assign" and e.d["target"] == ind + ".route"]
            rem = [e for e in evs if e.kind == "call"]
            if any(e.kind == "assign" and e.d["target"].startswith(ind + ".route[") for e in evs):
                okk = False
            if rule == "any":
                okk = okk and not rem and len(drop) == 1 and drop[0].d["value"].replace(" ", "") == ind + ".route[1:]"
            else:
                okk = okk and len(rem) == 1 and rem[0].d["meth"] == "remove" and rem[0].d["recv"] == ind + ".route[0]" and rem[0].d["args"] == [nid]
                empty = facts.get(("eq", "0", "len(%s.route[0])" % ind))
                if empty is True:
                    okk = okk and len(drop) == 1 and drop[0].d["value"].replace(" ", "") == ind + ".route[1:]"
                elif empty is False:
                    okk = okk and not drop
                else:
                    okk = False
        ob.ok("FlexibleProcessBased.update_individual_route:%s" % rule)
        if not okk or npaths < 1:
            ctx.violation(ob, "R12.router-return", "FlexibleProcessBased.update_individual_route", "rule %r" % rule, "route-update",
                          "rule 'any' drops the stage; rule 'all' removes exactly one occurrence of the visited node from the stage (list.remove) and drops the stage only when it is empty", loc(fn))
