"""C10 Sampled inputs honoured -- structural clauses (DESIGN §4 C10): accumulate-in-place arrivals, one sample per event,
batch loop and guard, service end = start + the sample of the same path, validated sampling API."""
import ast

from .. import guards, rules
from ..model import AnalysisError, call_name, loc, unparse
from ..paths import Walker
from ..rules import family_views, witness, facts_text

EXPLANATION = (
    "Static analysis of the sampling sites: the next arrival date of stream (node, class) is the previous date of the same key plus one inter-arrival sample drawn "
    "for that same key, exactly once per arrival event and outside the batch loop; the batch loop runs range(batch) with batch from batch_size of the same (node, class), "
    "whose acceptance guard is exactly `isinstance(batch, int) and batch >= 0` with a raising fall-through; every service start assigns service_time from get_service_time "
    "of that customer (or the stored pre-emption option) and sets service_end_date = start + that service_time on the same path; the engine's sampling sites for the three "
    "kinds of sample the property names go through Distribution._sample, whose validity test is `(float or int) and s >= 0` else raise; each site indexes the distribution "
    "table with its own node and the customer's/stream's class. Every (node, class) stream samples from an object of its own: the three find_*_dists take the deep copy once per node and per class of that stream's own distribution. A per-sample audit of a run (realised durations == logged samples) is not performed.")
RULE = "instances = arrival-stream writes, sampling call sites and service-start paths found on the tree, over all arrival/node views"


def check(ctx):
    P = ctx.program
    iters = (0, 1)
    arrivals(ctx, P, iters)
    batch_guard(ctx, P)
    validated_api(ctx, P)
    service_duration(ctx, P, iters)
    handover_resets(ctx, P, iters)
    resample_only(ctx, P, iters)
    one_object_per_stream(ctx, P)
    composite_distributions(ctx, P)
    ctx.assume("patience and class-change times are sampled raw (not covered by the property's wording); listed in evidence only")


def composite_distributions(ctx, P):
    """a composite distribution consumes from its components exactly what it hands on: a mixture draws from the one component it selected (never from the
    others -- their sequences must not advance), a combination draws once from each of its two operands"""
    ob = ctx.ob("COMP", "MixtureDistribution.sample draws once, from the component selected among self.dists; CombinedDistribution.sample draws once from each operand")
    n = 0
    for cname, want in (("MixtureDistribution", None), ("CombinedDistribution", ("self.d1", "self.d2"))):
        ci = P.classes.get(cname)
        if ci is None or "sample" not in ci.methods:
            ctx.unrecognised("COMP: %s.sample not found" % cname)
            continue
        view = P.view(cname)
        fn = ci.methods["sample"]
        draws = [x for x in rules.walk(P, view, fn) if isinstance(x, ast.Call) and isinstance(x.func, ast.Attribute) and x.func.attr in ("sample", "_sample")
                 and unparse(x.func.value) != "self"]
        n += len(draws) + (1 if len(draws) == 1 and cname == "CombinedDistribution" else 0)
        ob.ok("%s.sample" % cname, "%s.sample: %s" % (cname, "; ".join(unparse(d)[:50] for d in draws)))
        def repeated(d):
            p_ = getattr(d, "_parent", None)
            while p_ is not None and not isinstance(p_, ast.FunctionDef):
                if isinstance(p_, (ast.For, ast.While, ast.ListComp, ast.GeneratorExp, ast.DictComp, ast.SetComp)):
                    return True
                p_ = getattr(p_, "_parent", None)
            return False
        # a draw inside a comprehension over a literal tuple of operands -- `(d.sample(t, ind) for d in (self.d1, self.d2))` -- is one draw from each
        expanded = {}
        for d in draws:
            p_ = getattr(d, "_parent", None)
            while p_ is not None and not isinstance(p_, (ast.ListComp, ast.GeneratorExp, ast.FunctionDef)):
                p_ = getattr(p_, "_parent", None)
            if isinstance(p_, (ast.ListComp, ast.GeneratorExp)) and len(p_.generators) == 1 and not p_.generators[0].ifs and isinstance(p_.generators[0].target, ast.Name) \
                    and unparse(d.func.value) == p_.generators[0].target.id:
                from ..model import enclosing_def
                it = rules.inline_locals(enclosing_def(d) or fn, p_.generators[0].iter)
                if isinstance(it, (ast.Tuple, ast.List)) and it.elts and all(isinstance(e_, ast.Attribute) for e_ in it.elts) and len({unparse(e_) for e_ in it.elts}) == len(it.elts):
                    expanded[id(d)] = [unparse(e_) for e_ in it.elts]
        rep_ = [d for d in draws if repeated(d) and id(d) not in expanded]
        if rep_:
            ctx.violation(ob, "R7.component-draws", "%s.sample" % cname, unparse(rep_[0])[:80], "component-sampled-in-a-loop",
                          "%s.sample draws from its components inside a loop/comprehension: components that are not used for this sample advance too, so a "
                          "stateful component (Sequential, a custom generator) skips values" % cname, loc(rep_[0]))
            continue
        if want is None:
            from ..model import enclosing_def
            okk = len(draws) == 1
            if okk:
                recv = draws[0].func.value
                src = unparse(rules.inline_locals(enclosing_def(draws[0]) or fn, recv))
                if isinstance(recv, ast.Name):
                    ds = [y for y in ast.walk(enclosing_def(draws[0]) or fn) if isinstance(y, ast.Assign) and any(isinstance(t, ast.Name) and t.id == recv.id for t in y.targets)]
                    src = unparse(ds[0].value) if len(ds) == 1 else src
                okk = "self.dists" in src
            if not okk:
                ctx.violation(ob, "R7.component-draws", "%s.sample" % cname, "; ".join(unparse(d)[:50] for d in draws) or "no draw", "mixture-draw",
                              "a mixture must draw exactly once, from the component it selected among self.dists", loc(fn))
        else:
            got = sorted(r_ for d in draws for r_ in (expanded.get(id(d)) or [unparse(d.func.value)]))
            if got != sorted(want):
                ctx.violation(ob, "R7.component-draws", "%s.sample" % cname, "; ".join(got), "combination-draws",
                              "a combined distribution must draw exactly once from each of its two operands", loc(fn))
    ctx.floor("component draws of composite distributions", n, 3)


def one_object_per_stream(ctx, P):
    """every (node, class) stream samples from an object of its own: the Simulation copies each distribution once per node and per class.  A copy taken per
    class of the whole list keeps the aliasing inside that list -- two nodes given the same (stateful) distribution object would then draw from one shared
    sequence in interleaved order."""
    ob = ctx.ob("STREAM", "find_arrival_dists / find_service_dists / find_batching_dists: the deepcopy is taken once per (node, class) of the single distribution of that stream")
    sim = P.view("Simulation")
    n = 0
    for m in ("find_arrival_dists", "find_service_dists", "find_batching_dists"):
        r = sim.resolve(m)
        if r is None:
            ctx.unrecognised("STREAM: Simulation.%s not found" % m)
            continue
        cls, fn = r
        copies = [x for x in rules.walk(P, sim, fn) if isinstance(x, ast.Call) and call_name(x) == "deepcopy"]
        if not copies:
            ctx.violation(ob, "R7.stream-object", "Simulation.%s" % m, "no deepcopy", "no-copy-per-stream", "the distributions of the Network are used without a per-stream copy", loc(fn))
            continue
        for c in copies:
            n += 1
            bound = []
            p_, child = getattr(c, "_parent", None), c
            while p_ is not None and not isinstance(p_, ast.FunctionDef):
                if isinstance(p_, (ast.DictComp, ast.ListComp, ast.GeneratorExp, ast.SetComp)):
                    # (only the generators whose scope contains the call: all of them for the element, the earlier ones for a later generator's iterable)
                    for g in p_.generators:
                        if any(child is y for y in ast.walk(g.iter)):
                            break
                        bound += [y.id for y in ast.walk(g.target) if isinstance(y, ast.Name)]
                elif isinstance(p_, ast.For) and not any(child is y for y in ast.walk(p_.iter)):
                    bound += [y.id for y in ast.walk(p_.target) if isinstance(y, ast.Name)]
                child, p_ = p_, getattr(p_, "_parent", None)
            used = {y.id for a_ in c.args for y in ast.walk(a_) if isinstance(y, ast.Name)}
            ob.ok("%s:%s" % (m, unparse(c)[:60]), "%s: %s once per (%s)" % (m, unparse(c)[:80], ", ".join(bound)))
            if len(bound) < 2 or not set(bound) <= used or not (c.args and isinstance(c.args[0], ast.Subscript)):
                ctx.violation(ob, "R7.stream-object", "Simulation.%s" % m, unparse(c)[:90], "copy-not-per-stream",
                              "the copy must be taken for each node and each class of that stream's own distribution (found: once per (%s) of `%s`); a copy of a whole "
                              "list keeps two nodes that were given the same object on one shared copy" % (", ".join(bound) or "call", unparse(c.args[0])[:60] if c.args else "?"), loc(c))
    ctx.floor("per-stream copies", n, 3)


def arrivals(ctx, P, iters):
    ob = ctx.ob("ARR", "have_event: event_dates_dict[n][c] = increment_time(event_dates_dict[n][c], inter_arrival(n, c)) -- same key three times, once per event, outside the batch loop; range(batch_size(n, c))")
    for view in family_views(P, "ArrivalNode"):
        cls, fn = view.method("have_event")

        def keep(e):
            if e.kind == "call":
                return e.d["meth"] in ("inter_arrival", "batch_size", "IndividualType", "release_individual")
            if e.kind == "assign":
                return e.d["target"].startswith("self.event_dates_dict[") or (e.d.get("local") and isinstance(e.d.get("value_node"), ast.Call) and call_name(e.d["value_node"]) == "batch_size")
            return e.kind in ("iter", "loopexit") and isinstance(e.node, ast.For)
        w = Walker(P, view, keep=keep, inline=rules.new_helper, loop_iters=iters)
        done = set()

        def viol(reason, construct, msg, where, st):
            if (cls.name, reason) in done:
                return
            done.add((cls.name, reason))
            ctx.violation(ob, "R7.arrival-stream", "%s.have_event" % cls.name, construct, reason, msg, where, witness(st))
        for st in w.paths_of(cls, fn):
            if st.status == "raise":
                continue
            evs = st.events
            samples = [e for e in evs if e.kind == "call" and e.d["meth"] == "inter_arrival"]
            writes = [e for e in evs if e.kind == "assign" and e.d["target"].startswith("self.event_dates_dict[")]
            ob.ok("%s.have_event:%d" % (view.name, len(evs)), "%s.have_event: %s" % (view.name, " -> ".join(x.text[:50] for x in evs if x.kind in ("call", "assign"))))
            if len(samples) != 1:
                viol("not-one-interarrival-sample", "%d inter_arrival samples" % len(samples), "exactly one inter-arrival time must be consumed per arrival event", loc(fn), st)
                continue
            if len(writes) != 1:
                viol("not-one-date-advance", "%d writes of event_dates_dict" % len(writes), "the stream's next date must be advanced exactly once per arrival event", loc(fn), st)
                continue
            inloop = False
            for e in evs:
                if e.kind == "iter":
                    inloop = True
                elif e.kind == "loopexit":
                    inloop = False
                elif e in samples and inloop:
                    viol("sample-inside-batch-loop", e.text, "the inter-arrival sample must be drawn once per event, not once per batch member", e.where, st)
            wr, sm = writes[0], samples[0]
            key = wr.d["target"][len("self.event_dates_dict"):]
            vn = wr.d["value_node"]
            okk = isinstance(vn, ast.Call) and call_name(vn) == "increment_time" and len(vn.args) == 2 and not vn.keywords
            if okk:
                same = [a for a in vn.args if unparse(a) == unparse(wr.d["target_node"])]
                smp = [a for a in vn.args if isinstance(a, ast.Call) and call_name(a) == "inter_arrival"]
                okk = len(same) == 1 and len(smp) == 1
            if not okk:
                viol("not-accumulated-in-place", wr.text[:90], "next date must be increment_time(<the same entry>, inter_arrival(...))", wr.where, st)
            args = sm.d["args"]
            if "[%s][%s]" % (args[0] if args else "?", args[1] if len(args) > 1 else "?") != key:
                viol("sample-for-other-stream", "%s vs inter_arrival(%s)" % (key, ", ".join(args)), "the inter-arrival time must be sampled for the very (node, class) whose date is advanced", sm.where, st)
            if key != "[self.next_node][self.next_class]":
                viol("advance-other-stream", key, "the stream advanced must be the one that just fired (next_node, next_class)", wr.where, st)
            # batch
            bs = [e for e in evs if e.kind == "call" and e.d["meth"] == "batch_size"]
            if len(bs) != 1 or bs[0].d["args"] != ["self.next_node", "self.next_class"]:
                viol("batch-sample", "batch_size(...) x%d" % len(bs), "exactly one batch size must be sampled, for the stream that fired", loc(fn), st)
            loops = [e for e in evs if e.kind in ("iter", "loopexit") and isinstance(e.node, ast.For)]
            bvar = [unparse(e.d["target_node"]) for e in evs if e.kind == "assign" and e.d.get("local")]
            for lp in loops[:1]:
                it = unparse(lp.node.iter).replace(" ", "")
                if it not in tuple("range(%s)" % b for b in bvar) + ("range(self.batch_size(self.next_node,self.next_class))",):
                    viol("batch-loop-bound", it, "the creation loop must run exactly the sampled batch size times", loc(lp.node), st)
            for lp in loops[:1]:
                esc = [x for x in ast.walk(lp.node) if isinstance(x, (ast.Break, ast.Return, ast.Continue, ast.Raise))]
                if esc:
                    viol("batch-loop-early-exit", unparse(esc[0]), "every member of the sampled batch must be created (and recorded): the creation loop must not be left early", loc(esc[0]), st)
            # one construction + one hand-over per iteration
            cnt = None
            for e in evs:
                if e.kind == "iter":
                    cnt = [0, 0]
                elif e.kind == "loopexit":
                    cnt = None
                elif e.kind == "call" and e.d["meth"] in ("IndividualType", "release_individual"):
                    if cnt is None:
                        viol("creation-outside-batch-loop", e.text[:60], "customers must be created inside the batch loop only", e.where, st)
                    else:
                        cnt[0 if e.d["meth"] == "IndividualType" else 1] += 1
                        if max(cnt) > 1:
                            viol("two-customers-per-iteration", e.text[:60], "each batch iteration creates and routes exactly one customer", e.where, st)
        # initial dates
        cls, fn = view.method("initialise_event_dates_dict")
        n = 0
        wi = Walker(P, view, keep=lambda e: e.kind == "assign" and e.d["target"].startswith("self.event_dates_dict["), inline=rules.new_helper, loop_iters=iters)
        seen_sites = set()
        for st in wi.paths_of(cls, fn):
            for e in st.events:
                if id(e.node) in seen_sites:
                    continue
                seen_sites.add(id(e.node))
                n += 1
                key = e.d["target"][len("self.event_dates_dict"):].replace(" ", "")
                v = e.d["value_node"]
                ob.ok("%s.init:%s" % (view.name, unparse(v)[:30]))
                if isinstance(v, ast.Call) and call_name(v) == "inter_arrival":
                    args_ = e.d["value"][e.d["value"].index("(") + 1:-1].replace(" ", "").split(",")
                    if "[%s][%s]" % tuple((args_ + ["?", "?"])[:2]) != key:
                        ctx.violation(ob, "R7.arrival-stream", "%s.initialise_event_dates_dict" % cls.name, e.text, "sample-for-other-stream", "first arrival date must be sampled for its own (node, class)", e.where)
                elif unparse(v).lower() not in ("float('inf')", 'float("inf")'):
                    ctx.violation(ob, "R7.arrival-stream", "%s.initialise_event_dates_dict" % cls.name, e.text, "initial-date", "first arrival date must be the first inter-arrival sample (or inf when there is no stream)", e.where)
        if n < 2:
            ctx.unrecognised("ARR: initialise_event_dates_dict writes not recognised in %s" % view.name)


def batch_guard(ctx, P):
    ob = ctx.ob("G10", "batch_size accepts exactly `isinstance(batch, int) and batch >= 0`, otherwise raises")
    for view in family_views(P, "ArrivalNode"):
        cls, fn = view.method("batch_size")
        w = Walker(P, view, keep=lambda e: e.kind in ("guard", "return", "raise"), track=lambda t, f: True, inline=rules.new_helper)
        rets = raises = 0
        for st in w.paths_of(cls, fn):
            pcs = [e.d["formula"] if e.pol else guards.neg(e.d["formula"]) for e in st.events if e.kind == "guard"]
            pc = ("and", tuple(pcs)) if pcs else ("const", True)
            bname = [unparse(x.targets[0]) for x in ast.walk(fn) if isinstance(x, ast.Assign) and isinstance(x.value, ast.Call) and call_name(x.value) in ("_sample", "sample")]
            bname = bname[0] if bname else "batch"
            want = ("and", (("isinstance", bname, "int"), ("not", ("lt", bname, "0"))))
            if st.status == "return":
                rets += 1
                okk = guards.equivalent(pc, want)[0]
                ob.ok("%s.batch_size:return" % view.name, "return under %s" % guards.show(pc))
                rv = [e for e in st.events if e.kind == "return"]
                if not okk or not rv or unparse(rv[0].node.value) != bname:
                    ctx.violation(ob, "R5.batch-guard", "%s.batch_size" % cls.name, "return under %s" % guards.show(pc), "batch-guard",
                                  "a batch size must be returned exactly when it is an int and >= 0 (found condition %s)" % guards.show(pc), loc(fn), witness(st))
            elif st.status == "raise":
                raises += 1
            else:
                ctx.violation(ob, "R5.batch-guard", "%s.batch_size" % cls.name, "fall-through", "no-raise", "an invalid batch size must raise, not fall through (None would make range() fail later or be misread)", loc(fn), witness(st))
        if not rets or not raises:
            ctx.violation(ob, "R5.batch-guard", "%s.batch_size" % cls.name, "%d return / %d raise paths" % (rets, raises), "batch-guard-shape", "batch_size must have an accepting and a raising path", loc(fn))


def validated_api(ctx, P):
    ob = ctx.ob("VAPI", "engine sampling sites (inter_arrival, batch_size, get_service_time in all views) call Distribution._sample on the table entry of their own node/class; _sample validates")
    sites = []
    for fam, meths in (("ArrivalNode", ("inter_arrival", "batch_size")), ("Node", ("get_service_time",))):
        for view in family_views(P, fam):
            for m in meths:
                cls, fn = view.method(m)
                sites.append((view, cls, fn))
    seen = set()
    tables = {"inter_arrival": ("self.simulation.inter_arrival_times", "[nd][clss]"), "batch_size": ("self.simulation.batch_sizes", "[nd][clss]"),
              "get_service_time": ("self.simulation.service_times", "[self.id_number][ind.customer_class]")}
    for view, cls, fn in sites:
        if (cls.name, fn.name) in seen:
            continue
        seen.add((cls.name, fn.name))
        calls = [x for x in ast.walk(fn) if isinstance(x, ast.Call) and isinstance(x.func, ast.Attribute) and x.func.attr in ("sample", "_sample")]
        ob.ok("%s.%s" % (cls.name, fn.name), "%s.%s: %s" % (cls.name, fn.name, "; ".join(unparse(c)[:80] for c in calls)))
        if len(calls) != 1:
            ctx.violation(ob, "R7.validated-sampling", "%s.%s" % (cls.name, fn.name), "%d sampling calls" % len(calls), "not-one-sample", "exactly one sample per call", loc(fn))
            continue
        c = calls[0]
        if c.func.attr != "_sample":
            ctx.violation(ob, "R7.validated-sampling", "%s.%s" % (cls.name, fn.name), unparse(c.func), "unvalidated-sample",
                          "the raw Distribution.sample is used: a negative or non-numeric sample silently corrupts the run (sibling sites use _sample, which raises)", loc(c))
        tab, idx = tables[fn.name]
        if unparse(rules.inline_locals(fn, c.func.value)).replace(" ", "") != (tab + idx).replace(" ", ""):
            ctx.violation(ob, "R7.validated-sampling", "%s.%s" % (cls.name, fn.name), unparse(c.func.value), "wrong-distribution",
                          "the sample must come from %s%s (own node, own class)" % (tab, idx), loc(c))
    ctx.floor("engine sampling sites", len(seen), 5)
    # _sample validates
    d = P.classes.get("Distribution")
    if d is None or "_sample" not in d.methods:
        raise AnalysisError("Distribution._sample not found")
    fn = d.methods["_sample"]
    v = P.view("Distribution")
    w = Walker(P, v, keep=lambda e: e.kind in ("guard", "return", "raise") or (e.kind == "assign" and e.d.get("local")), track=lambda t, f: True, inline=rules.new_helper)
    okr = okx = False
    for st in w.paths_of(d, fn):
        pcs = [e.d["formula"] if e.pol else guards.neg(e.d["formula"]) for e in st.events if e.kind == "guard"]
        pc = ("and", tuple(pcs)) if pcs else ("const", True)
        if st.status == "return":
            asg = [e for e in st.events if e.kind == "assign"]
            s_ = asg[0].d["target"] if asg else "s"
            want = ("and", (("or", (("isinstance", s_, "float"), ("isinstance", s_, "int"))), ("not", ("lt", s_, "0"))))
            okr = guards.equivalent(pc, want)[0]
            if not asg or "self.sample(" not in asg[0].d["value"] or (st.ret or "").replace(" ", "") != s_:
                okr = False
            if not okr:
                ctx.violation(ob, "R7.validated-sampling", "Distribution._sample", "return under %s" % guards.show(pc), "validity-test",
                              "_sample must return the sample exactly when it is a float/int and >= 0", loc(fn), witness(st))
        elif st.status == "raise":
            okx = True
    # NaN: only a positive `s >= 0` rejects it (`not s < 0` accepts NaN), so the acceptance test must be spelled positively
    cmps = [x for x in ast.walk(fn) if isinstance(x, ast.Compare) and len(x.ops) == 1 and isinstance(x.ops[0], (ast.Lt, ast.LtE, ast.Gt, ast.GtE))]
    pos = [x for x in cmps if (isinstance(x.ops[0], ast.GtE) and unparse(x.comparators[0]) in ("0", "0.0")) or (isinstance(x.ops[0], ast.LtE) and unparse(x.left) in ("0", "0.0"))]
    negated = [x for x in pos if isinstance(getattr(x, "_parent", None), ast.UnaryOp)]
    if len(pos) != 1 or negated or len(cmps) != 1:
        ctx.violation(ob, "R7.validated-sampling", "Distribution._sample", "; ".join(unparse(x) for x in cmps), "nan-unsafe-validity-test",
                      "the validity test must be the positive comparison `s >= 0`: a negated `s < 0` lets NaN through (NaN dates silently end a stream or block a server for ever)", loc(fn))
    ob.ok("Distribution._sample")
    if not okx:
        ctx.violation(ob, "R7.validated-sampling", "Distribution._sample", "raise", "no-raise", "an invalid sample must raise", loc(fn))
    # no subclass overrides _sample
    for c in P.subclasses("Distribution")[1:]:
        if "_sample" in P.classes[c].methods:
            ctx.violation(ob, "R7.validated-sampling", c, "_sample override", "override", "a distribution overrides the validating wrapper", loc(P.classes[c].node))
    # reported, not obligations
    raw = []
    for view in family_views(P, "Node"):
        for m in ("get_reneging_date", "decide_class_change"):
            cls, fn = view.method(m)
            for x in ast.walk(fn):
                if isinstance(x, ast.Call) and isinstance(x.func, ast.Attribute) and x.func.attr == "sample":
                    raw.append("%s.%s: %s" % (cls.name, m, unparse(x)))
    ctx.notes.append("raw (unvalidated) sampling outside the property's wording: %s" % sorted(set(raw)))


def resample_only(ctx, P, iters):
    """after a pre-emption the requirement is re-sampled only for the 'resample' option: a sample drawn and thrown away under 'restart' / 'resume' shifts every
    later sample of the stream"""
    ob = ctx.ob("RESAMP", "give_service_time_after_preemption draws a service time exactly when the stored option is 'resample'")
    for view in family_views(P, "Node"):
        cls, fn = view.method("give_service_time_after_preemption")
        tok = fn.args.args[1].arg
        w = Walker(P, view, keep=lambda e: e.kind == "guard" or (e.kind == "call" and e.d["meth"] in ("get_service_time", "sample", "_sample")),
                   track=lambda t, f: True, inline=rules.new_helper, loop_iters=iters)
        bad = None
        n = 0
        for st in w.paths_of(cls, fn):
            if st.status == "raise":
                continue
            n += 1
            k = sum(1 for e in st.events if e.kind == "call")
            pc = rules.path_condition(st.events, len(st.events))
            res = [v for a, v in pc.items() if a[0] == "eq" and "'resample'" in a[1:]]
            is_res = res[0] if res else None
            if (k > 1) or (k == 1 and is_res is not True) or (k == 0 and is_res is True):
                bad = bad or (st, k, is_res)
        ob.ok("%s.give_service_time_after_preemption" % view.name, "%d path(s)" % n)
        if bad is not None:
            ctx.violation(ob, "R7.service-duration", "%s.give_service_time_after_preemption" % cls.name, "get_service_time(%s)" % tok, "sample-not-only-under-resample",
                          "%d service-time sample(s) drawn on a path where the option %s 'resample'" % (bad[1], "is" if bad[2] else "is not known to be"), loc(fn), witness(bad[0]))


def handover_resets(ctx, P, iters):
    """the next node draws a service sample iff the customer's service_time is False (give_individual_a_service_time, checked in SVC):
    so every departure must clear the three service attributes before the customer is handed over, on every path"""
    ob = ctx.ob("HRST", "release / renege: on every path service_time, service_start_date and service_end_date of the leaving customer are False when next_node.accept() is called (the next node samples iff service_time is False)")
    attrs = ("service_time", "service_start_date", "service_end_date")
    n, done = 0, set()
    for view in family_views(P, "Node"):
        for m in ("release", "renege"):
            cls, fn = view.method(m)

            def keep(e):
                if e.kind == "assign" and not e.d.get("local"):
                    return e.d["target"].split(".")[-1] in attrs
                return e.kind == "call" and e.d["meth"] == "accept" and e.d.get("recv") != "self"
            w = Walker(P, view, keep=keep, inline=lambda ev: rules.new_helper(ev) or ev.d.get("meth") == "reset_individual_attributes", loop_iters=iters)
            for st in w.paths_of(cls, fn):
                if st.status == "raise":
                    continue
                for i, e in enumerate(st.events):
                    if e.kind != "call":
                        continue
                    n += 1
                    last = {}
                    for x in st.events[:i]:
                        if x.kind == "assign":
                            last[x.d["target"].split(".")[-1]] = x
                    bad = [a for a in attrs if a not in last or last[a].d["value"].replace(" ", "") != "False"]
                    ob.ok("%s.%s:%s" % (cls.name, m, ",".join(bad) or "reset"), "%s.%s: %s" % (view.name, m, " -> ".join(x.text[:45] for x in st.events[:i + 1])))
                    if bad and (cls.name, m) not in done:
                        done.add((cls.name, m))
                        ctx.violation(ob, "R7.handover-reset", "%s.%s" % (cls.name, m), e.text.split("(")[0] + "(...)", "service-attributes-not-cleared",
                                      "%s not reset to False on a path to the hand-over: the next node would not draw a sample for this customer (it treats a customer "
                                      "whose service_time is set as a pre-empted one and reuses stored values)" % ", ".join(bad), e.where, witness(st))
    ctx.floor("hand-over calls on release/renege paths", n, 4)


def service_duration(ctx, P, iters):
    ob = ctx.ob("SVC", "every service start: service_time <- get_service_time(that customer) / stored option on the same path, and service_end_date = start + that customer's service_time")
    done = set()
    n = 0
    for view in family_views(P, "Node"):
        for m in view.methods():
            cls, fn = view.resolve(m)
            if cls.name == "PSNode" or rules.effective_names(P, cls, fn) <= {"release_blocked_individual", "reset_individual_attributes", "__init__"}:
                continue        # (restoring an interrupted customer's original dates is not a service start)
            if m not in rules.ANCHOR_METHODS:
                continue        # newly extracted helpers are analysed inside the pinned methods that call them
            if not any(isinstance(x, ast.Assign) and isinstance(x.targets[0], ast.Attribute) and x.targets[0].attr == "service_end_date" and unparse(x.value) not in ("False", "True") for x in ast.walk(fn)):
                continue

            def keep(e):
                if e.kind == "assign" and not e.d.get("local"):
                    t = e.d["target"]
                    return t.endswith(".service_start_date") or t.endswith(".service_end_date") or t.endswith(".service_time")
                return e.kind == "call" and e.d["meth"] in ("get_service_time", "give_individual_a_service_time", "give_service_time_after_preemption")
            w = Walker(P, view, keep=keep, inline=rules.new_helper, loop_iters=iters)
            for st in w.paths_of(cls, fn):
                if st.status == "raise":
                    continue
                evs = st.events
                for i, e in enumerate(evs):
                    if not (e.kind == "assign" and e.d["target"].endswith(".service_end_date") and e.d["value"] not in ("False", "True")):
                        continue
                    tok = e.d["target"][: -len(".service_end_date")].replace(" ", "")
                    n += 1
                    val = e.d["value"].replace(" ", "")
                    forms = ("self.now+%s.service_time" % tok, "self.increment_time(%s.service_start_date,%s.service_time)" % (tok, tok), "self.increment_time(self.now,%s.service_time)" % tok,
                             "%s.service_start_date+%s.service_time" % (tok, tok))
                    ob.ok("%s.%s:%s" % (cls.name, m, val[:40]), "%s.%s: %s" % (view.name, m, " -> ".join(x.text[:45] for x in evs[:i + 1])))
                    try:
                        terms = rules.sum_terms(val)
                    except SyntaxError:
                        terms = None
                    if val not in forms and terms not in (sorted(["self.now", tok + ".service_time"]), sorted([tok + ".service_start_date", tok + ".service_time"])):
                        if (cls.name, m, "form") not in done:
                            done.add((cls.name, m, "form"))
                            ctx.violation(ob, "R7.service-duration", "%s.%s" % (cls.name, m), e.text, "end-not-start-plus-service-time",
                                          "service_end_date must be this customer's start + this customer's service_time", e.where, witness(st))
                        continue
                    st_asg = [x for x in evs[:i] if x.kind == "assign" and x.d["target"].replace(" ", "") == tok + ".service_time"]
                    helper = [x for x in evs[:i] if x.kind == "call" and x.d["meth"] in ("give_individual_a_service_time", "give_service_time_after_preemption")
                              and (x.d["args"] + ["?"])[0].replace(" ", "").strip("()") == tok.strip("()")]
                    if helper and not st_asg:
                        continue      # the helper assigns it; its own body is checked below (and its option branches by C11)
                    if not st_asg:
                        if (cls.name, m, "nosample") not in done:
                            done.add((cls.name, m, "nosample"))
                            ctx.violation(ob, "R7.service-duration", "%s.%s" % (cls.name, m), e.text, "service-time-not-assigned",
                                          "no service_time is given to %s on this path before the end date is computed (stale or False value would be used)" % tok, e.where, witness(st))
                        continue
                    last = st_asg[-1]
                    lv = last.d["value"].replace(" ", "")
                    okk = lv in ("self.get_service_time(%s)" % tok, "%s.original_service_time" % tok, "%s.time_left" % tok)
                    if not okk and (cls.name, m, "src") not in done:
                        done.add((cls.name, m, "src"))
                        ctx.violation(ob, "R7.service-duration", "%s.%s" % (cls.name, m), last.text, "service-time-source",
                                      "service_time must be the sample drawn for this customer (get_service_time(%s)) or its stored restart/resume value" % tok, last.where, witness(st))
    ctx.floor("service end-date assignments on start paths", n, 6)
    for view in family_views(P, "Node"):
        cls, fn = view.method("give_individual_a_service_time")
        tok = fn.args.args[1].arg
        w = Walker(P, view, keep=lambda e: e.kind == "guard" or (e.kind == "assign" and not e.d.get("local")) or (e.kind == "call" and e.d["meth"] in ("give_service_time_after_preemption",)),
                   track=lambda t, f: True, inline=rules.new_helper)
        okk, npaths = True, 0
        for st in w.paths_of(cls, fn):
            if st.status == "raise":
                continue
            npaths += 1
            facts = rules.path_condition(st.events)
            fresh = facts.get(("truth", tok + ".service_time"))
            asg = [e for e in st.events if e.kind == "assign"]
            calls = [e for e in st.events if e.kind == "call"]
            if fresh is False:
                okk = okk and len(asg) == 1 and asg[0].d["target"] == tok + ".service_time" and asg[0].d["value"].replace(" ", "") == "self.get_service_time(%s)" % tok and not calls
            elif fresh is True:
                okk = okk and not asg and len(calls) == 1 and calls[0].d["args"] == [tok]
            else:
                okk = False
        ob.ok("%s.give_individual_a_service_time" % view.name)
        if not okk or npaths != 2:
            ctx.violation(ob, "R7.service-duration", "%s.give_individual_a_service_time" % cls.name, "fresh customer -> get_service_time; otherwise restart option", "service-time-source",
                          "a customer without service_time must get a fresh sample for itself, a pre-empted one its restart option", loc(fn))
