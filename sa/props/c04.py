"""C04 Server exclusivity -- R13 attach/detach typestate, R1 who-writes-the-link, link symmetry, blocked keeps server,
alive check, who mutates self.servers (DESIGN §4 C04)."""
import ast

from .. import guards, rules, typestate
from ..model import AnalysisError, call_name, loc, unparse
from ..paths import Walker
from ..rules import family_views, witness, facts_text
from . import c07

EXPLANATION = (
    "Static typestate analysis of the server<->customer link over all paths from every event-handler root of the Node-family views (self-calls spliced, "
    "so arguments are resolved to root-level expressions): every attach_server(S, I) takes S from find_free_server (tested not None), from the `not s.busy` "
    "filter over self.servers, or from a detatch_server earlier on the same path followed by the alive test `S in self.servers` (detatch may kill an off-duty "
    "server), and takes I from choose_next_customer (which filters `not ind.server`), the head of interrupted_individuals or the class-changing waiting customer; "
    "every detatch_server(S, I) has S == I.server; attach/detatch write the three link fields symmetrically; the link fields and self.servers are written only "
    "by their owner methods; the block branch of finish_service reaches no attach/detach. 'At most c in service at every instant' and the utilisation value "
    "follow from this only together with the event history and are not decided.")
RULE = "instances = attach/detach call events on all spliced paths from the handler roots of each view; classification by reaching definitions and implied guards"


def check(ctx):
    P = ctx.program
    iters = (0, 1)
    views = family_views(P, "Node")
    attach_detach(ctx, P, views, iters)
    link_writers(ctx, P, views)
    c07.block_keeps_server(ctx, P, views, iters)
    busy_time_accounting(ctx, P, views)
    class_change_disarmed(ctx, P, views, iters)
    # a customer holding a server must not be taken out of the node by the renege scan (shared instance)
    from . import c13
    c13.renege_scan(ctx, P)
    # priority pre-emption hands the victim's server to the newcomer: the victim must be the customer of a server on duty (taken from self.servers, not from
    # the customers' own `server` links, which an interrupted customer keeps after its server has gone) -- shared instance, C11
    from . import c11
    c11.victim(ctx, P, views)
    ctx.assume("custom server_priority_function / service disciplines return an element of their argument")


def attach_detach(ctx, P, views, iters, skip=()):
    ob = ctx.ob("R13.att", "every attach_server(S, I): S is free by find/filter or just detached and alive; I is chosen-waiting, interrupted-head or the class-changer")
    ob2 = ctx.ob("R13.det", "every detatch_server(S, I) has S == I.server")
    done = set()
    na = nd = 0
    for view in views:
        for root, params, site in typestate.sites(P, view, iters):
            e = site.ev
            if site.kind == "attach_server":
                na += 1
                sk, sok = typestate.classify_server(site)
                ck, cok = typestate.classify_customer(site, params)
                ob.ok("%s:%s:%s/%s" % (site.method, root, sk, ck), "%s from root %s: attach(%s [%s], %s [%s])" % (site.method, root, site.server, sk, site.cust, ck))
                reason = None
                if sk == "DETACHED" and not sok:
                    reason, msg = "needs-alive-check", ("the server was detached earlier on this path; detatch_server kills an off-duty server, so it must be tested "
                                                        "`in self.servers` before it is attached again (begin_service_if_possible_release does)")
                elif sk == "FIND" and not sok:
                    reason, msg = "find-result-not-tested", "the result of find_free_server is attached without the `is not None` test"
                elif sk not in ("DETACHED", "FIND", "FILTER"):
                    reason, msg = "server-provenance-" + sk.lower(), "the server attached here is neither a free server (find/filter) nor one just detached"
                if reason is None and ck == "CHOSEN" and not cok:
                    reason, msg = "chosen-customer-not-tested", "choose_next_customer() may return None"
                elif reason is None and ck not in ("CHOSEN", "INTERRUPTED", "CLASSCHANGER"):
                    reason, msg = "customer-provenance-" + ck.lower(), "the customer given a server is not one selected among those without server"
                if reason and any(w_.split(".")[-1] in skip for w_ in ctx._anchor_wheres(site.method)):
                    reason = None
                if reason:
                    arg_s = "server" if sk == "DETACHED" else site.server.split("__")[0]
                    construct = "attach_server(%s, %s)" % (unparse(e.node.args[0]) if e.node.args else "?", unparse(e.node.args[1]) if len(e.node.args) > 1 else "?")
                    k = (site.method, construct, reason)
                    if k not in done:
                        done.add(k)
                        ctx.violation(ob, "R13.attach", site.method, construct, reason, "%s [reached from %s; server: %s, customer: %s]" % (msg, root, sk, ck), e.where, witness(site.st, 16))
            else:
                nd += 1
                ob2.ok("%s:%s" % (site.method, root), "%s from root %s: detach(%s, %s)" % (site.method, root, site.server, site.cust))
                if site.server != site.cust + ".server":
                    construct = unparse(e.node)
                    k = (site.method, construct)
                    if k not in done:
                        done.add(k)
                        ctx.violation(ob2, "R13.detach", site.method, construct, "detach-wrong-pair", "detatch_server(S, I) must be given I's own server (S == I.server); here S = %s, I = %s" % (site.server, site.cust), e.where, witness(site.st, 16))
    ctx.floor("attach_server call events", na, 5)
    ctx.floor("detatch_server call events", nd, 2)
    # syntactic floor on distinct call sites
    asites = [c for c in rules.calls_named(P, "attach_server") if c[0] and c[0].name in P.subclasses("Node")]
    dsites = [c for c in rules.calls_named(P, "detatch_server") if c[0] and c[0].name in P.subclasses("Node")]
    ctx.floor("attach_server call sites", len(asites), 1)
    ctx.floor("detatch_server call sites", len(dsites), 2)
    covered = set()
    for view in views:
        for root, params, site in typestate.sites(P, view, iters):
            covered.add(id(site.ev.node))
    for ci, fn, call in asites + dsites:
        if id(call) not in covered:
            ctx.violation(ob, "R13.attach", rules.qual(ci, fn), unparse(call), "site-not-reached-from-roots",
                          "attach/detach call site is not reached from any analysed event-handler root, so its arguments are unchecked", loc(call))


def link_writers(ctx, P, views):
    ob = ctx.ob("R1.link", "Server.cust/busy and Individual.server are written only by attach_server/detatch_server (+ slotted marker, constructors); symmetric link updates; self.servers mutated only by its three owners")
    allowed = {"cust": {"attach_server", "detatch_server", "__init__"}, "busy": {"attach_server", "detatch_server", "__init__"},
               "server": {"attach_server", "detatch_server", "__init__", "slotted_service", "release"}}
    n = 0
    for attr, ok in allowed.items():
        for ci, fn, node, recv, how in rules.attr_writes(P, attr):
            n += 1
            q = rules.qual(ci, fn)
            ob.seen("%s:%s.%s" % (q, recv, attr))
            names_ = rules.effective_names(P, ci, fn)
            if not (names_ & ok):
                ctx.violation(ob, "R1.link-writer", q, unparse(node), "extra-writer", "%s.%s written outside attach_server/detatch_server" % (recv, attr), loc(node))
            elif attr == "server" and names_ & {"slotted_service", "release"} and not names_ & {"attach_server", "detatch_server"}:
                v = unparse(node.value) if isinstance(node, ast.Assign) else "?"
                if v not in ("True", "False"):
                    ctx.violation(ob, "R1.link-writer", q, unparse(node), "slotted-marker", "outside attach/detach only the slotted True/False marker may be written", loc(node))
    ctx.floor("link-field writes", n, 8)
    for view in views:
        for m, vals in (("attach_server", ("individual", "True", "server")), ("detatch_server", ("False", "False", "False"))):
            cls, fn = view.method(m)
            ps = [a.arg for a in fn.args.args][1:]
            want = {"%s.cust" % ps[0]: vals[0] if m == "detatch_server" else ps[1], "%s.busy" % ps[0]: vals[1], "%s.server" % ps[1]: vals[2] if m == "detatch_server" else ps[0]}
            w = Walker(P, view, keep=lambda e: e.kind == "assign" and e.d["target"] in want, inline=rules.new_helper)
            for st in w.paths_of(cls, fn):
                if st.status == "raise":
                    continue
                got = {e.d["target"]: e.d["value"] for e in st.events}
                ob.ok("%s.%s:link" % (view.name, m), "%s.%s: %s" % (view.name, m, "; ".join(x.text for x in st.events)))
                if got != want:
                    ctx.violation(ob, "R13.link-symmetry", "%s.%s" % (cls.name, m), "; ".join("%s = %s" % kv for kv in sorted(want.items())), "link-fields",
                                  "%s must write all three link fields (%s); a stale server.cust / individual.server is read by take_servers_off_duty, decide_preempt and the waiting scans"
                                  % (m, ", ".join("%s=%s" % kv for kv in sorted(want.items()))), loc(fn), witness(st))
    owners = {"create_starting_servers", "add_new_servers", "kill_server", "__init__"}
    k = 0
    for ci, fn, node, recv, how in rules.attr_writes(P, "servers"):
        if ci is None or ci.name not in P.subclasses("Node"):
            continue
        k += 1
        ob.seen("servers:%s:%s" % (rules.qual(ci, fn), how))
        if not (rules.effective_names(P, ci, fn) & owners) or recv != "self":
            ctx.violation(ob, "R1.servers-owner", rules.qual(ci, fn), unparse(node), "extra-writer", "self.servers mutated outside create_starting_servers / add_new_servers / kill_server", loc(node))
    ctx.floor("self.servers mutations", k, 3)


class _Unfold(ast.NodeTransformer):
    """increment_time(a, b) -> a + b ; Decimal(str(x)) / Decimal(x) -> x   (for comparing accounting formulas)"""

    def visit_Call(self, n):
        self.generic_visit(n)
        if call_name(n) == "increment_time" and len(n.args) == 2:
            return ast.BinOp(left=n.args[0], op=ast.Add(), right=n.args[1])
        if call_name(n) in ("Decimal", "str") and len(n.args) == 1:
            return n.args[0]
        return n


def class_change_disarmed(ctx, P, views, iters):
    """a customer that enters service must leave the waiting-customer scans: the start of a waiting customer is followed, in the same activation, by
    reset_class_change(that customer).  Otherwise the class-change handler later runs for a customer in service and decide_preempt/attach_server hands it a
    second server while it still holds the first."""
    ob = ctx.ob("CCOFF", "every service start of a waiting customer disarms its class-change timer (reset_class_change) in the same activation")
    done = set()
    n = 0
    for view in views:
        if "PSNode" in view.mro:
            continue        # processor-sharing nodes have c = inf: no class-change events are produced there
        for s in typestate.starts(P, view, iters):
            e = s["event"]
            if e.d["value"] != "self.now":
                continue
            kind, _ = typestate.classify_customer(s["site"], s["params"])
            if kind == "INTERRUPTED":
                continue        # restarted customers were in service before: their timer is already off
            n += 1
            tok = s["token"].strip("()")
            evs = s["state"].events
            off = [x for x in evs[s["idx"]:] if x.kind == "call" and x.d["meth"] == "reset_class_change" and (x.d["args"] + ["?"])[0].strip("()") == tok and x.frame.fid == e.frame.fid]
            ob.ok("%s:%s" % (e.frame.qual, s["root"]), "%s from %s: start of %s, reset_class_change: %s" % (e.frame.qual, s["root"], tok, bool(off)))
            if not off and e.frame.qual not in done:
                done.add(e.frame.qual)
                ctx.violation(ob, "R4.must-follow", e.frame.qual, e.text, "class-change-timer-left-armed",
                              "%s starts service here but reset_class_change(%s) does not follow: its pending class change stays cached, fires while it is in service, and "
                              "decide_preempt/attach_server then gives it a second server" % (tok.split("__")[0], tok.split("__")[0]), e.where, witness(s["state"], 16))
    ctx.floor("service starts of waiting customers", n, 5)


def _ancestors_until(n, stop):
    p = getattr(n, "_parent", None)
    while p is not None and p is not stop:
        yield p
        p = getattr(p, "_parent", None)


def _lin(node):
    from ..lin import linear
    t = _Unfold().visit(ast.parse(unparse(node), mode="eval").body)
    return linear(unparse(ast.fix_missing_locations(t)))


def busy_time_accounting(ctx, P, views):
    ob = ctx.ob("UTIL", "busy-time accounting: a server is busy from its customer's service start until that customer leaves (exit_date, blocked time included); total = now/horizon - start_date; utilisation = sum busy / sum total over all servers")
    def want(cls, m, node, got, terms, why):
        lin = _lin(rules.inline_locals(fn, got)) if got is not None else None       # (fn: the method being examined; temporaries are read through)
        ob.ok("%s.%s:%s" % (cls.name, m, unparse(node)[:40]), "%s.%s: %s" % (cls.name, m, unparse(node)[:90]))
        if lin is not None and lin[0] != terms and lin[1] == 0:
            # a field stored from the same expression names the same value (`t = now - start; srvr.total_time = t; archive.append(t)`): expected field terms are
            # spelled out with what the field was assigned in this method
            exp = dict(terms)
            for y in ast.walk(fn):
                if isinstance(y, ast.Assign) and len(y.targets) == 1 and isinstance(y.targets[0], ast.Attribute) and unparse(y.targets[0]) in exp and y is not node:
                    sub = _lin(rules.inline_locals(fn, y.value))
                    if sub is not None and sub[1] == 0:
                        k_ = exp.pop(unparse(y.targets[0]))
                        for t_, c_ in sub[0].items():
                            exp[t_] = exp.get(t_, 0) + k_ * c_
                        exp = {t_: c_ for t_, c_ in exp.items() if c_ != 0}
            if lin[0] == exp:
                return
        if lin is None or lin[0] != terms or lin[1] != 0:
            ctx.violation(ob, "R8.busy-time", "%s.%s" % (cls.name, m), unparse(node)[:100], "accounting-formula", why, loc(node))
    for view in views:
        if "PSNode" in view.mro:
            continue
        cls, fn = view.method("detatch_server")
        srv, ind = [a.arg for a in fn.args.args][1:3]
        asg = {unparse(x.targets[0]): x for x in ast.walk(fn) if isinstance(x, ast.Assign)}
        b = asg.get(srv + ".busy_time")
        if b is None:
            ctx.violation(ob, "R8.busy-time", "%s.detatch_server" % cls.name, srv + ".busy_time", "accounting-missing", "detatch_server must add the time the server was attached to its customer", loc(fn))
        else:
            want(cls, "detatch_server", b, b.value, {srv + ".busy_time": 1, ind + ".exit_date": 1, ind + ".service_start_date": -1},
                 "busy time must grow by exit_date - service_start_date of the departing customer (a blocked customer keeps its server until it leaves)")
        # (server.total_time written at detach is overwritten by kill_server / wrap_up_servers before anything reads it: not an obligation)
        cls, fn = view.method("kill_server")
        srv = fn.args.args[1].arg
        for x in ast.walk(fn):
            if isinstance(x, ast.Assign) and unparse(x.targets[0]) == srv + ".total_time":
                want(cls, "kill_server", x, x.value, {"self.next_event_date": 1, srv + ".start_date": -1}, "a retiring server's total time is the event date - start_date")
            if isinstance(x, ast.Call) and call_name(x) == "append" and unparse(x.func.value) in ("self.all_servers_busy", "self.all_servers_total") and x.args:
                f = "busy_time" if "busy" in unparse(x.func.value) else "total_time"
                want(cls, "kill_server", x, x.args[0], {srv + "." + f: 1}, "the retiring server's %s is what must be archived" % f)
        cls, fn = view.method("wrap_up_servers")
        hor = fn.args.args[1].arg
        loops = [x for x in ast.walk(fn) if isinstance(x, ast.For)]
        sv = unparse(loops[0].target) if loops else "srvr"
        for x in ast.walk(fn):
            if isinstance(x, (ast.Assign, ast.AugAssign)):
                tgt = unparse(x.targets[0] if isinstance(x, ast.Assign) else x.target)
                val = x.value if isinstance(x, ast.Assign) else ast.BinOp(left=x.target, op=x.op, right=x.value)
                if tgt == sv + ".total_time":
                    want(cls, "wrap_up_servers", x, val, {hor: 1, sv + ".start_date": -1}, "at a stop a live server's total time is horizon - start_date")
                if tgt == sv + ".busy_time":
                    want(cls, "wrap_up_servers", x, val, {sv + ".busy_time": 1, hor: 1, sv + ".cust.service_start_date": -1}, "at a stop a busy server is credited horizon - its customer's service start")
                    p_ = x
                    okb = False
                    while p_ is not fn:
                        p_ = p_._parent
                        if isinstance(p_, ast.If) and guards.norm(p_.test, unparse) == ("truth", sv + ".busy"):
                            okb = True
                    if not okb:
                        ctx.violation(ob, "R8.busy-time", "%s.wrap_up_servers" % cls.name, unparse(x)[:80], "accounting-guard", "only a busy server has a running service to credit", loc(x))
        # kill_server archives the server's busy_time: nothing may be credited to a server after it has been archived
        for m in view.methods():
            cls2, fn2 = view.resolve(m)
            if not any(isinstance(x, ast.Call) and call_name(x) == "kill_server" for x in rules.walk(P, view, fn2)):
                continue
            w = Walker(P, view, keep=lambda e: (e.kind == "call" and e.d["meth"] == "kill_server") or (e.kind in ("assign", "aug") and e.d["target"].endswith(".busy_time")),
                       inline=lambda ev: rules.new_helper(ev) and ev.d["meth"] != "kill_server")
            late = None
            for st in w.paths_of(cls2, fn2):
                if st.status == "raise":
                    continue
                killed = set()
                for e in st.events:
                    if e.kind == "call":
                        killed.add((e.d["args"] + ["?"])[0])
                        ob.ok("%s.%s:kill" % (cls2.name, m), "%s.%s: %s" % (cls2.name, m, e.text))
                    elif e.d["target"][: -len(".busy_time")] in killed:
                        late = late or (e, st)
            if late:
                e, st = late
                ctx.violation(ob, "R8.busy-time", "%s.%s" % (cls2.name, m), e.text[:100], "credited-after-archive",
                              "kill_server has already copied this server's busy_time into all_servers_busy: time credited afterwards never reaches the utilisation", e.where, witness(st))
        cls, fn = view.method("find_server_utilisation")
        for x in ast.walk(fn):
            if isinstance(x, ast.Assign) and unparse(x.targets[0]) == "self.server_utilisation" and unparse(x.value) != "None":
                ob.ok("%s.find_server_utilisation" % cls.name, unparse(x))
                if unparse(x.value).replace(" ", "") != "sum(self.all_servers_busy)/sum(self.all_servers_total)":
                    ctx.violation(ob, "R8.busy-time", "%s.find_server_utilisation" % cls.name, unparse(x)[:100], "utilisation-formula", "utilisation = total busy time / total server time", loc(x))
            if isinstance(x, ast.Call) and call_name(x) == "append" and unparse(x.func.value) in ("self.all_servers_busy", "self.all_servers_total") and x.args:
                f = "busy_time" if "busy" in unparse(x.func.value) else "total_time"
                lp = x
                while lp is not fn and not isinstance(lp, ast.For):
                    lp = lp._parent
                v = unparse(lp.target) if isinstance(lp, ast.For) else "server"
                want(cls, "find_server_utilisation", x, x.args[0], {v + "." + f: 1}, "each live server's %s is what must be added" % f)
                if not (isinstance(lp, ast.For) and unparse(lp.iter) == "self.servers"):
                    ctx.violation(ob, "R8.busy-time", "%s.find_server_utilisation" % cls.name, unparse(x)[:80], "not-all-servers", "every live server must be counted", loc(x))
                elif any(isinstance(y, (ast.Continue, ast.Break)) for y in ast.walk(lp)) or any(isinstance(a_, ast.If) for a_ in _ancestors_until(x, lp)):
                    ctx.violation(ob, "R8.busy-time", "%s.find_server_utilisation" % cls.name, unparse(x)[:80], "not-all-servers",
                                  "every live server must be counted: the loop skips some servers (a server working overtime is still alive and has not been archived)", loc(x))
