"""C02 Causal monotone time -- structural clauses (DESIGN §4 C02): clock discipline (R1), next event = minimum (R6),
date provenance (R7), timer re-arm / disarm (R7), record arithmetic (R8)."""
import ast

from .. import guards, rules, scans, dates
from ..model import AnalysisError, call_name, loc, unparse, is_self_attr
from ..paths import Walker
from ..rules import family_views, witness, facts_text

EXPLANATION = (
    "Static analysis: (1) Simulation.current_time is written only in __init__ and by the three simulate_* loops, always from <node>.next_event_date of the node "
    "returned by find_next_active_node / event_and_return_nextnode, never inside an event; (2) all nine arg-min scans that select events (and the JSQ router) start "
    "from +inf, replace the running best only by a smaller key, store the key they compared, run over the whole collection and feed their result to the consumer -- "
    "so the executed event is a minimum; (3) every write of a date field (55 sites) has one of the allowed abstract values for that field (now, now + sampled or stored "
    "duration, start + duration, +inf, sentinel): nothing is scheduled as now minus something or copied from an unrelated field; (4) waiting timers (reneging_date, "
    "class_change_date) are armed at every entry into the waiting state and every handler disarms or re-arms the timer that fired it on every path; (5) in each of the "
    "four DataRecord constructions the derived fields are the differences of the record's own primary fields. The inequalities arrival <= start <= end <= exit as runtime "
    "values (non-negativity of time_left, float rounding) are not decided.")
RULE = "instances = clock writes, scan loops, date-field writes, waiting-state entries, handler paths and DataRecord call sites found on the tree"

SCAN_TABLE = {
    # Class.method: (collection text, required-true filter atoms on both arms (with VAR = loop variable), consumer check name)
    "Simulation.find_next_active_node": ("self.active_nodes", [], None),
    "ArrivalNode.find_next_event_date": ("self.event_dates_dict[OUTER]", [], None),
    "Node.update_next_end_service_without_server": ("self.all_individuals", [("not", ("truth", "VAR.is_blocked"))], None),
    "Node.update_next_end_service_with_server": ("self.servers", [], None),
    "Node.update_next_renege_time": ("self.all_individuals", [("not", ("truth", "VAR.server"))], None),
    "Node.find_next_class_change": ("self.all_individuals", [("not", ("truth", "VAR.server"))], None),
    "Node.decide_next_event": (None, [], None),
    "Node.decide_class_change": (None, [], None),
    "JoinShortestQueue.next_node": ("self.destinations", [], None),
}

EXTRA_FILTERS = {
    # further conditions that are part of a scan by design (text with VAR for the loop variable)
    "Node.update_next_end_service_without_server": ["VAR.service_end_date < self.now"],       # `service_end_date >= now`: sentinel False compares below any date
    "Node.decide_class_change": [],
    "JoinShortestQueue.next_node": [],
}

ALLOWED = {
    "arrival_date": {"NOW", "SENT"},
    "exit_date": {"NOW", "SENT"},
    "service_start_date": {"NOW", "SENT", "COPY:original_service_start_date"},
    "service_end_date": {"NOW+DUR", "START+DUR", "SENT"},
    "reneging_date": {"NOW+DUR", "INF"},
    "class_change_date": {"NOW+DUR", "INF"},
    "next_end_service_date": {"COPY:service_end_date", "INF"},
    "date_last_update": {"NOW"},
    "original_service_start_date": {"COPY:service_start_date"},
}


def check(ctx):
    P = ctx.program
    iters = (0, 1)
    clock(ctx, P, iters)
    scan_rules(ctx, P)
    provenance(ctx, P)
    sentinel_tests(ctx, P)
    rearm(ctx, P, iters)
    armed_while_waiting(ctx, P, iters)
    records(ctx, P)
    # shared instances: a record with start/end dates in order needs the interrupted customer to be one in service, and each PS visit to start from a clean state
    from . import c12, c19
    c12.interrupt_in_service(ctx, P, family_views(P, "Node"), iters)
    # shift-change and slot dates all come from the one cyclic generator (offset + boundary[i % n] + (i // n) * cycle): a second formula for some schedule
    # kind (a cycle without the offset) produces a date in the past at the wrap-around (shared instance, C12)
    c12.timetable(ctx, P)
    if "PSNode" in P.classes:
        c19.reproject(ctx, P, P.view("PSNode"))
    ctx.assume("distributions return non-negative samples (the property's own proviso; C10 checks the engine validates them)")


def _fresh_local_value(fn, use, v):
    """`t = n.next_event_date ... self.current_time = t`: the local names the date when it is assigned once, in the same loop (or none) as its use, and the
    node variable is not reassigned between the two; otherwise the expression itself"""
    if not isinstance(v, ast.Name):
        return v
    defs = [x for x in ast.walk(fn) if isinstance(x, ast.Assign) and any(isinstance(t, ast.Name) and t.id == v.id for t in x.targets)]
    stores = [x for x in ast.walk(fn) if isinstance(x, ast.Name) and x.id == v.id and isinstance(x.ctx, ast.Store)]
    if len(defs) != 1 or len(stores) != 1 or len(defs[0].targets) != 1:
        return v
    d = defs[0]
    def loops_of(x):
        out = []
        while getattr(x, "_parent", None) is not None and x is not fn:
            x = x._parent
            if isinstance(x, (ast.For, ast.While)):
                out.append(x)
        return out
    if loops_of(d) != loops_of(use):
        return v
    o = scans.order_of(fn)
    roots = {x.id for x in ast.walk(d.value) if isinstance(x, ast.Name)}
    for x in ast.walk(fn):
        if isinstance(x, ast.Name) and isinstance(x.ctx, ast.Store) and x.id in roots and o.get(id(d), -1) < o.get(id(x), -1) < o.get(id(use), -1):
            return v
    if not o.get(id(d), -1) < o.get(id(use), -1):
        return v
    return d.value


def clock(ctx, P, iters):
    ob = ctx.ob("CLK", "current_time is written only in Simulation.__init__ (0) and in the simulate_* loops, from <n>.next_event_date with n = find_next_active_node() / event_and_return_nextnode(...)")
    n = 0
    for ci, fn, node, recv, how in rules.attr_writes(P, "current_time"):
        n += 1
        q = rules.qual(ci, fn)
        ob.seen("%s:%s" % (q, unparse(node)[:40]))
        if ci is None or ci.name != "Simulation" or recv != "self" or how != "assign":
            ctx.violation(ob, "R1.clock-writer", q, unparse(node), "clock-written-elsewhere", "the clock may only be written by the Simulation's own loops (it must be constant during an event)", loc(node))
            continue
        names_ = rules.effective_names(P, ci, fn)
        if "__init__" in names_:
            continue
        if not all(x.startswith("simulate_") for x in names_):
            ctx.violation(ob, "R1.clock-writer", q, unparse(node), "clock-written-elsewhere", "the clock is advanced outside the simulate_* loops", loc(node))
            continue
        v = _fresh_local_value(fn, node, node.value)
        okk = isinstance(v, ast.Attribute) and v.attr == "next_event_date" and isinstance(v.value, ast.Name)
        if okk:
            src = v.value.id
            okk = _selected_node(P, P.view("Simulation"), fn, src)
        if not okk:
            ctx.violation(ob, "R1.clock-source", q, unparse(node), "clock-not-from-next-event",
                          "the clock must be set to the next_event_date of the node selected as next active node (each event is executed exactly at its scheduled date)", loc(node))
    ctx.floor("clock writes", n, 2)
    for m in ("simulate_until_max_time", "simulate_until_max_customers", "simulate_until_deadlock"):
        cls, fn = P.view("Simulation").method(m)
        k = sum(1 for x in rules.walk(P, P.view("Simulation"), fn) if isinstance(x, ast.Assign) and any(is_self_attr(t, "current_time") for t in x.targets))
        if k < 2:
            ctx.unrecognised("CLK: %s advances the clock at %d site(s), expected the prologue and the loop" % (m, k))
    # event_and_return_nextnode returns the arg-min node
    sim = P.view("Simulation")
    cls, fn = sim.method("event_and_return_nextnode")
    rets = [x for x in ast.walk(fn) if isinstance(x, ast.Return)]
    ob.ok("event_and_return_nextnode:return")
    if len(rets) != 1 or unparse(rets[0].value) != "self.find_next_active_node()":
        ctx.violation(ob, "R1.clock-source", "Simulation.event_and_return_nextnode", "return", "not-the-minimum-node", "the node handed back to the loop must be find_next_active_node()", loc(fn))
    # active_nodes covers every node with events
    init = sim.method("__init__")[1]
    okk = any(isinstance(x, ast.Assign) and any(is_self_attr(t, "active_nodes") for t in x.targets) and unparse(x.value) == "self.nodes[:-1]" for x in rules.walk(P, sim, init))
    ob.ok("active_nodes")
    if not okk:
        ctx.violation(ob, "R6.scan-collection", "Simulation.__init__", "self.active_nodes", "not-all-nodes", "active_nodes must be every node but the exit (arrival node + all service nodes)", loc(init))
    writers = [x for x in rules.attr_writes(P, "active_nodes")]
    if any("__init__" not in rules.effective_names(P, c, f) for c, f, nd, r, h in writers):
        ctx.violation(ob, "R6.scan-collection", "Simulation", "active_nodes", "rewritten", "active_nodes is modified after construction", "")


def _selected_node(P, view, fn, name, depth=0):
    """every definition of local `name` in fn is find_next_active_node() / event_and_return_nextnode(...), directly or as the value returned by a newly
    extracted helper"""
    defs = [x for x in ast.walk(fn) if isinstance(x, ast.Assign) and any(isinstance(t, ast.Name) and t.id == name for t in x.targets)]
    if not defs:
        # a parameter of a newly extracted helper: every call site must pass a selected node
        params = [a.arg for a in fn.args.args]
        if name in params and fn.name not in rules.ANCHOR_METHODS and depth < 4:
            k = params.index(name) - 1
            sites = [(c2, f2, call) for c2, f2, call in rules.calls_named(P, fn.name) if f2 is not fn]
            if not sites:
                return False
            for c2, f2, call in sites:
                arg = call.args[k] if 0 <= k < len(call.args) else next((kw.value for kw in call.keywords if kw.arg == name), None)
                if not (isinstance(arg, ast.Name) and _selected_node(P, view, f2, arg.id, depth + 1)):
                    return False
            return True
        return False
    for d in defs:
        if not (isinstance(d.value, ast.Call) and _selecting_call(P, view, d.value, depth)):
            return False
    return True


def _selecting_call(P, view, call, depth=0):
    nm = call_name(call)
    if nm in ("find_next_active_node", "event_and_return_nextnode"):
        return True
    if depth > 3 or nm in rules.ANCHOR_METHODS or not (isinstance(call.func, ast.Attribute) and unparse(call.func.value) == "self"):
        return False
    r = view.resolve(nm)
    if r is None:
        return False
    h = r[1]
    rets = [x for x in ast.walk(h) if isinstance(x, ast.Return)]
    if not rets:
        return False
    for rt in rets:
        v = rt.value
        if isinstance(v, ast.Call) and _selecting_call(P, view, v, depth + 1):
            continue
        if isinstance(v, ast.Name) and _selected_node(P, view, h, v.id, depth + 1):
            continue
        return False
    return True


def scan_rules(ctx, P):
    ob = ctx.ob("SCAN", "arg-min scans: best starts at +inf, replaced only by a smaller key, the compared key is stored, whole collection scanned, filters on both arms, result consumed")
    found, minfilters = {}, {}
    for ci, fn in P.all_functions():
        for sc in scans.find_scans(fn):
            # a scan over a collection handed in by the callers (a generic "earliest of these" helper fed with generators): which collection and which filters
            # each caller supplies is not visible in the scan itself -- undecided rather than judged against the wrong table entry
            params_ = {a.arg for a in fn.args.args}
            if isinstance(sc.loop.iter, ast.Name) and sc.loop.iter.id in params_ and fn.name not in rules.ANCHOR_METHODS:
                ctx.unrecognised("SCAN: %s scans a collection supplied by its callers (`%s`); the callers' collections and filters are not resolved" % (P.func_name(fn), sc.loop.iter.id))
                continue
            for q in ctx._anchor_wheres(P.func_name(fn)):       # a scan moved into a helper still belongs to the pinned method it serves
                found.setdefault(q, []).append(sc)
        for mf in scans.find_minfilters(fn):
            if mf.how == "min-call":
                # min(KEY(v) for v in COLL) then [v for v in COLL if KEY(v) == best]: minimal by construction over the whole collection
                for q in ctx._anchor_wheres(P.func_name(fn)):
                    minfilters.setdefault(q, []).append(mf)
    loose = {}
    for ci, fn in P.all_functions():
        for bname, cst in scans.loose_minfilters(fn):
            for q in ctx._anchor_wheres(P.func_name(fn)):
                loose.setdefault(q, []).append((bname, cst))
    for q, lst in sorted(loose.items()):
        for bname, cst in lst:
            ctx.violation(ob, "R6.argmin", q, unparse(cst)[:100], "candidates-not-the-minimisers",
                          "the candidates are selected by a condition on `%s` that is not equality with the key: elements that do not attain the minimum "
                          "(a later date, a longer queue) can be chosen" % bname, loc(cst))
    # the built-in: `min(L, key=lambda v: KEY)` over a list of candidates is the arg-min with the first of equal candidates kept, by definition; accepted where
    # the table asks for no particular collection or filter (the choice among a node's own candidate events)
    builtin = {}
    for ci, fn in P.all_functions():
        for x in ast.walk(fn):
            if isinstance(x, ast.Call) and isinstance(x.func, ast.Name) and x.func.id == "min" and len(x.args) == 1 and len(x.keywords) == 1 and x.keywords[0].arg == "key" \
                    and isinstance(x.keywords[0].value, ast.Lambda) and isinstance(x.args[0], (ast.Name, ast.ListComp)):
                for q in ctx._anchor_wheres(P.func_name(fn)):
                    spec = SCAN_TABLE.get(q)
                    if spec is not None and spec[0] is None and not spec[1]:
                        builtin.setdefault(q, []).append(x)
                        ob.ok("%s:min(key)" % q, "%s: %s" % (q, unparse(x)[:80]))
                    elif spec is not None and spec[0] is not None and "OUTER" not in spec[0]:
                        # min over a filtered list of the table's collection: L = [v for v in COLL if <the table's filters> (and KEY(v) < inf)]
                        lc = x.args[0]
                        if isinstance(lc, ast.Name):
                            ds = [y for y in ast.walk(fn) if isinstance(y, ast.Assign) and any(isinstance(t, ast.Name) and t.id == lc.id for t in y.targets)]
                            lc = ds[0].value if len(ds) == 1 else None
                        lam = x.keywords[0].value
                        if isinstance(lc, ast.ListComp) and len(lc.generators) == 1 and isinstance(lc.generators[0].target, ast.Name) and unparse(lc.elt) == lc.generators[0].target.id \
                                and len(lam.args.args) == 1:
                            g = lc.generators[0]
                            var = g.target.id
                            key = unparse(lam.body).replace(lam.args.args[0].arg + ".", var + ".")
                            facts = {}
                            for c_ in g.ifs:
                                guards.assume(guards.norm(c_, unparse), True, facts)
                            need = [(("truth", a_[1][1].replace("VAR", var)), False) if a_[0] == "not" else ((a_[0],) + tuple(t.replace("VAR", var) for t in a_[1:]), True) for a_ in spec[1]]
                            extra = [a_ for a_ in facts if a_ not in [n_[0] for n_ in need] and not (a_ == ("isinf", key) and facts[a_] is False)]
                            if unparse(g.iter) == spec[0] and all(facts.get(a_) is v_ for a_, v_ in need) and not extra:
                                builtin.setdefault(q, []).append(x)
                                ob.ok("%s:min(key) over filter" % q, "%s: min over [%s for %s in %s if ...] by %s" % (q, var, var, spec[0], key))
    for q, spec in SCAN_TABLE.items():
        if q not in found and q not in minfilters and q not in loose and q not in builtin:
            ctx.unrecognised("SCAN: no arg-min scan recognised in %s" % q)
    for q, lst in sorted(minfilters.items()):
        spec = SCAN_TABLE.get(q)
        for mf in lst:
            ob.ok("%s:%s" % (q, mf.best), "%s: %s = min(%s for %s in %s); %s = [those attaining it]" % (q, mf.best, mf.key, mf.var, mf.coll, mf.cands))
            if spec is not None and spec[0] is not None and mf.coll != spec[0]:
                ctx.violation(ob, "R6.argmin", q, "min over %s" % mf.coll, "scan-collection", "the minimum must be taken over the whole of %s" % spec[0], loc(mf.node))
            if spec is not None and spec[1]:
                ctx.unrecognised("SCAN: %s uses min()/filter but its scan has filters the two-pass form was not checked for" % q)
    for q, lst in sorted(found.items()):
        for sc in lst:
            ob.ok("%s:%s" % (q, sc.best), "%s: for %s in %s: if %s %s %s -> %s = %s" % (q, unparse(sc.loop.target), unparse(sc.loop.iter)[:40], sc.key, "<" if sc.strict else "<=", sc.best, sc.best, getattr(sc, "stored", "?")))
            for reason, msg, node in scans.judge(sc):
                ctx.violation(ob, "R6.argmin", q, "scan for %s over %s" % (sc.best, unparse(sc.loop.iter)[:60]), reason, msg, loc(node))
            spec = SCAN_TABLE.get(q)
            if spec is None:
                continue
            coll, filt, _ = spec
            if coll is not None and "OUTER" in coll:
                outer = sc.loop._parent
                while outer is not None and not isinstance(outer, ast.For):
                    outer = getattr(outer, "_parent", None)
                if outer is None or unparse(outer.iter) != coll.split("[OUTER]")[0]:
                    ctx.violation(ob, "R6.argmin", q, "outer loop", "scan-collection", "the scan must run over every (node, class) entry of %s" % coll.split("[OUTER]")[0], loc(sc.loop))
                    continue
                coll = coll.replace("OUTER", unparse(outer.target))
            if coll is not None and sc.coll != coll:
                ctx.violation(ob, "R6.argmin", q, "for ... in %s" % unparse(sc.loop.iter)[:60], "scan-collection", "the scan must run over the whole of %s" % coll, loc(sc.loop))
            var = unparse(sc.loop.target)
            for arm, name in [(sc.arm, "reset arm")] + [(t, "tie arm") for t in sc.ties]:
                facts = scans.arm_condition(sc, arm)
                for f in filt:
                    atom = f[1] if f[0] == "not" else f
                    want = f[0] != "not"
                    atom = tuple(x.replace("VAR", var) if isinstance(x, str) else x for x in atom)
                    if facts.get(atom) is not want:
                        ctx.violation(ob, "R6.argmin", q, "%s: filter %s" % (name, guards.show(("not", atom) if not want else atom)), "filter-missing-on-" + name.split()[0],
                                      "the %s of the scan in %s must be under `%s`" % (name, q, guards.show(("not", atom) if not want else atom)), loc(arm))
    # no extra filter may exclude a legitimate candidate from a scan
    for q, lst in sorted(found.items()):
        spec = SCAN_TABLE.get(q)
        if spec is None:
            continue
        for sc in lst:
            var = unparse(sc.loop.target)
            allowed = set()
            for f in spec[1]:
                atom = f[1] if f[0] == "not" else f
                allowed.add(tuple(x.replace("VAR", var) if isinstance(x, str) else x for x in atom))
            allowed |= {sc.cmp_atom, ("isinf", sc.best)}
            extra_ok = EXTRA_FILTERS.get(q, [])
            conds = []
            for arm in [sc.arm] + sc.ties:
                for test, pol in scans._enclosing_tests(arm, sc.loop):
                    conds.append(test)
                conds.append(arm.test)
            for x in ast.walk(sc.loop):
                if isinstance(x, ast.If) and any(isinstance(y, (ast.Continue, ast.Break)) for y in x.body + x.orelse):
                    conds.append(x.test)
            for test in conds:
                for a_ in guards.atoms(guards.norm(test, unparse)):
                    if a_ in allowed or (a_[0] == "eq" and sc.best in a_[1:]) or (a_[0] == "lt" and sc.best in a_[1:]):
                        continue
                    if any(guards.show(a_).replace(var, "VAR") == t for t in extra_ok):
                        continue
                    if a_[0] == "isnone" and "." not in a_[1] and "(" not in a_[1] and q == "Node.decide_class_change":
                        continue        # `dist is None`: classes without a class-change distribution are not candidates (any local name)
                    ctx.violation(ob, "R6.argmin", q, guards.show(a_), "extra-filter",
                                  "the scan in %s skips candidates under `%s`, which is not one of its stated filters: the true minimum may be overlooked" % (q, guards.show(a_)), loc(test))
    # consumers
    consumer_checks(ctx, ob, P)
    ctx.floor("arg-min scans", sum(len(v) for v in found.values()) + sum(len(v) for v in minfilters.values()) + sum(len(v) for v in builtin.values()), 9)


def _arm_assigned(sc):
    return {unparse(t): unparse(x.value) for x in sc.arm.body if isinstance(x, ast.Assign) for t in x.targets}


def consumer_checks(ctx, ob, P):
    """the selection made by each scan is what is returned / stored (data-flow on the scan's own variables, names are free)"""
    def ret_texts(fn):
        return [unparse(x.value) for x in ast.walk(fn) if isinstance(x, ast.Return) and x.value is not None]

    sim = P.view("Simulation")
    cls, fn = sim.method("find_next_active_node")
    post = {id(mf.scan.loop): mf.cands for mf in scans.find_minfilters(fn) if mf.how == "fold"}
    for sc in scans.find_scans(fn):
        var = unparse(sc.loop.target)
        lists = [k for k, v in _arm_assigned(sc).items() if v == "[%s]" % var]
        if not lists and id(sc.loop) in post:
            lists = [post[id(sc.loop)]]          # two-pass form: the minimisers are collected by a filter after the fold
        rts = sorted(ret_texts(fn))
        ob.ok("consumer:find_next_active_node", "; ".join(rts))
        # any element of the list of minimisers is a minimiser: [0], [-1] and random_choice(...) all return one
        if len(lists) != 1 or not rts or any(r not in ("%s[0]" % lists[0], "%s[-1]" % lists[0], "random_choice(%s)" % lists[0]) for r in rts):
            ctx.violation(ob, "R6.argmin", "Simulation.find_next_active_node", "; ".join(rts), "scan-result-not-returned", "the node returned must be one of the minimisers collected by the scan", loc(fn))
        for t in sc.ties:
            app = [x for x in ast.walk(t) if isinstance(x, ast.Call) and call_name(x) in ("append", "insert")]
            if app and (len(app) != 1 or not lists or unparse(app[0].func.value) != lists[0] or unparse(app[0].args[-1]) != var):
                ctx.violation(ob, "R6.argmin", "Simulation.find_next_active_node", "tie arm", "selection-not-from-iteration", "a tied node must be appended to the candidates", loc(t))
    for c in P.subclasses("ArrivalNode"):
        v = P.view(c)
        cls, fn = v.method("find_next_event_date")
        for sc in scans.find_scans(fn):
            inner = unparse(sc.loop.target)
            outer = sc.loop._parent
            while outer is not None and not isinstance(outer, ast.For):
                outer = getattr(outer, "_parent", None)
            outer_v = unparse(outer.target) if outer is not None else "?"
            arm = _arm_assigned(sc)
            from_outer = [k for k, val in arm.items() if val == outer_v]
            from_inner = [k for k, val in arm.items() if val == inner]
            after = {unparse(x.targets[0]): unparse(x.value) for x in fn.body if isinstance(x, ast.Assign)}
            ob.ok("consumer:%s.find_next_event_date" % c)
            if len(from_outer) != 1 or len(from_inner) != 1:
                ctx.violation(ob, "R6.argmin", "%s.find_next_event_date" % cls.name, str(arm), "selection-not-from-iteration", "the remembered node/class must be those of the iteration that set the minimum", loc(sc.arm))
            elif after.get("self.next_event_date") != sc.best or after.get("self.next_node") != from_outer[0] or after.get("self.next_class") != from_inner[0]:
                ctx.violation(ob, "R6.argmin", "%s.find_next_event_date" % cls.name, str(after), "scan-result-not-stored", "next_event_date / next_node / next_class must be the minimum date and its (node, class)", loc(fn))
    for c in P.subclasses("Node"):
        v = P.view(c)
        cls, fn = v.method("update_next_event_date")
        ob.ok("consumer:%s.update_next_event_date" % c)
        FIELDS = ("self.next_event_date", "self.next_individual", "self.next_event_type")
        w = Walker(P, v, keep=lambda e: e.kind == "assign" and (e.d.get("local") or e.d["target"] in FIELDS), inline=rules.new_helper)
        kinds = set()
        bad = None
        for st in w.paths_of(cls, fn):
            if st.status == "raise":
                continue
            defs, final = {}, {}
            for e in st.events:
                val = scans._subst(e.d["value"], defs).replace(" ", "")
                if e.d.get("local"):
                    defs[e.d["target"]] = "(%s)" % val if not val.replace(".", "").replace("_", "").isalnum() else val
                else:
                    final[e.d["target"]] = val.replace("(", "").replace(")", "")
            D = "self.decide_next_event"
            got = tuple(final.get(f) for f in FIELDS)
            if got == (D + "[0][1]", D + "[0][0]", D + "[1]"):
                kinds.add("decided")
            elif (got[2] == "'end_service'" and got[0] and got[1] and got[0].startswith("self.possible_next_events.get'end_service',") and got[0].endswith("[1]")
                  and got[1] == got[0][:-3] + "[0]"):
                kinds.add("fallback")
            else:
                bad = bad or (got, st)
        if bad or kinds != {"decided", "fallback"}:
            ctx.violation(ob, "R6.argmin", "%s.update_next_event_date" % cls.name, "next_event_date / next_individual / next_event_type", "scan-result-not-stored",
                          "the node's next event must be the (individual, date) pair and type selected by the scans%s" % (" [stored: %s]" % (bad[0],) if bad else ""), loc(fn),
                          witness(bad[1]) if bad else None)
        cls, fn = v.method("decide_next_event")
        for sc in scans.find_scans(fn):
            var = unparse(sc.loop.target)
            arm = _arm_assigned(sc)
            cand = [unparse(x.targets[0]) for x in ast.walk(sc.loop) if isinstance(x, ast.Assign) and isinstance(x.value, ast.Call) and unparse(x.value.func) == "self.possible_next_events.get"
                    and x.value.args and unparse(x.value.args[0]) == var]
            ev_var = [k for k, val in arm.items() if cand and val == cand[0]]
            ty_var = [k for k, val in arm.items() if val == var]
            rts = ret_texts(fn)
            if len(ev_var) != 1 or len(ty_var) != 1:
                ctx.violation(ob, "R6.argmin", "%s.decide_next_event" % cls.name, str(arm), "selection-not-from-iteration", "event and type must be those of the iteration that set the minimum", loc(sc.arm))
            elif rts != ["(%s, %s)" % (ev_var[0], ty_var[0])]:
                ctx.violation(ob, "R6.argmin", "%s.decide_next_event" % cls.name, str(rts), "scan-result-not-returned", "decide_next_event must return the selected (event, type)", loc(fn))
            elif cand and scans._subst(sc.key, {ev_var[0]: cand[0]}) not in (cand[0] + "[1]",) and sc.key != cand[0] + "[1]":
                ctx.violation(ob, "R6.argmin", "%s.decide_next_event" % cls.name, sc.key, "scan-key", "candidates must be compared by their date", loc(sc.arm))
        for m in ("update_next_end_service_without_server", "update_next_end_service_with_server", "update_next_renege_time"):
            cls, fn = v.method(m)
            for sc in scans.find_scans(fn):
                sr = scans.stored_result(sc, fn)
                if sr is None or not sr["date_ok"]:
                    ctx.violation(ob, "R6.argmin", "%s.%s" % (cls.name, m), unparse(sc.arm)[:80], "scan-result-not-stored", "the candidate event must carry the scanned minimum date", loc(sc.arm))


def provenance(ctx, P):
    ob = ctx.ob("PROV", "every write of a date field has an allowed abstract value for that field (now, now+duration, start+duration, +inf, sentinel, documented copies)")
    n = 0
    for field, allowed in ALLOWED.items():
        for ci, fn, node, recv, how in rules.attr_writes(P, field):
            if ci is None:
                continue
            n += 1
            q = rules.qual(ci, fn)
            if how != "assign":
                ctx.violation(ob, "R7.provenance", q, unparse(node), "date-updated-in-place", "date field %s modified by `%s`" % (field, how), loc(node))
                continue
            ev = dates.Evaluator(P.view(ci.name), fn)
            vals = ev.ev(node.value)
            ob.ok("%s:%s:%s" % (q, field, "|".join(sorted(vals))), "%s: %s  ->  %s" % (q, unparse(node)[:70], sorted(vals)))
            bad = [v for v in vals if v not in allowed]
            if bad:
                ctx.violation(ob, "R7.provenance", q, "%s = %s" % (field, unparse(node.value)[:80]), "date-provenance",
                              "%s is assigned abstract value %s; allowed for this field: %s (a date must be now, now + a non-negative duration, +inf or the sentinel)" % (field, sorted(bad), sorted(allowed)),
                              loc(node))
    ctx.floor("date-field writes", n, 45)
    # arrival stream: event_dates_dict[k] = same key + inter-arrival sample / initial sample / inf  (C10 checks the key agreement in detail)
    for c in P.subclasses("ArrivalNode"):
        v = P.view(c)
        for m in v.methods():
            cls, fn = v.resolve(m)
            for x in ast.walk(fn):
                if isinstance(x, ast.Assign) and isinstance(x.targets[0], ast.Subscript) and unparse(x.targets[0]).startswith("self.event_dates_dict["):
                    vals = dates.Evaluator(v, fn).ev(x.value)
                    tgt = unparse(x.targets[0])
                    ob.ok("%s.%s:%s" % (cls.name, m, "|".join(sorted(vals))), "%s.%s: %s -> %s" % (cls.name, m, unparse(x)[:70], sorted(vals)))
                    for val in vals:
                        if val not in ("DUR", "INF", "PREV+DUR:" + tgt):
                            ctx.violation(ob, "R7.provenance", "%s.%s" % (cls.name, m), unparse(x)[:90], "date-provenance",
                                          "next arrival date of a stream must be the previous date of the same stream + sampled inter-arrival time (or the first sample / inf); got %s" % val, loc(x))


def _bool_operands(t):
    """sub-expressions of a test that are evaluated for their truth value"""
    if isinstance(t, ast.BoolOp):
        out = []
        for v in t.values:
            out += _bool_operands(v)
        return out
    if isinstance(t, ast.UnaryOp) and isinstance(t.op, ast.Not):
        return _bool_operands(t.operand)
    return [t]


def sentinel_tests(ctx, P):
    ob = ctx.ob("SENT", "date fields are never tested by truthiness: 0.0 is a valid date, the 'no date' sentinel is tested with `is False` / `is not False`")
    n = 0
    for ci, fn in P.all_functions():
        for x in ast.walk(fn):
            tests = []
            if isinstance(x, (ast.If, ast.While, ast.IfExp)):
                tests.append(x.test)
            if isinstance(x, ast.comprehension):
                tests += x.ifs
            for t in tests:
                for o in _bool_operands(t):
                    if isinstance(o, ast.Attribute) and o.attr in dates.DATE_FIELDS + ("next_event_date",):
                        ctx.violation(ob, "R7.sentinel-test", P.func_name(fn), unparse(t)[:80], "date-tested-by-truthiness",
                                      "`%s` is tested for truthiness: a date of exactly 0.0 (first event at time 0) is then mistaken for 'no date'" % unparse(o), loc(t))
                for y in ast.walk(t):
                    if isinstance(y, ast.Attribute) and y.attr in dates.DATE_FIELDS:
                        n += 1
                        ob.ok("%s:%s" % (P.func_name(fn), unparse(t)[:50]))
    ctx.counters["date sentinel tests seen"] = n


def rearm(ctx, P, iters):
    ob = ctx.ob("REARM", "waiting timers (reneging_date, class_change_date) are armed at every entry into the waiting state: accept and the re-queue branch of preempt")
    ob2 = ctx.ob("FIRED", "every handler disarms or re-arms the timer that fired it on every path (otherwise the same event fires again at the same date)")
    done = set()
    for view in family_views(P, "Node"):
        if "PSNode" in view.mro:
            continue
        for root, tokparam in (("begin_service_if_possible_accept", 0), ("preempt", 0)):
            cls, fn = view.method(root)
            tok = fn.args.args[1 + tokparam].arg

            def keep(e, tok=tok):
                if e.kind == "guard":
                    return True
                if e.kind == "assign":
                    return e.d["target"] in (tok + ".reneging_date", tok + ".class_change_date")
                return e.kind == "call" and e.d["meth"] in ("decide_class_change", "detatch_server", "reroute", "get_reneging_date")
            w = Walker(P, view, keep=keep, track=lambda t, f: f.depth == 0 and any(k in unparse(t) for k in ("reneging", "dynamic_classes", "priority_preempt")), inline=rules.new_helper, loop_iters=iters)
            for st in w.paths_of(cls, fn):
                if st.status == "raise":
                    continue
                evs = st.events
                if root == "preempt" and not any(e.kind == "call" and e.d["meth"] == "detatch_server" for e in evs):
                    continue      # reroute branch: the victim leaves the node
                facts = rules.path_condition(evs)
                cc = any(e.kind == "call" and e.d["meth"] == "decide_class_change" and e.d["args"][:1] == [tok] for e in evs)
                rn = any(e.kind == "assign" and e.d["target"] == tok + ".reneging_date" for e in evs)
                ren_off = facts.get(("truth", "self.reneging")) is False
                ob.ok("%s.%s:%s" % (view.name, root, "cc" if cc else "-") + ("rn" if rn else "-"), "%s.%s [%s]: %s" % (view.name, root, facts_text(st), " -> ".join(x.text[:40] for x in evs if x.kind != "guard")))
                if not cc and (cls.name, root, "cc") not in done:
                    done.add((cls.name, root, "cc"))
                    ctx.violation(ob, "R7.rearm", "%s.%s" % (cls.name, root), "class_change_date", "timer-not-rearmed",
                                  "%s starts waiting here but decide_class_change(%s) is not called: its class-change timer keeps the value reset_class_change left (inf) or a stale one" % (tok, tok), loc(fn), witness(st))
                if not rn and not ren_off and (cls.name, root, "rn") not in done:
                    done.add((cls.name, root, "rn"))
                    ctx.violation(ob, "R7.rearm", "%s.%s" % (cls.name, root), "reneging_date", "timer-not-rearmed",
                                  "%s (re-)enters the waiting state here but its reneging_date is neither re-armed nor cleared: the date set at arrival may already lie in the past, "
                                  "so a renege is scheduled before `now` and the clock goes backwards" % tok, loc(fn), witness(st))
        # fired timers
        for handler, need in (("renege", "remove"), ("change_customer_class_while_waiting", "decide_class_change")):
            cls, fn = view.method(handler)
            w = Walker(P, view, keep=lambda e: e.kind == "call" and (e.d["meth"] in ("decide_class_change",) or (rules.listop(e) and rules.listop(e)[2] == "individuals" and rules.listop(e)[0] == "rem")),
                       inline=rules.new_helper, loop_iters=iters)
            for st in w.paths_of(cls, fn):
                if st.status == "raise":
                    continue
                ms = [e.d["meth"] for e in st.events]
                ob2.ok("%s.%s" % (view.name, handler), "%s.%s: %s" % (view.name, handler, " -> ".join(ms)))
                if need not in ms and (cls.name, handler) not in done:
                    done.add((cls.name, handler))
                    ctx.violation(ob2, "R7.fired-timer", "%s.%s" % (cls.name, handler), need, "fired-timer-not-disarmed",
                                  "%s must %s on every path, otherwise the event that triggered it is selected again at the same date" % (handler, "remove the reneging customer from the node" if need == "remove" else "re-arm the class-change timer (decide_class_change)"), loc(fn), witness(st))
    for c in P.subclasses("ArrivalNode"):
        v = P.view(c)
        cls, fn = v.method("have_event")
        w = Walker(P, v, keep=lambda e: (e.kind == "assign" and e.d["target"].startswith("self.event_dates_dict[")) or (e.kind == "call" and e.d["meth"] == "find_next_event_date"), inline=rules.new_helper, loop_iters=iters)
        for st in w.paths_of(cls, fn):
            if st.status == "raise":
                continue
            kinds = [e.kind for e in st.events]
            ob2.ok("%s.have_event" % c)
            if kinds != ["assign", "call"]:
                ctx.violation(ob2, "R7.fired-timer", "%s.have_event" % cls.name, "event_dates_dict advance; find_next_event_date", "fired-timer-not-disarmed",
                              "after an arrival the stream's next date must be advanced exactly once and the minimum recomputed", loc(fn), witness(st))
                break


def armed_while_waiting(ctx, P, iters):
    """The cached next class change (find_next_class_change, run by decide_class_change) scans only customers WITHOUT a server.  A timer armed while the
    customer still holds (or already holds) its server is invisible to that scan; it is found later, when its date is already in the past."""
    ob = ctx.ob("ARMW", "decide_class_change(X) is not followed by the detach of X on the same path (the cached scan would miss the timer) and does not follow a server-less service start of X")
    from .. import typestate
    done = set()
    n = 0
    for view in family_views(P, "Node"):
        roots = set()
        for m in view.methods():
            cls, fn = view.resolve(m)
            if any(isinstance(x, ast.Call) and call_name(x) == "decide_class_change" for x in ast.walk(fn)):
                roots |= {x for x in rules.effective_names(P, cls, fn) if view.resolve(x)}
        for root in sorted(roots):
            cls, fn = view.resolve(root)
            params = [a.arg for a in fn.args.args][1:]

            def keep(e):
                if e.kind in ("call", "enter"):
                    return e.d["meth"] in ("attach_server", "detatch_server", "decide_class_change")
                if e.kind == "assign" and not e.d.get("local"):
                    return e.d["target"].endswith(".service_start_date") or e.d["target"].endswith(".server")
                return False
            w = Walker(P, view, keep=keep, inline=lambda ev: ev.d["meth"] not in typestate.NO_INLINE and ev.d["meth"] not in ("attach_server", "detatch_server"), loop_iters=iters)
            for st in w.paths_of(cls, fn):
                if st.status == "raise":
                    continue
                has_server, started, armed = set(), set(), {}
                for e in st.events:
                    reason = None
                    if e.kind == "assign":
                        tok, field = e.d["target"].rsplit(".", 1)
                        if field == "server":
                            (has_server.add if e.d["value"] not in ("False", "None") else has_server.discard)(tok)
                        elif e.d["value"] not in ("False", "None"):
                            started.add(tok)
                        else:
                            started.discard(tok)
                        continue
                    if e.kind == "enter":
                        continue
                    args = e.d["args"] + ["?", "?"]
                    if e.d["meth"] == "attach_server":
                        has_server.add(args[1])
                        armed.pop(args[1], None)       # a customer that holds a server is skipped by the scan: its timer no longer matters
                    elif e.d["meth"] == "detatch_server":
                        x = args[1]
                        has_server.discard(x)
                        started.discard(x)
                        if x in armed:
                            reason, msg, ev = "timer-armed-before-detach", "the displaced customer %s still holds its server when its class-change timer is armed" % x, armed.pop(x)
                    else:
                        x = args[0]
                        n += 1
                        ob.ok("%s.%s:%s" % (view.name, root, e.frame.qual), "%s (from %s): decide_class_change(%s); holding a server: %s; started: %s" % (e.frame.qual, root, x, sorted(has_server), sorted(started)))
                        armed[x] = e
                        if x in started and x not in has_server:
                            reason, msg, ev = "timer-armed-while-served", "%s has started service without a server object (infinite-server node) before its class-change timer is armed, so the scan still sees it" % x, e
                    if reason and (ev.frame.qual, reason) not in done:
                        done.add((ev.frame.qual, reason))
                        ctx.violation(ob, "R4.must-precede", ev.frame.qual, ev.text, reason,
                                      "%s: decide_class_change rescans the waiting customers (those without a server) for the earliest class-change date; a timer armed while the customer "
                                      "holds a server is overlooked and only found once its date lies in the past (an event before `now`), one armed for a customer in service without a "
                                      "server object fires during the service" % msg, ev.where, witness(st))
    ctx.floor("decide_class_change call events", n, 3)


def records(ctx, P):
    ob = ctx.ob("REC", "DataRecord constructions: derived fields are the differences of the record's own primary fields")
    n = 0
    for view in family_views(P, "Node"):
        for m, spec in (("write_individual_record", {"waiting_time": "S - A", "service_time": "E - S", "time_blocked": "X - E"}),
                        ("write_interruption_record", {"waiting_time": "S - A", "service_time": "IND.original_service_time", "exit_date": "self.now"}),
                        ("write_reneging_record", {"waiting_time": "X - A"}),
                        ("write_baulking_or_rejection_record", {"arrival_date": "self.now", "exit_date": "self.now"})):
            cls, fn = view.method(m)
            ind = fn.args.args[1].arg
            recs = rules.record_constructions(P, view, fn)
            if len(recs) != 1:
                ctx.unrecognised("REC: expected one DataRecord(...) in %s.%s" % (view.name, m))
                continue
            calls = [recs[0][0]]
            kw = {k: unparse(rules.inline_locals(fn, v)) for k, v in recs[0][1].items()}       # (locals that name a date of the customer are read through)
            n += 1
            sym = {"A": kw.get("arrival_date"), "S": kw.get("service_start_date"), "E": kw.get("service_end_date"), "X": kw.get("exit_date"), "IND": ind}
            for field, form in spec.items():
                want = form
                for k, v in sym.items():
                    if v is not None:
                        want = want.replace(k + " ", v + " ").replace(" " + k, " " + v) if k != "IND" else want.replace("IND", v)
                got = kw.get(field)
                ob.ok("%s.%s:%s" % (view.name, m, field), "%s.%s: %s = %s" % (view.name, m, field, got))
                if got != want:
                    ctx.violation(ob, "R8.record-arithmetic", "%s.%s" % (cls.name, m), "%s=%s" % (field, got), "derived-field",
                                  "in this record %s must be `%s` (difference of the record's own fields)" % (field, want), loc(calls[0]))
            # primary fields come from the customer's own attributes of the same name
            for f in ("arrival_date", "service_start_date", "service_end_date", "exit_date"):
                got = kw.get(f)
                if got not in ("%s.%s" % (ind, f), "nan", "self.now"):
                    ctx.violation(ob, "R8.record-arithmetic", "%s.%s" % (cls.name, m), "%s=%s" % (f, got), "primary-field", "record field %s must be the customer's %s" % (f, f), loc(calls[0]))
            if kw.get("node") != "self.id_number" or kw.get("id_number") != ind + ".id_number":
                ctx.violation(ob, "R8.record-arithmetic", "%s.%s" % (cls.name, m), "node/id_number", "primary-field", "record must carry this node's id and the customer's id", loc(calls[0]))
    ctx.floor("DataRecord constructions", n, 4)
