"""C16 Pause/resume transparency (DESIGN §4 C16): purity of the loop prologue, non-interference of the stop epilogue (R10)."""
import ast

from .. import rules
from ..callgraph import callgraph
from ..model import AnalysisError, call_name, loc, unparse, is_self_attr, alpha, body_stmts
from .. import guards

EXPLANATION = (
    "Static effect analysis of simulate_until_max_time: the prologue (find_next_active_node, clock assignment) consumes randomness only under a tie "
    "(random_choice guarded by len(...) > 1) and writes only current_time (and the optional progress bar); the loop body is the same code for a split and an "
    "unsplit run; the stop epilogue (Simulation.wrap_up_servers -> Node.wrap_up_servers, Node.find_server_utilisation) reaches no random source and advances no "
    "generator, and every write it performs is either an absolute, idempotent assignment or a report-only field -- an *accumulation* (a write whose right-hand side "
    "reads the field it writes: x += e, x = f(x, e), x.append(e)) into a field that the event loop or a later stop also accumulates into makes the statistics of a "
    "split run differ from the unsplit one. Given C15's determinism the two clauses are necessary and sufficient for the tie-free statement; determinism of user callbacks is assumed.")
RULE = "instances = statements of the prologue, writes of the epilogue functions (transitively over self-calls), call-graph reachability of random sources / next()"


def check(ctx):
    P = ctx.program
    prologue(ctx, P)
    epilogue(ctx, P)
    stop_and_report(ctx, P)
    # the clock is only ever set to the date of the event about to run (shared instance): a clamped or otherwise derived clock makes the resumed run differ
    from . import c02
    c02.clock(ctx, P, (0, 1))
    # the loop stops on the clock itself and advances it as the last step of an iteration: after any call the clock stands on the first event not yet run,
    # whether or not this call ran an event (shared instances, C14)
    from . import c14
    c14.loop_guards(ctx, P, (0, 1))
    ctx.assume("no two events coincide (the property's tie-free proviso): the tie-break random_choice is not consumed")


def prologue(ctx, P):
    ob = ctx.ob("PRO", "loop prologue: next_active_node = find_next_active_node(); current_time = its next_event_date; nothing else is written, no randomness without a tie")
    sim = P.view("Simulation")
    for m in ("simulate_until_max_time", "simulate_until_max_customers", "simulate_until_deadlock"):
        cls, fn = sim.method(m)
        pre = []
        for st in body_stmts(fn):
            if isinstance(st, ast.While):
                break
            pre.append(st)
        from ..paths import Walker, Frame, State, func_locals
        from ..typestate import origin
        MUT = ("append", "pop", "remove", "update", "timestamp", "have_event", "event_and_return_nextnode", "insert", "extend", "clear")
        w = Walker(P, sim, keep=lambda e: e.kind in ("assign", "aug", "del", "return", "leave", "enter") or (e.kind == "call" and (e.d["meth"] in MUT or e.d["meth"] == "find_next_active_node")),
                   inline=rules.new_helper)
        fr = Frame(sim, cls, fn)
        fr._locals = func_locals(fn)
        reported = set()
        npaths = 0
        for st in w.block(pre, [State()], fr):
            if st.status == "raise":
                continue
            npaths += 1
            evs = list(st.events)
            writes = []
            for e in evs:
                if e.kind in ("assign", "aug", "del") and not e.d.get("local"):
                    writes.append((e.d["target"], e))
                elif e.kind == "call" and e.d["meth"] in MUT and e.d.get("recv") != "self.progress_bar":
                    writes.append(("%s.%s" % (e.d.get("recv"), e.d["meth"]), e))
            ob.ok(m, "%s prologue writes: %s" % (m, [x for x, _ in writes]))
            for wt, e in writes:
                if wt in ("self.current_time", "self.progress_bar") or (wt, m) in reported:
                    continue
                reported.add((wt, m))
                ctx.violation(ob, "R10.prologue", "Simulation.%s" % m, wt, "prologue-writes-state", "re-entering the loop must not change simulation state (`%s` is written before the first event)" % wt, e.where, rules.witness(st))
            clk = [(i, e) for i, e in enumerate(evs) if e.kind == "assign" and e.d["target"] == "self.current_time"]
            shape = len(clk) == 1
            if shape:
                i, e = clk[0]
                v = e.d.get("value_node")
                shape = isinstance(v, ast.Attribute) and v.attr == "next_event_date" and isinstance(v.value, ast.Name)
                if shape:
                    o = origin(evs, i, v.value.id + e.frame.tag, e.frame)
                    shape = o is not None and isinstance(o[0], ast.Call) and call_name(o[0]) == "find_next_active_node"
                    # the node handed to the loop is that same node
            if not shape and ("shape", m) not in reported:
                reported.add(("shape", m))
                ctx.violation(ob, "R10.prologue", "Simulation.%s" % m, "prologue", "prologue-shape", "the loop must resume from find_next_active_node() and its date", loc(fn), rules.witness(st))
        if npaths == 0:
            ctx.unrecognised("PRO: no prologue path in %s" % m)
    # find_next_active_node: pure scan; random_choice only under len(...) > 1
    cls, fn = sim.method("find_next_active_node")
    for x in ast.walk(fn):
        if isinstance(x, (ast.Assign, ast.AugAssign)):
            for t in (x.targets if isinstance(x, ast.Assign) else [x.target]):
                if not isinstance(t, ast.Name):
                    ctx.violation(ob, "R10.prologue", "Simulation.find_next_active_node", unparse(t), "prologue-writes-state", "selecting the next node must not modify state", loc(x))
        if isinstance(x, ast.Call) and call_name(x) == "random_choice":
            p = x
            guarded = False
            while p is not fn:
                p = p._parent
                if isinstance(p, ast.If) and x.args:
                    f = guards.norm(p.test, unparse)
                    facts = {}
                    inbody = any(x is y for st_ in p.body for y in ast.walk(st_))
                    guards.assume(f, inbody, facts)
                    ln = "len(%s)" % unparse(x.args[0])
                    if facts.get(("lt", "1", ln)) is True or facts.get(("lt", ln, "2")) is False:
                        guarded = True
            ob.ok("tie-break-guard")
            if not guarded:
                ctx.violation(ob, "R10.prologue", "Simulation.find_next_active_node", unparse(x), "random-without-tie", "a random number is consumed even when the minimum is unique: a split run would consume one more than the unsplit run", loc(x))
    G = callgraph(P)
    hits = [h for h in G.random_sources_reached("Simulation.find_next_active_node") if h[0] not in ("random_choice",)]
    for via, (kind, text, node) in hits[:1]:
        ctx.violation(ob, "R10.prologue", "Simulation.find_next_active_node", "%s via %s" % (kind, via), "random-in-prologue", "the prologue reaches a random source other than the tie-break", loc(node))


REPORT_FIELDS = {"total_time", "busy_time", "server_utilisation"}      # statistics finalised at a stop (busy_time's accumulation is finding K-05a)


def _epilogue_functions(P):
    """functions reachable from Simulation.wrap_up_servers through calls on self / on the nodes, restricted to the Node family + Simulation"""
    G = callgraph(P)
    fam = set(P.subclasses("Node")) | {"Simulation"}
    out = []
    seen, todo = set(), ["Simulation.wrap_up_servers"]
    while todo:
        q = todo.pop()
        if q in seen or q not in G.funcs:
            continue
        seen.add(q)
        ci, fn = G.funcs[q]
        if ci is None or ci.name not in fam:
            continue
        out.append((q, ci, fn))
        for x in ast.walk(fn):
            if isinstance(x, ast.Call) and isinstance(x.func, ast.Attribute):
                name = x.func.attr
                for cand in G.by_method.get(name, []):
                    c2 = G.funcs[cand][0]
                    if c2 is not None and c2.name in fam and name not in ("append",):
                        todo.append(cand)
    return out, G


def stop_and_report(ctx, P):
    """what a stop leaves behind must be the same whether or not the run was split: the stop epilogue runs on EVERY call of the run methods (a call that
    finds nothing to do still closes the statistics at its horizon), and the records are re-collected from the customers at every request (no cached list)"""
    from ..paths import Walker
    ob = ctx.ob("STOP", "every call of simulate_until_* ends in wrap_up_servers; get_all_records re-collects from get_all_individuals() on every call")
    sim = P.view("Simulation")
    for m in ("simulate_until_max_time", "simulate_until_max_customers", "simulate_until_deadlock"):
        cls, fn = sim.method(m)
        w = Walker(P, sim, keep=lambda e: e.kind == "call" and e.d["meth"] == "wrap_up_servers", inline=rules.new_helper, loop_iters=(0, 1))
        bad, n = None, 0
        for st in w.paths_of(cls, fn):
            if st.status == "raise":
                continue
            n += 1
            if not st.events:
                bad = bad or st
        ob.ok(m, "%s: %d path(s), wrap_up_servers on each" % (m, n))
        if bad is not None or n == 0:
            ctx.violation(ob, "R4.must-follow", "Simulation.%s" % m, "self.wrap_up_servers(...)", "stop-without-epilogue",
                          "a path of %s returns without wrap_up_servers: the server statistics then stay at an earlier horizon (or are never set), so the same run split into "
                          "several calls reports differently" % m, loc(fn), rules.witness(bad) if bad is not None else None)
    r = sim.resolve("get_all_records")
    if r is None:
        ctx.unrecognised("STOP: Simulation.get_all_records not found")
        return
    cls, fn = r
    w = Walker(P, sim, keep=lambda e: (e.kind == "call" and e.d["meth"] == "get_all_individuals") or e.kind in ("return", "reads") or
               (e.kind == "assign" and e.d["target"].startswith("self.all_records")), inline=rules.new_helper, loop_iters=(0, 1),
               reads=lambda a: a.startswith("all_records"))
    bad, n = None, 0
    reads = []
    for st in w.paths_of(cls, fn):
        if st.status != "return":
            continue
        n += 1
        if not any(e.kind == "call" for e in st.events):
            bad = bad or st
        # a read of the stored list is a stale answer unless this very call has just stored the freshly collected records into it
        fresh = set()
        seen_collect = False
        for e in st.events:
            if e.kind == "call":
                seen_collect = True
            elif e.kind == "assign" and seen_collect:
                fresh.add(e.d["target"][len("self."):])
            elif e.kind == "reads":
                for a_ in e.d["attrs"]:
                    if a_ not in fresh and not reads:
                        reads.append(e.node)
    ob.ok("get_all_records", "%d returning path(s)" % n)
    if bad is not None or reads or n == 0:
        ctx.violation(ob, "R10.epilogue", "Simulation.get_all_records", unparse(reads[0]) if reads else "return", "records-not-recollected",
                      "get_all_records answers from a stored list instead of collecting the records of all customers again: records written since the last request "
                      "(a run that was paused, inspected and resumed) are missing", loc(reads[0]) if reads else loc(fn), rules.witness(bad) if bad is not None else None)


def epilogue(ctx, P):
    ob = ctx.ob("EPI", "stop epilogue: no randomness, no generator advance; every write is an absolute assignment or a report-only field -- no accumulation")
    funcs, G = _epilogue_functions(P)
    names = [q for q, _, _ in funcs]
    ctx.floor("epilogue functions", len(funcs), 3)
    for q, ci, fn in funcs:
        for via, (kind, text, node) in G.random_sources_reached(q)[:1]:
            ctx.violation(ob, "R10.epilogue", q, "%s via %s" % (kind, via), "random-in-epilogue", "the stop epilogue consumes randomness: a split run would diverge from the unsplit one", loc(node))
        for x in ast.walk(fn):
            if isinstance(x, ast.Call) and isinstance(x.func, ast.Name) and x.func.id == "next":
                ctx.violation(ob, "R10.epilogue", q, unparse(x), "generator-advance-in-epilogue", "the stop epilogue advances a generator", loc(x))
            # writes
            if isinstance(x, ast.AugAssign) and not isinstance(x.target, ast.Name):
                t = unparse(x.target)
                ob.ok("%s:%s" % (q, t), "%s: %s" % (q, unparse(x)[:70]))
                ctx.violation(ob, "R10.epilogue", q, "%s %s=" % (t, type(x.op).__name__), "accumulation",
                              "`%s` accumulates into %s at every stop: after k stops the value differs from an unsplit run" % (unparse(x)[:60], t), loc(x))
            if isinstance(x, ast.Assign):
                for t in x.targets:
                    if isinstance(t, ast.Name):
                        continue
                    tt = unparse(t)
                    field = tt.split(".")[-1]
                    reads_self = any(isinstance(y, ast.Attribute) and unparse(y) == tt for y in ast.walk(x.value))
                    ob.ok("%s:%s" % (q, tt), "%s: %s" % (q, unparse(x)[:70]))
                    if field not in REPORT_FIELDS and not reads_self:
                        ctx.violation(ob, "R10.epilogue", q, "%s" % tt, "epilogue-writes-simulation-state",
                                      "the stop epilogue assigns `%s`, a field the event loop reads: a run that is paused and resumed then differs from an unsplit run "
                                      "(only the statistics fields %s may be written at a stop)" % (tt, ", ".join(sorted(REPORT_FIELDS))), loc(x))
                    if reads_self:
                        ctx.violation(ob, "R10.epilogue", q, "%s" % tt, "accumulation",
                                      "`%s` reads the field it writes: it accumulates at every stop, so the statistics of a split run differ from the unsplit one" % unparse(x)[:80], loc(x))
            if isinstance(x, ast.Call) and isinstance(x.func, ast.Attribute) and x.func.attr in ("append", "extend", "insert", "pop", "remove") and not isinstance(x.func.value, ast.Name):
                tt = unparse(x.func.value)
                ob.ok("%s:%s.%s" % (q, tt, x.func.attr), "%s: %s" % (q, unparse(x)[:70]))
                ctx.violation(ob, "R10.epilogue", q, "%s.%s" % (tt, "append" if x.func.attr in ("append", "insert", "extend") else x.func.attr), "accumulation",
                              "`%s` grows at every stop (and the event loop appends to it too): utilisation then counts the same server several times" % tt, loc(x))
    # report-only fields must not be read by the event loop
    for field in ("server_utilisation",):
        for ci, fn in P.all_functions():
            if ci is None or ci.name not in P.subclasses("Node") or "find_server_utilisation" in rules.effective_names(P, ci, fn):
                continue
            for x in ast.walk(fn):
                if isinstance(x, ast.Attribute) and x.attr == field and isinstance(x.ctx, ast.Load):
                    ctx.violation(ob, "R10.epilogue", P.func_name(fn), field, "report-field-read-by-loop", "a field finalised at each stop is read by the event loop", loc(x))
