"""C01 Customer conservation -- structural clauses (DESIGN §4 C01): R1 ownership, R2 counter=list, R3 token linearity,
identifiers from the creation counter, one customer per freed place, removal-index agreement."""
import ast

from .. import rules
from ..model import AnalysisError, call_name, loc, unparse
from ..paths import Walker
from ..rules import Pairing, check_pairing, family_views, listop, split_path, witness, facts_text

EXPLANATION = (
    "Static analysis (ast, path enumeration) of ciw/node.py, arrival_node.py, exit_node.py, processor_sharing.py, exactnode.py. "
    "Decides the structural necessary conditions of customer conservation on every syntactic path of every method of every "
    "concrete view (Node, ExactNode, PSNode, ArrivalNode, ExactArrivalNode, ExitNode): population counter and list change together "
    "(local balance), nobody but the owning object mutates them, a customer token in hand (fresh or just removed) is handed to exactly "
    "one accept(), ids are the successive values of the creation counter, the exit list is append-only, at most one customer is "
    "pulled per unblocking, and the queue index used for removal is the one established at insertion. It does NOT observe a run: "
    "the behavioural statement follows by induction over events from these clauses (DESIGN §4 C01), assuming no mid-event exception.")
RULE = ("obligations are (rule, method, construct) instances found by effect signature on the current tree; each is evaluated on all "
        "paths (loops 0/1 iterations; thorough: 0/1/2) of all views; an instance is non-trivial when it touches the tracked counter, "
        "collection or token")


def check(ctx):
    P = ctx.program
    iters = (0, 1)
    node_views = family_views(P, "Node")
    arr_views = family_views(P, "ArrivalNode")
    exit_views = family_views(P, "ExitNode")
    ctx.count("views", len(node_views) + len(arr_views) + len(exit_views))

    # -- 1a. R2 population counter == list contents (local balance)
    ob = ctx.ob("R2.pop", "node population counter changes exactly with individuals[*] on every path of every method (local balance)")
    check_pairing(ctx, ob, P, node_views, Pairing("number_of_individuals", "individuals", "R2.population", "population counter vs individuals[*]"), loop_iters=iters)
    ob2 = ctx.ob("R2.exit", "ExitNode.number_of_individuals changes exactly with all_individuals")
    check_pairing(ctx, ob2, P, exit_views, Pairing("number_of_individuals", "all_individuals", "R2.exit-population", "exit counter vs all_individuals"), loop_iters=iters)
    ctx.floor("methods touching individuals/number_of_individuals", len(ob.nontrivial), 3)
    ctx.floor("ExitNode methods touching all_individuals", len(ob2.nontrivial), 1)

    # -- 1b. R1 ownership
    ob = ctx.ob("R1.own", "individuals / number_of_individuals / all_individuals are mutated only through self, inside their owning family; exit list append-only")
    fam = {"Node": set(P.subclasses("Node")), "ArrivalNode": set(P.subclasses("ArrivalNode")), "ExitNode": set(P.subclasses("ExitNode"))}
    owners = fam["Node"] | fam["ArrivalNode"] | fam["ExitNode"]
    n = 0
    for attr in ("individuals", "number_of_individuals", "all_individuals"):
        for ci, fn, node, recv, how in rules.attr_writes(P, attr):
            n += 1
            q = rules.qual(ci, fn)
            ob.seen("%s:%s.%s" % (q, recv, attr))
            if recv != "self" or ci is None or ci.name not in owners:
                ctx.violation(ob, "R1.foreign-write", q, "%s.%s %s" % (recv, attr, how), "foreign-write",
                              "%s of %s.%s outside the owning object: the counter=list induction only covers writes through self"
                              % (how, recv, attr), loc(node))
            elif attr == "all_individuals" and how != "append" and "__init__" not in rules.effective_names(P, ci, fn):
                ctx.violation(ob, "R1.exit-append-only", q, "%s.%s %s" % (recv, attr, how), "not-append",
                              "the exit list must only grow (a customer at the exit never reappears)", loc(node))
            elif attr == "individuals" and how in ("assign", "del") and "__init__" not in rules.effective_names(P, ci, fn):
                ctx.violation(ob, "R1.rebind", q, "%s.%s %s" % (recv, attr, how), "rebind",
                              "individuals re-bound outside __init__", loc(node))
            elif attr == "individuals" and how in rules.OTHER_MUT | {"insert", "pop"}:
                # insert/pop are counted by the balance rule; bulk operations are not understood
                if how in rules.OTHER_MUT:
                    ctx.violation(ob, "R1.bulk-op", q, "%s.%s.%s" % (recv, attr, how), "bulk-op",
                                  "bulk list operation on the customer lists is outside the recognised idioms", loc(node))
    ctx.floor("writes to individuals/number_of_individuals/all_individuals", n, 10)

    # -- 2. R3 token linearity
    linear_node(ctx, P, node_views, iters)
    no_touch_after_handover(ctx, P, node_views, iters)
    linear_arrival(ctx, P, arr_views, iters)

    # -- every accept call site is covered by one of the roots above
    ob = ctx.ob("R3.sites", "every accept(...) call site lies in a checked root (release, renege, arrival hand-over)")
    sites = rules.calls_named(P, "accept")
    allowed = {"release", "renege", "decide_baulk", "release_individual", "send_individual"}
    ctx.floor("accept call sites", len(sites), 3)
    ctx.floor("hand-over roots with an accept call site", len(set().union(*[rules.effective_names(P, ci, fn) & allowed for ci, fn, call in sites])) if sites else 0, 5)
    for ci, fn, call in sites:
        q = rules.qual(ci, fn)
        ob.seen(q + ":" + unparse(call))
        if not (rules.effective_names(P, ci, fn) & allowed) and not _reachable_helper(P, ci, fn, allowed):
            ctx.violation(ob, "R3.unchecked-accept", q, unparse(call), "accept-outside-roots",
                          "accept() called from a method that is not part of a checked hand-over root: the token may not be in hand",
                          loc(call))

    # -- 3. identifiers
    ids(ctx, P, arr_views, iters)

    # -- 4. one customer per freed place
    ob = ctx.ob("R3.unblock1", "release_blocked_individual moves at most one customer per invocation")
    for view in node_views:
        w = Walker(P, view, keep=lambda e: e.kind == "call" and e.d["meth"] in ("release", "accept") and not e.d.get("selfcall"),
                   inline=lambda ev: ev.d["meth"] != "release", loop_iters=iters)
        cls, fn = view.method("release_blocked_individual")
        for st in w.paths_of(cls, fn):
            k = sum(1 for e in st.events if e.kind == "call" and e.d["meth"] == "release")
            ob.seen("%s:%d" % (view.name, k))
            if k > 1:
                ctx.violation(ob, "R3.unblock-many", "%s.release_blocked_individual" % cls.name, "%d release calls" % k,
                              "more-than-one", "one freed place must pull exactly one blocked customer", loc(fn), witness(st))

    # -- 5. removal index == insertion index
    index_agreement(ctx, P, node_views, iters)

    # -- 6. the views through which the population is read are computed from the lists, never cached
    population_views(ctx, P, node_views)
    ctx.assume("only in-repo node/arrival/exit classes are plugged into Simulation (user subclasses are outside the analysed program)")
    ctx.assume("an event is not aborted by an exception half-way (C14's subject)")


def _reachable_helper(P, ci, fn, allowed):
    """a private helper only self-called from an allowed root"""
    if ci is None:
        return False
    for c in P.subclasses(ci.name):
        v = P.view(c)
        callers = rules.self_callers(v, fn.name)
        if callers and all(x in allowed for x in callers) and not rules.externally_called(P, fn.name):
            return True
    return False


def _tok_events(e):
    return e.kind == "call" and (e.d["meth"] == "accept" or (listop(e) and listop(e)[2] == "individuals"))


def no_touch_after_handover(ctx, P, views, iters):
    """once the customer has been handed to the next node's accept() it belongs to that node: the releasing node must not write its attributes any more
    (the next node has already dispatched on them -- a late `server = False`, `is_blocked = False`, date reset ... is either lost or corrupts the new visit)"""
    ob = ctx.ob("R3.after", "release/renege: no attribute of the customer is written by the old node after the hand-over accept()")
    done = set()
    for view in views:
        for root in ("release", "renege"):
            cls, fn = view.method(root)

            def keep(e):
                if e.kind == "call":
                    return e.d["meth"] == "accept" and e.d.get("recv") != "self" and not e.d.get("selfcall")
                return e.kind in ("assign", "aug") and not e.d.get("local")
            w = Walker(P, view, keep=keep, inline=lambda ev: ev.d["meth"] not in ("release_blocked_individual", "release"), loop_iters=iters)
            n = 0
            for st in w.paths_of(cls, fn):
                if st.status == "raise":
                    continue
                handed = set()
                for e in st.events:
                    if e.kind == "call":
                        handed.add((e.d["args"] + ["?"])[0])
                        n += 1
                    elif any(e.d["target"].startswith(t + ".") for t in handed):
                        if (cls.name, root, e.d["target"]) not in done:
                            done.add((cls.name, root, e.d["target"]))
                            ctx.violation(ob, "R3.linearity", "%s.%s" % (cls.name, root), e.text, "written-after-hand-over",
                                          "`%s` is written after the customer was handed to the next node: that node has already admitted it and decided about its service on "
                                          "the old value" % e.d["target"], e.where, witness(st))
            ob.ok("%s.%s" % (view.name, root), "%d hand-over(s)" % n)


def linear_node(ctx, P, views, iters):
    ob = ctx.ob("R3.node", "release/renege: the customer is removed from this node's list exactly once, then handed to exactly one accept(), on every path")
    seen_keys = set()
    for view in views:
        for root in ("release", "renege"):
            cls, fn = view.method(root)
            w = Walker(P, view, keep=_tok_events, loop_iters=iters)
            paths = w.paths_of(cls, fn)
            ctx.count("paths:R3", len(paths))
            for st in paths:
                if st.status == "raise":
                    continue
                removed = []     # tokens removed from self.individuals[*] and not re-inserted
                handed = []
                problems = []
                for e in st.events:
                    lo = listop(e)
                    if lo and lo[2] == "individuals" and lo[1] == "self":
                        tok = lo[4][-1] if lo[4] else "?"
                        if lo[0] == "rem":
                            removed.append(tok)
                        elif lo[0] == "ins":
                            if tok in removed:
                                removed.remove(tok)
                            else:
                                problems.append(("insert-not-in-hand", e, tok))
                    elif e.d["meth"] == "accept" and e.d.get("recv") != "self" and not e.d.get("selfcall"):
                        tok = e.d["args"][0] if e.d["args"] else "?"
                        if tok not in removed:
                            problems.append(("accept-before-removal" if tok not in handed else "handed-twice", e, tok))
                        else:
                            removed.remove(tok)
                            handed.append(tok)
                for tok in removed:
                    problems.append(("removed-not-handed", None, tok))
                if not handed and not problems:
                    problems.append(("no-hand-over", None, "?"))
                ob.seen("%s.%s:%s" % (view.name, root, "/".join(handed)))
                for reason, e, tok in problems:
                    construct = "%s: token %s" % (root, tok)
                    k = (cls.name, root, reason, tok)
                    if k in seen_keys:
                        continue
                    seen_keys.add(k)
                    ctx.violation(ob, "R3.linearity", "%s.%s" % (cls.name, root), construct, reason,
                                  "customer token %s: %s on a path of %s (view %s) [%s]" % (tok, reason, root, view.name, facts_text(st)),
                                  e.where if e is not None else loc(fn), witness(st))
            if ob.samples == [] and paths:
                ob.samples.append("%s.%s: %s" % (view.name, root, " -> ".join(x.text for x in paths[0].events)))


def linear_arrival(ctx, P, views, iters):
    ob = ctx.ob("R3.arrival", "each created customer is handed to exactly one accept() (node or exit) per batch iteration, on every path")
    seen_keys = set()
    for view in views:
        cls, fn = view.method("have_event")

        def keep(e):
            return (e.kind == "call" and e.d["meth"] in ("accept", "IndividualType")) or e.kind in ("iter", "loopexit") or \
                   (e.kind == "assign" and e.d.get("local") and isinstance(e.d.get("value_node"), ast.Call)
                    and call_name(e.d["value_node"]) == "IndividualType")
        w = Walker(P, view, keep=keep, loop_iters=iters)
        paths = w.paths_of(cls, fn)
        ctx.count("paths:R3", len(paths))
        created_any = False
        for st in paths:
            if st.status == "raise":
                continue
            inhand = None
            handed = 0
            problems = []
            for e in st.events:
                if e.kind == "assign":
                    if inhand is not None and handed != 1:
                        problems.append(("created-not-handed" if handed == 0 else "handed-twice", e))
                    inhand, handed = e.d["target"], 0
                    created_any = True
                elif e.kind == "call" and e.d["meth"] == "accept":
                    tok = e.d["args"][0] if e.d["args"] else "?"
                    if tok != inhand:
                        problems.append(("accept-of-unknown-token", e))
                    else:
                        handed += 1
                        if handed > 1:
                            problems.append(("handed-twice", e))
                elif e.kind in ("iter", "loopexit") and isinstance(e.node, ast.For):
                    if inhand is not None and handed == 0:
                        problems.append(("created-not-handed", e))
                    if inhand is not None:
                        inhand, handed = None, 0
            if inhand is not None and handed == 0:
                problems.append(("created-not-handed", None))
            ob.seen("%s:%d" % (view.name, len(st.events)))
            for reason, e in problems:
                k = (cls.name, reason)
                if k in seen_keys:
                    continue
                seen_keys.add(k)
                ctx.violation(ob, "R3.linearity", "%s.have_event" % cls.name, "created customer", reason,
                              "arrival hand-over: %s on a path of have_event (view %s)" % (reason, view.name),
                              e.where if e is not None else loc(fn), witness(st))
        if not created_any:
            ctx.unrecognised("R3.arrival: no `x = ...IndividualType(...)` construction found in %s.have_event" % view.name)
        elif not ob.samples:
            ob.samples.append("%s.have_event: %s" % (view.name, " -> ".join(x.text for x in paths[-1].events if x.kind == "call")))


def ids(ctx, P, views, iters):
    ob = ctx.ob("ID.seq", "per created customer: exactly one increment of the creation counter, the id argument is that counter, no other writer")
    for view in views:
        cls, fn = view.method("have_event")

        def keep(e):
            if e.kind == "call" and e.d["meth"] == "IndividualType":
                return True
            if e.kind in ("aug", "assign") and not e.d.get("local"):
                return e.d["target"] == "self.number_of_individuals"
            return e.kind in ("iter", "loopexit") and isinstance(e.node, ast.For)
        w = Walker(P, view, keep=keep, loop_iters=iters)
        for st in w.paths_of(cls, fn):
            if st.status == "raise":
                continue
            incs = 0
            for e in st.events + (None,):
                if e is None or e.kind in ("iter", "loopexit"):
                    incs = 0
                    continue
                if e.kind == "aug":
                    if e.d["op"] == "Add" and e.d["value"] == "1":
                        incs += 1
                    else:
                        incs += 100
                elif e.kind == "assign":
                    incs += 100
                elif e.kind == "call":
                    arg = e.d["args"][0] if e.d["args"] else e.d["kw"].get("id_number", "?")
                    ob.seen("%s:%s:%d" % (view.name, arg, incs))
                    if arg != "self.number_of_individuals" or incs != 1:
                        ctx.violation(ob, "ID.sequence", "%s.have_event" % cls.name, "IndividualType(%s, ...)" % arg,
                                      "id-not-counter" if arg != "self.number_of_individuals" else "counter-steps-%d" % incs,
                                      "customer ids must be the successive values of the creation counter (exactly one += 1 before each construction)",
                                      e.where, witness(st))
                    incs = 0
    fam = set(P.subclasses("ArrivalNode"))
    writers = [(ci, fn, n, recv, how) for ci, fn, n, recv, how in rules.attr_writes(P, "number_of_individuals")
               if ci is not None and ci.name in fam]
    for ci, fn, n, recv, how in writers:
        ob.seen(rules.qual(ci, fn) + ":" + how)
        if not (rules.effective_names(P, ci, fn) & {"__init__", "have_event"}):
            ctx.violation(ob, "ID.writer", rules.qual(ci, fn), "%s.number_of_individuals %s" % (recv, how), "extra-writer",
                          "the creation counter (id source) is written outside have_event/__init__", loc(n))
    ctx.floor("writers of the creation counter", len(writers), 2)


def _is_flatten(fl):
    """fl(L) returns the concatenation, in order, of all sub-lists of L: accumulator loop (+=, = +, extend, nested append), nested comprehension, sum(L, []) or chain"""
    ps = [a.arg for a in fl.args.args]
    if len(ps) != 1:
        return False
    L = ps[0]
    body = [x for x in fl.body if not isinstance(x, ast.Pass) and not (isinstance(x, ast.Expr) and isinstance(x.value, ast.Constant))]
    if len(body) == 1 and isinstance(body[0], ast.Return) and body[0].value is not None:
        v = body[0].value
        if isinstance(v, ast.ListComp) and len(v.generators) == 2:
            g0, g1 = v.generators
            return (unparse(g0.iter) == L and not g0.ifs and not g1.ifs and isinstance(g0.target, ast.Name) and unparse(g1.iter) == g0.target.id
                    and isinstance(g1.target, ast.Name) and unparse(v.elt) == g1.target.id)
        txt = unparse(v).replace(" ", "")
        return txt in ("sum(%s,[])" % L, "list(chain.from_iterable(%s))" % L, "list(itertools.chain.from_iterable(%s))" % L, "list(chain(*%s))" % L, "list(itertools.chain(*%s))" % L)
    if len(body) != 3:
        return False
    init, loop, ret = body
    if not (isinstance(init, ast.Assign) and len(init.targets) == 1 and isinstance(init.targets[0], ast.Name) and unparse(init.value) in ("[]", "list()")):
        return False
    acc = init.targets[0].id
    if not (isinstance(ret, ast.Return) and unparse(ret.value) == acc):
        return False
    if not (isinstance(loop, ast.For) and unparse(loop.iter) == L and isinstance(loop.target, ast.Name) and not loop.orelse):
        return False
    x = loop.target.id
    lb = [y for y in loop.body if not isinstance(y, ast.Pass)]
    if len(lb) != 1:
        return False
    st = lb[0]
    if isinstance(st, ast.AugAssign):
        return isinstance(st.op, ast.Add) and unparse(st.target) == acc and unparse(st.value) in (x, "list(%s)" % x)
    if isinstance(st, ast.Assign):
        return len(st.targets) == 1 and unparse(st.targets[0]) == acc and unparse(st.value).replace(" ", "") in ("%s+%s" % (acc, x), "%s+list(%s)" % (acc, x))
    if isinstance(st, ast.Expr):
        return unparse(st.value).replace(" ", "") == "%s.extend(%s)" % (acc, x)
    if isinstance(st, ast.For) and isinstance(st.target, ast.Name) and unparse(st.iter) == x and not st.orelse:
        ib = [y for y in st.body if not isinstance(y, ast.Pass)]
        return len(ib) == 1 and isinstance(ib[0], ast.Expr) and unparse(ib[0].value).replace(" ", "") == "%s.append(%s)" % (acc, st.target.id)
    return False


def index_agreement(ctx, P, views, iters):
    """R2-index: removal uses individuals[t.prev_priority_class], insertion individuals[t.priority_class]:
    every insertion path must establish removal-index == insertion-index for that token."""
    ob = ctx.ob("R2.index", "every path that inserts a customer into individuals[i] establishes the index later used for removal")
    reported = set()
    for view in views:
        rem_idx = set()
        for m in view.methods():
            cls, fn = view.resolve(m)
            for n in ast.walk(fn):
                if (isinstance(n, ast.Call) and isinstance(n.func, ast.Attribute) and n.func.attr in ("remove", "pop")
                        and isinstance(n.func.value, ast.Subscript) and isinstance(n.func.value.value, ast.Attribute)
                        and n.func.value.value.attr == "individuals" and n.args):
                    idx = n.func.value.slice
                    if isinstance(idx, ast.Attribute) and unparse(idx.value) == unparse(n.args[0]):
                        rem_idx.add(idx.attr)
        if not rem_idx:
            ctx.unrecognised("R2.index: no removal of the form individuals[t.<f>].remove(t) in view %s" % view.name)
            continue
        for m in view.methods():
            if m == "__init__":
                continue
            cls, fn = view.resolve(m)
            if not any(isinstance(n, ast.Attribute) and n.attr == "individuals" for n in ast.walk(fn)) and m not in rules.ROOT_HANDLERS:
                continue
            if rules.is_private_helper(P, view, m):
                continue      # evaluated inside its callers (spliced)

            def keep(e):
                if e.kind == "call":
                    lo = listop(e)
                    return bool(lo and lo[2] == "individuals" and lo[0] == "ins")
                if e.kind == "assign" and not e.d.get("local"):
                    sp = split_path(e.d["target"])
                    return bool(sp and sp[1] in rem_idx)
                return False
            w = Walker(P, view, keep=keep, loop_iters=iters)
            for st in w.paths_of(cls, fn):
                if st.status == "raise":
                    continue
                for i, e in enumerate(st.events):
                    if e.kind != "call":
                        continue
                    lo = listop(e)
                    tok = lo[4][-1] if lo[4] else "?"
                    idx = lo[3][1:-1]
                    ok = False
                    for f in rem_idx:
                        if idx == "%s.%s" % (tok, f):
                            ok = True
                    for e2 in st.events:
                        if e2.kind == "assign" and e2.d["target"] in ["%s.%s" % (tok, f) for f in rem_idx] and e2.d["value"] == idx:
                            ok = True
                    ob.seen("%s.%s:%s" % (cls.name, m, idx))
                    if not ok and (cls.name, m) not in reported:
                        reported.add((cls.name, m))
                        ctx.violation(ob, "R2.index", "%s.%s" % (cls.name, m), unparse(e.node), "removal-index-not-established",
                                      "customer inserted into individuals[%s] but removal uses individuals[%s.%s]; no assignment on this path makes them equal"
                                      % (idx, tok, "/".join(sorted(rem_idx))), e.where, witness(st))
    ctx.floor("insertion sites into individuals[*]", len(ob.nontrivial), 2)


def population_views(ctx, P, views):
    ob = ctx.ob("VIEWS", "all_individuals (the list every scan, record query and tracker reads) is computed from self.individuals on each access: no cached copy, no writes in the property")
    for view in views:
        r = view.resolve("all_individuals")
        if r is None or "all_individuals" not in r[0].props:
            ctx.unrecognised("VIEWS: %s.all_individuals is no longer a property" % view.name)
            continue
        cls, fn = r
        writes = [x for x in ast.walk(fn) if isinstance(x, (ast.Assign, ast.AugAssign)) and any(not isinstance(t, ast.Name) for t in (x.targets if isinstance(x, ast.Assign) else [x.target]))]
        rets = [x for x in ast.walk(fn) if isinstance(x, ast.Return)]
        ob.ok("%s.all_individuals" % view.name, "; ".join(unparse(x.value) for x in rets))
        for wr in writes:
            ctx.violation(ob, "R1.computed-view", "%s.all_individuals" % cls.name, unparse(wr)[:80], "view-has-state",
                          "the population view stores state: a stale copy makes customers appear at a node they left (or vanish) for every reader of all_individuals", loc(wr))
        for x in rets:
            txt = unparse(x.value)
            ok = txt in ("self.individuals[0]", "flatten_list(self.individuals)") or ("self.individuals" in txt and not any(
                isinstance(y, ast.Attribute) and isinstance(y.value, ast.Name) and y.value.id == "self" and y.attr not in ("individuals", "simulation") for y in ast.walk(x.value)))
            if isinstance(x.value, ast.Name):
                # a local: it must be built from self.individuals in this call
                defs = [unparse(d.value) for d in ast.walk(fn) if isinstance(d, ast.Assign) and any(isinstance(t, ast.Name) and t.id == x.value.id for t in d.targets)]
                ok = bool(defs) and all("self.individuals" in d for d in defs)
            if not ok:
                ctx.violation(ob, "R1.computed-view", "%s.all_individuals" % cls.name, "return " + txt[:80], "view-not-computed-from-lists",
                              "all_individuals must be derived from self.individuals at each access (returning a stored copy lets it go stale within an event)", loc(x))
        # flatten_list keeps every element, in order
    fl = P.functions.get(("ciw.auxiliary", "flatten_list"))
    if fl is None:
        ctx.unrecognised("VIEWS: flatten_list not found")
    else:
        ob.ok("flatten_list")
        if not _is_flatten(fl):
            ctx.violation(ob, "R1.computed-view", "flatten_list", "flatten_list", "flatten-shape", "flatten_list must concatenate all sub-lists in order", loc(fl))
