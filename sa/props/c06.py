"""C06 Finite capacity -- every admission behind the right guard on the right node (R5), system population offset,
rejection iff full, derived bound fresh (DESIGN §4 C06)."""
import ast

from .. import guards, rules
from ..lin import intify, linear
from ..model import AnalysisError, call_name, loc, unparse, is_self_attr
from ..paths import Walker
from ..rules import family_views, witness, facts_text

EXPLANATION = (
    "Static analysis of every accept() call site in the package: each call that can reach a service node must be dominated, on every "
    "path, by the admission guard pop(N) < node_capacity(N) on the very node object it hands the customer to (guards are normalised to an "
    "integer-linear canonical form, so `>=`/`<`, operand order and +1/-1 offsets are compared semantically), with no population change of "
    "N between guard and call; the arrival guard must be exactly 'reject iff node full or system full' with the system population evaluated "
    "symbolically through Simulation.number_of_individuals and the creation-counter increment; unguarded sites must be the exit (all "
    "in-repo next_node_for_jockeying) or the documented reroute exception; node_capacity must be recomputed when self.c is rewritten. "
    "Together with C01 (population only grows in accept) this makes pop <= capacity inductive. Nothing is executed.")
RULE = "instances = accept call sites x paths of their root methods x views; capacity guards compared by truth table over canonical integer-linear atoms"

EXIT = "self.simulation.nodes[-1]"
POPWORDS = ("number_of_individuals", "node_capacity", "system_capacity")


def _capacity_guard(e):
    return e.kind == "guard" and any(w in str(e.d["formula"]) for w in POPWORDS)


def _pc_formula(events, upto):
    parts = []
    for i, e in enumerate(events):
        if i >= upto:
            break
        if _capacity_guard(e):
            f = intify(e.d["formula"])
            parts.append(f if e.pol else guards.neg(f))
    if not parts:
        return ("const", True)
    return parts[0] if len(parts) == 1 else ("and", tuple(parts))


def admit_formula(n, syscap="self.system_capacity", syspop="self.simulation.number_of_individuals"):
    return ("and", (intify(("lt", n + ".number_of_individuals", n + ".node_capacity")),
                    intify(("lt", syspop, syscap))))


def check(ctx):
    P = ctx.program
    iters = (0, 1)
    arrival_guard(ctx, P, iters)
    system_population(ctx, P, iters)
    transfer_guard(ctx, P, iters)
    unblock_guard(ctx, P, iters)
    unguarded_sites(ctx, P)
    derived_bound(ctx, P)
    ctx.assume("capacities and populations are integers or +inf (linear integer reasoning for +1/-1 offsets)")
    ctx.assume("only in-repo routers are used for next_node_for_jockeying (user routers are outside the analysed program)")


def _keep(e):
    if e.kind == "guard":
        return True
    if e.kind == "call":
        return e.d["meth"] in ("accept", "write_baulking_or_rejection_record", "release", "block_individual")
    if e.kind == "aug":
        return e.d["target"].endswith("number_of_individuals")
    return False


def arrival_guard(ctx, P, iters):
    ob = ctx.ob("G1", "arrival: admitted to node N iff pop(N) < node_capacity(N) and system population < system_capacity; rejected otherwise, record + exit")
    done = set()
    for view in family_views(P, "ArrivalNode"):
        cls, fn = view.method("release_individual")
        params = [a.arg for a in fn.args.args][1:]
        w = Walker(P, view, keep=_keep, track=lambda t, fr: True, loop_iters=iters)
        paths = w.paths_of(cls, fn)
        ctx.count("paths:G1", len(paths))
        n_admit = n_reject = 0
        for st in paths:
            if st.status == "raise":
                continue
            for i, e in enumerate(st.events):
                if e.kind != "call" or e.d["meth"] != "accept":
                    continue
                recv = e.d["recv"]
                pc = _pc_formula(st.events, i)
                recs_all = st.events if recv == EXIT else st.events[:i]      # at the exit the record may be written before or after the hand-over
                rejected = any(x.kind == "call" and x.d["meth"] == "write_baulking_or_rejection_record"
                               and x.d["kw"].get("record_type", (x.d["args"] + ["", ""])[1]) == "'rejection'" for x in recs_all)
                baulked = any(x.kind == "call" and x.d["meth"] == "write_baulking_or_rejection_record" for x in recs_all) and not rejected
                if recv != EXIT:
                    n_admit += 1
                    want = admit_formula(recv)
                    okk, cex = guards.implies(pc, want)
                    ob.ok("%s:admit:%s" % (view.name, recv), "admit to %s under %s" % (recv, guards.show(pc)))
                    if not okk and (cls.name, "admit") not in done:
                        done.add((cls.name, "admit"))
                        ctx.violation(ob, "R5.admission", "%s.release_individual" % cls.name, "%s.accept(...) under %s" % (recv, guards.show(pc)),
                                      "admission-guard", "a customer is admitted to %s under condition [%s]; required [%s]"
                                      % (recv, guards.show(pc), guards.show(want)), e.where, witness(st))
                    # no population change of N between guard and call
                    last_guard = max([j for j, x in enumerate(st.events[:i]) if _capacity_guard(x)] or [-1])
                    for x in st.events[last_guard + 1:i]:
                        if (x.kind == "aug" and x.d["target"] == recv + ".number_of_individuals") or (x.kind == "call" and x.d["meth"] == "accept"):
                            ctx.violation(ob, "R5.admission", "%s.release_individual" % cls.name, x.text, "population-changes-after-guard",
                                          "population of the tested node changes between the capacity test and accept()", x.where, witness(st))
                elif rejected:
                    n_reject += 1
                    rec = [x for x in recs_all if x.kind == "call" and x.d["meth"] == "write_baulking_or_rejection_record"][0]
                    node = rec.d["recv"]
                    want = guards.neg(admit_formula(node))
                    okk, cex = guards.implies(pc, want)
                    ob.ok("%s:reject:%s" % (view.name, node), "reject at %s under %s" % (node, guards.show(pc)))
                    if not okk and (cls.name, "reject") not in done:
                        done.add((cls.name, "reject"))
                        ctx.violation(ob, "R5.admission", "%s.release_individual" % cls.name, "rejection under %s" % guards.show(pc),
                                      "rejection-guard", "a customer is rejected at %s under condition [%s]; required [%s]"
                                      % (node, guards.show(pc), guards.show(want)), e.where, witness(st))
                    if params and node != params[0]:
                        ctx.violation(ob, "R8.rejection-record", "%s.release_individual" % cls.name, rec.text, "record-at-other-node",
                                      "the rejection record is written by a node other than the one that was tested", rec.where, witness(st))
                elif baulked:
                    # baulking happens only after admission was possible
                    rec = [x for x in recs_all if x.kind == "call" and x.d["meth"] == "write_baulking_or_rejection_record"][0]
                    want = admit_formula(rec.d["recv"])
                    okk, cex = guards.implies(pc, want)
                    ob.ok("%s:baulk:%s" % (view.name, rec.d["recv"]))
                    if not okk and (cls.name, "baulk") not in done:
                        done.add((cls.name, "baulk"))
                        ctx.violation(ob, "R5.admission", "%s.release_individual" % cls.name, "baulk under %s" % guards.show(pc), "baulk-guard",
                                      "the baulking decision is taken under [%s]; required [%s]" % (guards.show(pc), guards.show(want)), e.where, witness(st))
                else:
                    ctx.violation(ob, "R5.admission", "%s.release_individual" % cls.name, e.text, "exit-without-record",
                                  "arrival sent to the exit without a rejection/baulk record", e.where, witness(st))
        if not n_admit or not n_reject:
            ctx.unrecognised("G1: %s.release_individual has %d admitting and %d rejecting paths" % (view.name, n_admit, n_reject))
    # the record shows the population seen
    for view in family_views(P, "Node"):
        cls, fn = view.method("write_baulking_or_rejection_record")
        found = False
        for n, fields in rules.record_constructions(P, view, fn):
                for karg, kvalue in fields.items():
                    if karg == "queue_size_at_arrival":
                        found = True
                        ob.ok("record:queue_size_at_arrival", unparse(kvalue))
                        if unparse(kvalue) != "self.number_of_individuals":
                            ctx.violation(ob, "R8.rejection-record", "%s.write_baulking_or_rejection_record" % cls.name,
                                          "queue_size_at_arrival=%s" % unparse(kvalue), "not-population-seen",
                                          "rejection/baulk record must show the population of the node that was tested", loc(n))
        if not found:
            ctx.unrecognised("G1: DataRecord(queue_size_at_arrival=...) not found in write_baulking_or_rejection_record")
    # guard evaluated per batch member
    for view in family_views(P, "ArrivalNode"):
        cls, fn = view.method("have_event")
        ok = False
        w = Walker(P, view, keep=lambda e: (e.kind == "call" and e.d["meth"] == "release_individual") or (e.kind in ("iter", "loopexit") and isinstance(e.node, ast.For)),
                   inline=rules.new_helper, loop_iters=iters)
        for st in w.paths_of(cls, fn):
            depth, inside, outside = 0, 0, 0
            for e in st.events:
                if e.kind == "iter":
                    depth = 1
                elif e.kind == "loopexit":
                    depth = 0
                elif depth:
                    inside += 1
                else:
                    outside += 1
            if inside and not outside:
                ok = True
            if outside:
                ok = False
                break
        ob.ok("batch-loop:%s" % view.name)
        if not ok:
            ctx.violation(ob, "R5.admission", "%s.have_event" % cls.name, "release_individual outside the batch loop", "guard-hoisted",
                          "the admission test must be evaluated for each batch member", loc(fn))


def system_population(ctx, P, iters):
    ob = ctx.ob("SYS", "system population seen by the arrival guard = customers created before this one - customers at the exit (offset evaluated)")
    sim = P.view("Simulation")
    r = sim.resolve("number_of_individuals")
    if r is None or "number_of_individuals" not in r[0].props:
        raise AnalysisError("Simulation.number_of_individuals property not found")
    rets = [n for n in ast.walk(r[1]) if isinstance(n, ast.Return)]
    if len(rets) != 1:
        raise AnalysisError("Simulation.number_of_individuals: expected a single return")
    lin = linear(unparse(rets[0].value))
    want_terms = {"self.nodes[0].number_of_individuals": 1, "self.nodes[-1].number_of_individuals": -1}
    if lin is None or lin[0] != want_terms:
        ctx.violation(ob, "R5.system-population", "Simulation.number_of_individuals", unparse(rets[0].value), "not-arrivals-minus-exits",
                      "system population must be (customers created) - (customers at the exit) + const", loc(rets[0]))
        return
    const = lin[1]
    # nodes[0] is the arrival node and nodes[-1] the exit node
    init = sim.method("__init__")[1]
    ok_nodes = False
    from ..model import enclosing_def
    for n in rules.walk(P, sim, init):
        if isinstance(n, ast.Assign) and any(is_self_attr(t, "nodes") for t in n.targets):
            segs = rules.list_segments(n.value, enclosing_def(n))
            ok_nodes = len(segs) >= 2 and segs[0] == ("elem", "self.ArrivalNodeType(self)") and segs[-1] == ("elem", "self.ExitNodeType()") \
                and all(k == "splat" for k, _ in segs[1:-1])
    if not ok_nodes:
        ctx.unrecognised("SYS: Simulation.nodes is not built as [ArrivalNodeType(self)] + transitive_nodes + [ExitNodeType()]")
    for view in family_views(P, "ArrivalNode"):
        cls, fn = view.method("have_event")

        def keep(e):
            return (e.kind == "aug" and e.d["target"] == "self.number_of_individuals") or \
                   (e.kind in ("enter", "call") and e.d["meth"] == "release_individual") or \
                   (e.kind in ("iter", "loopexit") and isinstance(e.node, ast.For))
        w = Walker(P, view, keep=keep, inline=rules.new_helper, loop_iters=iters)
        for st in w.paths_of(cls, fn):
            inc = 0
            in_iter, guarded, first_call = False, False, None

            def close_iteration():
                # every batch member that reaches the guard must itself be counted once, so that the members after it see it
                if in_iter and guarded and inc != 1:
                    ctx.violation(ob, "R5.system-population", "%s.have_event" % cls.name, "creation counter %+d per batch member" % inc, "batch-member-not-counted",
                                  "within a batch the creation counter must grow by one per member inside the loop: otherwise later members of the batch are "
                                  "tested against a population that does not include the earlier ones", first_call.where, witness(st))
            for e in list(st.events) + [None]:
                if e is None or e.kind in ("iter", "loopexit"):
                    close_iteration()
                    inc, guarded = 0, False
                    in_iter = e is not None and e.kind == "iter"
                elif e.kind == "aug":
                    inc += int(e.d["value"]) if e.d["op"] == "Add" and e.d["value"].isdigit() else 99
                elif e.kind == "call":
                    guarded, first_call = True, e
                    off = inc + const
                    ob.ok("%s:offset=%d" % (view.name, off), "increments before guard %d + property constant %d" % (inc, const))
                    if off != 0:
                        ctx.violation(ob, "R5.system-population", "%s.have_event" % cls.name, "offset %+d" % off, "off-by-%d" % off,
                                      "the arrival guard compares system_capacity with (population before this customer) %+d" % off,
                                      e.where, witness(st))
    # system_capacity source
    for view in family_views(P, "ArrivalNode"):
        ws = [x for x in rules.attr_writes(P, "system_capacity") if x[0] is not None and x[0].name in view.mro]
        for ci, f, n, recv, how in ws:
            ob.ok("system_capacity writer %s" % rules.qual(ci, f))
            if "__init__" not in rules.effective_names(P, ci, f):
                ctx.violation(ob, "R1.config", rules.qual(ci, f), unparse(n), "capacity-rewritten", "system_capacity written outside __init__", loc(n))


def transfer_guard(ctx, P, iters):
    ob = ctx.ob("G2", "finish_service: release to N iff pop(N) < node_capacity(N), else block to that same N; no population change in between")
    done = set()
    for view in family_views(P, "Node"):
        cls, fn = view.method("finish_service")
        w = Walker(P, view, keep=lambda e: _keep(e) or (e.kind == "enter" and e.d["meth"] in ("release", "block_individual")),
                   track=lambda t, fr: fr.func.name == "finish_service" or fr.depth == 0,
                   inline=lambda ev: ev.d["meth"] not in ("release", "block_individual", "change_customer_class", "next_node"), loop_iters=iters)
        nrel = nblk = 0
        for st in w.paths_of(cls, fn):
            if st.status == "raise":
                continue
            for i, e in enumerate(st.events):
                if e.kind != "call" or e.d["meth"] not in ("release", "block_individual") or e.d["recv"] != "self":
                    continue
                args = e.d["args"]
                node = args[1] if len(args) > 1 else e.d["kw"].get("next_node", "?")
                pc = _pc_formula(st.events, i)
                want = intify(("lt", node + ".number_of_individuals", node + ".node_capacity"))
                if e.d["meth"] == "block_individual":
                    want = guards.neg(want)
                    nblk += 1
                else:
                    nrel += 1
                okk, cex = guards.implies(pc, want)
                ob.ok("%s:%s:%s" % (view.name, e.d["meth"], node), "%s(%s) under %s" % (e.d["meth"], node, guards.show(pc)))
                if not okk and (cls.name, e.d["meth"]) not in done:
                    done.add((cls.name, e.d["meth"]))
                    ctx.violation(ob, "R5.transfer-guard", "%s.finish_service" % cls.name, "%s(..., %s) under %s" % (e.d["meth"], node, guards.show(pc)),
                                  "transfer-guard", "%s towards %s happens under [%s]; required [%s]" % (e.d["meth"], node, guards.show(pc), guards.show(want)),
                                  e.where, witness(st))
        if not nrel or not nblk:
            ctx.unrecognised("G2: %s.finish_service has %d release and %d block paths" % (view.name, nrel, nblk))


def unblock_guard(ctx, P, iters):
    ob = ctx.ob("G3", "release_blocked_individual: a blocked customer is pulled only when blocked queue non-empty and pop(self) < node_capacity(self)")
    done = set()
    for view in family_views(P, "Node"):
        cls, fn = view.method("release_blocked_individual")
        w = Walker(P, view, keep=_keep, track=lambda t, fr: True, inline=lambda ev: ev.d["meth"] not in ("release",), loop_iters=iters)
        n = 0
        for st in w.paths_of(cls, fn):
            if st.status == "raise":
                continue
            for i, e in enumerate(st.events):
                if e.kind == "call" and e.d["meth"] == "release" and e.d["recv"] != "self":
                    n += 1
                    dest = e.d["args"][1] if len(e.d["args"]) > 1 else "?"
                    pc = _pc_formula(st.events, i)
                    want = intify(("lt", "self.number_of_individuals", "self.node_capacity"))
                    okk, cex = guards.implies(pc, want)
                    ob.ok("%s:%s" % (view.name, dest), "pull into %s under %s" % (dest, guards.show(pc)))
                    if dest != "self":
                        ctx.violation(ob, "R5.unblock-guard", "%s.release_blocked_individual" % cls.name, e.text, "destination-not-self",
                                      "the unblocked customer must be released into the node that tested its own capacity", e.where, witness(st))
                    if not okk and cls.name not in done:
                        done.add(cls.name)
                        ctx.violation(ob, "R5.unblock-guard", "%s.release_blocked_individual" % cls.name, "release(..., self) under %s" % guards.show(pc),
                                      "unblock-guard", "a blocked customer is pulled in under [%s]; required [%s]" % (guards.show(pc), guards.show(want)),
                                      e.where, witness(st))
        if not n:
            ctx.unrecognised("G3: no `<other>.release(x, self)` in %s.release_blocked_individual" % view.name)
        # ... and whenever both hold the customer IS pulled: a path that pulls nobody must have refuted one of the two conditions
        for st in w.paths_of(cls, fn):
            if st.status == "raise" or any(e.kind == "call" and e.d["meth"] == "release" and e.d["recv"] != "self" for e in st.events):
                continue
            parts_ = [intify(e.d["formula"]) if e.pol else guards.neg(intify(e.d["formula"])) for e in st.events if e.kind == "guard"]
            full_pc = ("const", True) if not parts_ else parts_[0] if len(parts_) == 1 else ("and", tuple(parts_))
            want_ = ("or", (guards.neg(intify(("lt", "0", "self.len_blocked_queue"))), guards.neg(intify(("lt", "self.number_of_individuals", "self.node_capacity")))))
            okk_ = guards.implies(full_pc, want_)[0]
            ob.ok("%s:no-pull" % view.name, "no pull under %s" % guards.show(full_pc))
            if not okk_ and (cls.name, "skip") not in done:
                done.add((cls.name, "skip"))
                ctx.violation(ob, "R5.unblock-guard", "%s.release_blocked_individual" % cls.name, "no release under %s" % guards.show(full_pc),
                              "unblock-skipped", "a path pulls nobody in although neither `blocked queue empty` nor `node full` has been established: a customer stays "
                              "blocked while its destination has space", loc(fn), witness(st))


def unguarded_sites(ctx, P):
    ob = ctx.ob("UNG", "unguarded accept sites reach only the exit (jockeying) or are the documented reroute exception")
    # every in-repo next_node_for_jockeying returns the exit node (or delegates to another router's implementation)
    impls = P.classes_defining("next_node_for_jockeying")
    n = 0
    for ci in impls:
        if ci.name in P.subclasses("Node"):
            continue
        fn = ci.methods["next_node_for_jockeying"]
        for r in [x for x in ast.walk(fn) if isinstance(x, ast.Return)]:
            n += 1
            txt = unparse(r.value)
            ob.ok("%s.next_node_for_jockeying" % ci.name, txt)
            if txt != "self.simulation.nodes[-1]" and not (isinstance(r.value, ast.Call) and call_name(r.value) == "next_node_for_jockeying"):
                ctx.violation(ob, "R5.unguarded-accept", "%s.next_node_for_jockeying" % ci.name, txt, "jockey-to-node",
                              "renege hands the customer over without a capacity test; the in-repo jockeying destination must be the exit", loc(r))
    ctx.floor("next_node_for_jockeying implementations", n, 3)
    # release(..., reroute=True) only from reroute(); reroute() only under the 'reroute' option
    for view in family_views(P, "Node"):
        for m in view.methods():
            cls, fn = view.resolve(m)
            for c in ast.walk(fn):
                if isinstance(c, ast.Call) and call_name(c) == "release":
                    rr = [k for k in c.keywords if k.arg == "reroute"] + ([c.args[2]] if len(c.args) > 2 else [])
                    if rr:
                        ob.ok("%s.%s:%s" % (cls.name, m, unparse(c)))
                        if m != "reroute":
                            ctx.violation(ob, "R5.unguarded-accept", "%s.%s" % (cls.name, m), unparse(c), "reroute-release-elsewhere",
                                          "release(..., reroute=...) (which skips the capacity test) outside reroute()", loc(c))
        for caller in rules.self_callers(view, "reroute"):
            cls, fn = view.resolve(caller)
            w = Walker(P, view, keep=lambda e: e.kind == "guard" or (e.kind in ("call", "enter") and e.d["meth"] == "reroute"),
                       track=lambda t, fr: "reroute" in unparse(t), inline=rules.new_helper)
            for st in w.paths_of(cls, fn):
                for i, e in enumerate(st.events):
                    if e.kind == "call" and e.d["meth"] == "reroute":
                        facts = rules.path_condition(st.events, i)
                        ok = any(a[0] == "eq" and "'reroute'" in a[1:] and v for a, v in facts.items())
                        ob.ok("%s.%s:reroute-call" % (cls.name, caller))
                        if not ok:
                            ctx.violation(ob, "R5.unguarded-accept", "%s.%s" % (cls.name, caller), e.text, "reroute-unguarded",
                                          "reroute() (capacity-ignoring hand-over) reached without the == 'reroute' option test", e.where, witness(st))


def derived_bound(ctx, P):
    ob = ctx.ob("DER", "node_capacity is recomputed whenever self.c is rewritten outside __init__")
    fam = set(P.subclasses("Node"))
    n = 0
    for ci, fn, node, recv, how in rules.attr_writes(P, "c"):
        if ci is None or ci.name not in fam or recv != "self":
            continue
        n += 1
        ob.seen("%s:%s" % (rules.qual(ci, fn), unparse(node)))
        if "__init__" in rules.effective_names(P, ci, fn):
            continue
        recomputed = any(isinstance(x, (ast.Assign, ast.AugAssign)) and any(is_self_attr(t, "node_capacity") for t in (x.targets if isinstance(x, ast.Assign) else [x.target]))
                         for x in ast.walk(fn))
        if not recomputed:
            ctx.violation(ob, "R5.derived", rules.qual(ci, fn), unparse(rules.inline_locals(fn, node)), "node_capacity-not-recomputed",
                          "self.c is rewritten but node_capacity (= queue capacity + c, computed in __init__) is not recomputed: "
                          "with a server schedule the bound stays at the value for the initial shift", loc(node))
    ctx.floor("writes of Node.c", n, 3)
    # node_capacity itself: written only in __init__ / together with c
    for ci, fn, node, recv, how in rules.attr_writes(P, "node_capacity"):
        ob.seen("cap:%s" % rules.qual(ci, fn))
        if recv != "self" or ("__init__" not in rules.effective_names(P, ci, fn) and not any(is_self_attr(t, "c") for x in ast.walk(fn) if isinstance(x, ast.Assign) for t in x.targets)):
            ctx.violation(ob, "R1.config", rules.qual(ci, fn), unparse(node), "capacity-rewritten",
                          "node_capacity written outside __init__ / a shift change", loc(node))
