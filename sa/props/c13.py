"""C13 Reneging and baulking -- structural clauses (DESIGN §4 C13): patience provenance, renege scan filter and reachability,
renege hand-over, baulk guard, timer re-arm (shared with C02)."""
import ast

from .. import guards, rules, scans
from ..config import contexts
from ..model import AnalysisError, call_name, loc, unparse
from ..paths import Walker
from ..rules import family_views, witness, facts_text, listop
from . import c02, c03

EXPLANATION = (
    "Static analysis: at accept a customer's reneging_date is now + a sample of the reneging distribution of its own class at this node (inf when there is none), armed "
    "under self.reneging; the renege scan ranges over all customers, admits a candidate only when it has no server on both the reset and the tie arm, and the renege event "
    "is produced only at finite-server nodes (where `ind.server` means 'in service'); renege() removes the chosen customer, writes exactly one renege record before the reset "
    "and hands it to next_node_for_jockeying exactly once; an arrival baulks exactly when random() < baulking_function(population of the node it would join, ...) (strict), "
    "and a baulk is record + exit; waiting timers are re-armed at every entry into the waiting state (finding K-04). On every path of renege the node that accepts the customer is the object next_node_for_jockeying returned for that customer; decide_next_event takes simultaneous events in a fixed literal first-wins order in which renege comes after slot, shift change and end of service. Probabilities and exact renege instants of a run are not decided.")
RULE = "instances = patience assignment paths, the renege scan arms, renege() paths, the baulk decision paths of all arrival views"


def check(ctx):
    P = ctx.program
    iters = (0, 1)
    patience(ctx, P, iters)
    patience_writers(ctx, P)
    renege_scan(ctx, P)
    views = family_views(P, "Node")
    c03.terminal_records(ctx, P, views, iters)
    c03.destination_agreement(ctx, P, views, iters)
    baulk(ctx, P, iters)
    c02.rearm(ctx, P, iters)
    jockey_default(ctx, P)
    from . import c01
    c01.no_touch_after_handover(ctx, P, views, iters)
    renege_leaves_class_change_cache(ctx, P, views, iters)
    renege_destination(ctx, P, views, iters)
    # a customer whose patience ends at the very instant a server becomes available (slot, shift change, end of a service) is served, not lost: renege ranks last
    from . import c12
    c12.event_precedence(ctx, P, views, before={"renege": ("slotted_service", "shift_change", "end_service")})
    ctx.assume("baulking functions return a probability in [0, 1]; distributions return non-negative patience")


def patience(ctx, P, iters):
    ob = ctx.ob("PAT", "accept: reneging_date = now + sample of reneging_time_distributions[this node] of the customer's class (inf if none), armed under self.reneging")
    for view in family_views(P, "Node"):
        if "PSNode" in view.mro:
            continue
        cls, fn = view.method("get_reneging_date")
        tok = fn.args.args[1].arg
        rets = [x for x in ast.walk(fn) if isinstance(x, ast.Return)]
        table = "self.simulation.network.customer_classes[%s.customer_class].reneging_time_distributions[self.id_number-1]" % tok
        dist = [x for x in ast.walk(fn) if isinstance(x, ast.Assign) and isinstance(x.targets[0], ast.Name) and "reneging_time_distributions" in unparse(x.value)]
        okd = len(dist) == 1 and unparse(rules.inline_locals(fn, dist[0].value)).replace(" ", "") == table
        dname = unparse(dist[0].targets[0]) if dist else "dist"
        ob.ok("%s.get_reneging_date" % view.name, "; ".join(unparse(r.value) for r in rets))
        if not okd:
            ctx.violation(ob, "R7.patience", "%s.get_reneging_date" % cls.name, unparse(dist[0].value) if dist else "reneging_time_distributions", "wrong-distribution",
                          "patience must be sampled from the reneging distribution of the customer's own class at this node", loc(fn))
        w = Walker(P, view, keep=lambda e: e.kind in ("guard", "return"), track=lambda t, f: True, inline=rules.new_helper)
        okp, np_ = True, 0
        for st in w.paths_of(cls, fn):
            if st.status != "return":
                continue
            np_ += 1
            facts = rules.path_condition(st.events)
            nn = [v for a, v in facts.items() if a[0] == "isnone"]
            none = nn[0] if len(nn) == 1 else None
            rv = [e for e in st.events if e.kind == "return"][0]
            val = unparse(rv.d["value_node"]).replace(" ", "")
            if none is True:
                okp = okp and val.lower().replace('"', "'") == "float('inf')"
            elif none is False:
                # (locals that name the clock or the sample, each assigned once, are read through)
                vn = rules.inline_locals(fn, rv.d["value_node"])
                single = {}
                for y in ast.walk(fn):
                    if isinstance(y, ast.Assign) and len(y.targets) == 1 and isinstance(y.targets[0], ast.Name):
                        single.setdefault(y.targets[0].id, []).append(y.value)
                calls_ = {k: rules.inline_locals(fn, v[0]) for k, v in single.items() if len(v) == 1 and isinstance(v[0], ast.Call) and call_name(v[0]) in ("sample", "_sample")}
                if calls_:
                    vn = rules._Subst(calls_).visit(rules.clone(vn))
                okp = okp and rules.sum_terms(vn) in (sorted(["self.now", "%s.sample(ind=%s,t=self.now)" % (dname, tok)]), sorted(["self.now", "%s.sample(ind=%s,t=self.now)" % (table, tok)]))
            else:
                okp = False
        if not okp or np_ != 2:
            ctx.violation(ob, "R7.patience", "%s.get_reneging_date" % cls.name, "; ".join(unparse(r.value) for r in rets), "patience-date", "reneging date must be now + patience sample (inf when there is no distribution)", loc(fn))
        # armed at accept
        cls2, fn2 = view.method("begin_service_if_possible_accept")
        tok2 = fn2.args.args[1].arg
        w = Walker(P, view, keep=lambda e: e.kind == "guard" or (e.kind == "assign" and e.d["target"].endswith(".reneging_date")), track=lambda t, f: "reneging" in unparse(t), inline=rules.new_helper, loop_iters=iters)
        for st in w.paths_of(cls2, fn2):
            if st.status == "raise":
                continue
            facts = rules.path_condition(st.events)
            asg = [e for e in st.events if e.kind == "assign"]
            ob.ok("%s.accept-arming:%s" % (view.name, facts.get(("truth", "self.reneging"))))
            if facts.get(("truth", "self.reneging")) is not False:
                if len(asg) != 1 or asg[0].d["target"] != tok2 + ".reneging_date" or asg[0].d["value"].replace(" ", "") != "self.get_reneging_date(%s)" % tok2:
                    ctx.violation(ob, "R7.patience", "%s.begin_service_if_possible_accept" % cls2.name, asg[0].text if asg else "reneging_date", "patience-not-armed",
                                  "an arriving customer's reneging_date must be set from get_reneging_date(customer) whenever the node has reneging", loc(fn2), witness(st))
                    break


def patience_writers(ctx, P):
    ob = ctx.ob("PATW", "reneging_date is assigned only when the customer joins the queue (accept), when it reneges, or when it is re-queued by a pre-emption: the patience sampled at arrival is never replaced during the wait")
    allowed = {"begin_service_if_possible_accept", "renege", "preempt", "interrupt_service", "__init__"}
    n = 0
    for ci, fn, node, recv, how in rules.attr_writes(P, "reneging_date"):
        n += 1
        q = rules.qual(ci, fn)
        names = rules.effective_names(P, ci, fn)
        ob.ok("%s" % q, "%s: %s" % (q, unparse(node)[:70]))
        if not names & allowed:
            ctx.violation(ob, "R1.patience-writer", q, unparse(node)[:90], "patience-rewritten-during-wait",
                          "reneging_date is re-assigned while the customer keeps waiting: it must leave exactly at arrival + the patience sampled on arrival", loc(node))
    ctx.floor("writes of reneging_date", n, 1)


def renege_scan(ctx, P):
    ob = ctx.ob("RSCAN", "renege scan: over all customers, candidate only if it has no server (both arms), produced only at finite-server nodes with reneging")
    for view in family_views(P, "Node"):
        cls, fn = view.method("update_next_renege_time")
        scs = scans.find_scans(fn)
        if len(scs) != 1:
            ctx.unrecognised("RSCAN: expected one arg-min scan in %s.update_next_renege_time" % view.name)
            continue
        sc = scs[0]
        var = unparse(sc.loop.target)
        ob.ok("%s.update_next_renege_time" % view.name, "for %s in %s: key %s" % (var, unparse(sc.loop.iter), sc.key))
        for reason, msg, node in scans.judge(sc):
            ctx.violation(ob, "R6.argmin", "%s.update_next_renege_time" % cls.name, "renege scan", reason, msg, loc(node))
        if sc.key != var + ".reneging_date" or unparse(sc.loop.iter) != "self.all_individuals":
            ctx.violation(ob, "R6.argmin", "%s.update_next_renege_time" % cls.name, "for %s in %s / key %s" % (var, unparse(sc.loop.iter), sc.key), "scan-collection", "the scan must compare reneging_date over self.all_individuals", loc(sc.loop))
        for arm, name in [(sc.arm, "reset")] + [(t, "tie") for t in sc.ties]:
            facts = scans.arm_condition(sc, arm)
            if facts.get(("truth", var + ".server")) is not False:
                ctx.violation(ob, "R6.argmin", "%s.update_next_renege_time" % cls.name, "%s arm" % name, "filter-missing-on-" + name,
                              "a customer with a server (in service) must never be a renege candidate: the %s arm lacks `not %s.server`" % (name, var), loc(arm))
            # the candidate stored is the scanned customer with its own date
            sr = scans.stored_result(sc, fn)
            if name == "reset" and (sr is None or sr["elem"] != var or not sr["date_ok"] or "'renege'" not in sr["target"]):
                ctx.violation(ob, "R6.argmin", "%s.update_next_renege_time" % cls.name, unparse(sr["node"]) if sr else "possible_next_events['renege']", "scan-result-not-stored", "the renege candidate must be ([customer], its reneging_date)", loc(arm))
            if name == "tie" and sr is not None and not sr["ties_ok"]:
                ctx.violation(ob, "R6.argmin", "%s.update_next_renege_time" % cls.name, "tie arm append", "scan-result-not-stored", "a tied customer must be appended to the renege candidates", loc(arm))
        # ... and whether the scan runs at all depends on the node's configuration only (finite servers, reneging on): a path that returns without scanning
        # because of a condition on the node's *state* (a counter, a queue length) leaves a due renege unscheduled whenever that condition is off
        rcls, rfn = view.method("update_next_renege_time")
        ws = Walker(P, view, keep=lambda e: e.kind in ("guard", "iter", "loopexit"), track=lambda t, f: True, inline=rules.new_helper)
        for st_ in ws.paths_of(rcls, rfn):
            if st_.status == "raise" or any(e.kind in ("iter", "loopexit") and isinstance(e.node, ast.For) for e in st_.events):
                continue
            for e in st_.events:
                if e.kind != "guard":
                    continue
                state_atoms = [a_ for a_ in guards.atoms(e.d["formula"]) if not ws._is_config_atom(a_)]
                if state_atoms:
                    ctx.violation(ob, "R6.argmin", "%s.update_next_renege_time" % cls.name, guards.show(e.d["formula"]), "scan-skipped-on-a-state-condition",
                                  "the renege scan is skipped under `%s`, a condition on the node's state rather than its configuration: a waiting customer whose "
                                  "patience runs out is then never scheduled to leave" % guards.show(e.d["formula"]), e.where, witness(st_))
                    break
        # reachability: the renege event type is produced only under not-INF and REN
        C = contexts(P, view)
        bad = [v for v in C.prod["renege"] if v["INF"] or not v["REN"]]
        ob.ok("%s:renege-production:%d" % (view.name, len(C.prod["renege"])))
        if bad:
            ctx.violation(ob, "R5.renege-reachability", "%s.update_next_renege_time" % cls.name, "guard of the renege scan", "renege-at-infinite-server-node",
                          "the renege event is produced under configuration {%s}: at an infinite-server node ind.server is never set, so customers in service would renege" % bad[0].show(), loc(fn))
        # renege(): the customer that reneges is the one the scan selected
        cls, fn = view.method("renege")
        first = [x for x in fn.body if isinstance(x, ast.Assign)]
        ob.ok("%s.renege:subject" % view.name)
        if not first or unparse(first[0].value) != "self.decide_between_simultaneous_individuals()":
            ctx.violation(ob, "R6.argmin", "%s.renege" % cls.name, unparse(first[0]) if first else "?", "subject-not-selected", "the reneging customer must be chosen among self.next_individual (the scan's minimisers)", loc(fn))
        cls, fn = view.method("decide_between_simultaneous_individuals")
        # every path returns one of the scan's minimisers: random_choice(self.next_individual) or an end of the list (temporaries read through)
        wd = Walker(P, view, keep=lambda e: e.kind in ("return", "assign"), inline=rules.new_helper)
        vals = set()
        for st_ in wd.paths_of(cls, fn):
            if st_.status != "return":
                continue
            defs_ = {e.d["target"]: e.d["value"] for e in st_.events if e.kind == "assign" and e.d.get("local") and e.d.get("value") not in (None, "?")}
            rv_ = [e for e in st_.events if e.kind == "return" and e.frame.depth == 0][-1]
            from ..scans import _subst
            vals.add(_subst(rv_.d.get("canon") or "?", defs_).replace(" ", ""))
        vals = sorted(vals)
        if vals not in (["random_choice(self.next_individual)", "self.next_individual[0]"], ["random_choice(self.next_individual)", "self.next_individual[-1]"]):
            ctx.violation(ob, "R6.argmin", "%s.decide_between_simultaneous_individuals" % cls.name, str(vals), "subject-not-selected", "must pick one of self.next_individual", loc(fn))


def renege_leaves_class_change_cache(ctx, P, views, iters):
    """a reneging customer is a WAITING customer: it may be the one cached as the next to change class (next_class_change_ind).  If it leaves without the
    cache being refreshed, the class-change event later fires for a customer that is no longer at the node (list.remove fails)."""
    ob = ctx.ob("RCC", "renege: after the customer is taken off the node's lists, reset_class_change(it) / find_next_class_change() runs before the hand-over")
    done = set()
    for view in views:
        if "PSNode" in view.mro:
            continue
        cls, fn = view.method("renege")

        def keep(e):
            if e.kind != "call":
                return False
            lo = listop(e)
            if lo and lo[2] == "individuals" and lo[1] == "self" and lo[0] == "rem":
                return True
            return e.d["meth"] in ("reset_class_change", "find_next_class_change") or (e.d["meth"] == "accept" and not e.d.get("selfcall") and e.d.get("recv") != "self")
        w = Walker(P, view, keep=keep, inline=rules.new_helper, loop_iters=iters)
        n = 0
        for st in w.paths_of(cls, fn):
            if st.status == "raise":
                continue
            kinds = ["rem" if listop(e) else "acc" if e.d["meth"] == "accept" else "cc" for e in st.events]
            n += 1
            ok = "rem" in kinds and "cc" in kinds[kinds.index("rem"):] and ("acc" not in kinds or kinds.index("cc", kinds.index("rem")) < kinds.index("acc"))
            ob.ok("%s.renege:%s" % (view.name, "".join(k[0] for k in kinds)), "%s.renege: %s" % (view.name, " -> ".join(x.text[:50] for x in st.events)))
            if not ok and cls.name not in done:
                done.add(cls.name)
                ctx.violation(ob, "R7.fired-timer", "%s.renege" % cls.name, "next_class_change_ind", "class-change-cache-not-refreshed",
                              "the reneging customer leaves the node but stays cached as the next customer to change class: its class-change event later runs "
                              "change_priority_queue on a customer that is not in the node's lists (ValueError) or rewrites the class of a customer at another node",
                              loc(fn), witness(st))
        if not n:
            ctx.unrecognised("RCC: no path through %s.renege" % view.name)


def renege_destination(ctx, P, views, iters):
    """the reneging customer is handed to the node its router names for jockeying -- the very object `next_node_for_jockeying(<that customer>)` returned,
    on every path, whatever the state of that node (a reneger is not subject to the capacity test)"""
    from .. import typestate
    ob = ctx.ob("RDEST", "renege: the customer chosen by decide_between_simultaneous_individuals is accepted, on every path, by the node next_node_for_jockeying returned for it")
    done = set()
    n = 0
    for view in views:
        r = view.resolve("renege")
        if r is None:
            ctx.unrecognised("RDEST: %s.renege not found" % view.name)
            continue
        cls, fn = r
        w = Walker(P, view, keep=lambda e: (e.kind == "assign" and e.d.get("local")) or e.kind in ("enter", "leave", "return") or
                   (e.kind == "call" and e.d["meth"] in ("accept", "next_node_for_jockeying", "decide_between_simultaneous_individuals")),
                   inline=rules.new_helper, loop_iters=iters)
        for st in w.paths_of(cls, fn):
            if st.status == "raise":
                continue
            evs = list(st.events)
            accs = [(i, e) for i, e in enumerate(evs) if e.kind == "call" and e.d["meth"] == "accept"]
            n += 1
            ob.ok("%s.renege:%d" % (view.name, len(accs)))
            reason = None
            if len(accs) != 1:
                reason, msg, where = "reneger-not-handed-over-once", "renege must hand the customer to exactly one node (found %d accept calls)" % len(accs), loc(fn)
            else:
                i, e = accs[0]
                recv = e.node.func.value if isinstance(e.node.func, ast.Attribute) else None
                src = recv
                if isinstance(recv, ast.Name):
                    o = typestate.origin(evs, i, recv.id + e.frame.tag, e.frame)
                    src = o[0] if o else None
                ok_src = isinstance(src, ast.Call) and call_name(src) == "next_node_for_jockeying"
                if not ok_src:
                    reason, msg, where = "reneger-not-sent-to-jockeying-destination", \
                        "the node that accepts the reneging customer is `%s`, not the node next_node_for_jockeying returned for it" % (unparse(src) if src is not None else e.d["recv"]), e.where
                else:
                    # ... asked for the customer that reneges
                    arg = src.args[0] if src.args else None
                    who = e.node.args[0] if e.node.args else None
                    same = arg is not None and who is not None and unparse(arg) == unparse(who)
                    if not same:
                        reason, msg, where = "jockeying-destination-of-another-customer", "the jockeying destination is asked for `%s` but `%s` is handed over" % (unparse(arg) if arg is not None else "?", unparse(who) if who is not None else "?"), e.where
            if reason and (cls.name, reason) not in done:
                done.add((cls.name, reason))
                ctx.violation(ob, "R8.destination", "%s.renege" % cls.name, "next_node.accept(...)", reason, msg, where, witness(st))
    ctx.floor("renege paths", n, 1)


def jockey_default(ctx, P):
    """unless a router overrides it, a reneging customer leaves the system: the base routers' next_node_for_jockeying returns the exit node"""
    ob = ctx.ob("JOCK", "default jockeying destination: NodeRouting / ProcessBased next_node_for_jockeying return the exit node simulation.nodes[-1]")
    n = 0
    for cname in ("NodeRouting", "ProcessBased"):
        ci = P.classes.get(cname)
        if ci is None or "next_node_for_jockeying" not in ci.methods:
            ctx.unrecognised("JOCK: %s.next_node_for_jockeying not found" % cname)
            continue
        fn = ci.methods["next_node_for_jockeying"]
        w = Walker(P, P.view(cname), keep=lambda e: e.kind == "return", inline=rules.new_helper)
        for st in w.paths_of(ci, fn):
            if st.status != "return":
                continue
            n += 1
            rv = [e for e in st.events if e.kind == "return" and e.frame.depth == 0][-1]
            val = (rv.d.get("value") or "").replace(" ", "")
            ob.ok("%s.next_node_for_jockeying" % cname, "%s.next_node_for_jockeying returns %s" % (cname, val))
            if val != "self.simulation.nodes[-1]":
                ctx.violation(ob, "R8.destination", "%s.next_node_for_jockeying" % cname, "return %s" % val, "jockey-default-not-exit",
                              "a reneging customer whose router defines no jockeying goes to the exit node (simulation.nodes[-1]); here it is sent to `%s`" % val, rv.where)
    ctx.floor("default jockeying returns", n, 2)


def baulk(ctx, P, iters):
    ob = ctx.ob("BAULK", "decide_baulk: no function -> admit; else baulk iff random() < f(population of the node to join, ...) (strict), baulk = record + exit, otherwise admit")
    done = set()
    for view in family_views(P, "ArrivalNode"):
        cls, fn = view.method("decide_baulk")
        node, tok = fn.args.args[1].arg, fn.args.args[2].arg
        w = Walker(P, view, keep=lambda e: e.kind == "guard" or (e.kind == "call" and e.d["meth"] in ("random", "write_baulking_or_rejection_record", "accept")) or (e.kind == "assign" and e.d.get("local")),
                   track=lambda t, f: f.depth == 0, loop_iters=iters)
        n = 0
        for st in w.paths_of(cls, fn):
            if st.status == "raise":
                continue
            evs = st.events
            gs = [e for e in evs if e.kind == "guard"]
            recs = [e for e in evs if e.kind == "call" and e.d["meth"] == "write_baulking_or_rejection_record"]
            acc = [e for e in evs if e.kind == "call" and e.d["meth"] == "accept"]
            rnd = [e for e in evs if e.kind == "call" and e.d["meth"] == "random"]
            n += 1
            ob.ok("%s.decide_baulk:%s" % (view.name, "baulk" if recs else "admit"), "%s.decide_baulk: %s" % (view.name, " -> ".join(x.text[:60] for x in evs)))

            def viol(reason, construct, msg, where):
                if (cls.name, reason) in done:
                    return
                done.add((cls.name, reason))
                ctx.violation(ob, "R5.baulk-guard", "%s.decide_baulk" % cls.name, construct, reason, msg, where, witness(st))
            if not gs:
                viol("no-decision", "decide_baulk", "baulking decision not found", loc(fn))
                continue
            fn_is_none = ("isnone", "%s.baulking_functions[self.next_class]" % node)
            f0facts = {}
            guards.assume(gs[0].d["formula"], gs[0].pol, f0facts)
            if fn_is_none not in f0facts:
                viol("function-lookup", gs[0].text, "the baulking function must be looked up for the node the customer would join and the arriving class", gs[0].where)
                continue
            if f0facts[fn_is_none]:
                if recs or len(acc) != 1 or acc[0].d["recv"] != node or rnd:
                    viol("no-function-not-admitted", " -> ".join(x.text[:40] for x in evs), "without a baulking function the customer is simply sent to the node (and no random number is consumed)", loc(fn))
                continue
            if len(gs) < 2 or len(rnd) != 1:
                viol("no-random-draw", " -> ".join(x.text[:40] for x in evs), "exactly one random() must be compared with the baulking probability", loc(fn))
                continue
            g = gs[1]
            gf = {}
            guards.assume(g.d["formula"], g.pol, gf)
            defs = {e.d["target"]: e.d["value"] for e in evs if e.kind == "assign"}
            from ..scans import _subst
            dec = [(a, v) for a, v in gf.items() if a[0] == "lt" and _subst(a[2], defs).strip("()").startswith("%s.baulking_functions[self.next_class](%s.number_of_individuals" % (node, node))
                   and (defs.get(a[1]) == "random()" or a[1] == "random()")]
            if len(dec) != 1:
                viol("baulk-comparison", g.text[:120], "baulk iff random() < baulking_function(%s.number_of_individuals, ...): strict `<`, the random draw on the left, the population of the node to join as first argument" % node, g.where)
                continue
            if dec[0][1]:
                if len(recs) != 1 or recs[0].d["recv"] != node or len(acc) != 1 or acc[0].d["recv"] != "self.simulation.nodes[-1]":
                    viol("baulk-not-record-then-exit", " -> ".join(x.text[:40] for x in evs), "a baulking customer gets one baulk record at that node and goes to the exit", loc(fn))
                elif recs[0].d["kw"].get("record_type", (recs[0].d["args"] + ["", ""])[1]) != "'baulk'":
                    viol("baulk-record-type", recs[0].text, "the record of a baulking customer must have record_type 'baulk'", recs[0].where)
            else:
                if recs or len(acc) != 1 or acc[0].d["recv"] != node:
                    viol("not-baulking-not-admitted", " -> ".join(x.text[:40] for x in evs), "a customer that does not baulk is sent to the node without record", loc(fn))
        if n < 3:
            ctx.unrecognised("BAULK: only %d paths in %s.decide_baulk" % (n, view.name))
