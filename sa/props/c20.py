"""C20 Exact arithmetic mode -- numeric-domain closure (R11) over the ExactNode / ExactArrivalNode views, Decimal(str(.)) discipline,
override compatibility (R12) (DESIGN §4 C20)."""
import ast

from .. import guards, rules
from ..paths import Walker
from ..model import AnalysisError, call_name, loc, unparse, is_inf_literal, is_self_attr

EXPLANATION = (
    "Abstract interpretation of the ExactNode and ExactArrivalNode views (all inherited Node / ArrivalNode methods seen through the exact overrides) over the lattice "
    "P({Decimal, Float, Int, Sentinel, Str, Unknown}): attribute types are inferred flow-insensitively to a fixpoint from every assignment in the view (customer, server, node "
    "and schedule fields; constructor arguments at the view's own call sites), with now / increment_time / get_service_time / inter_arrival returning Decimal. Obligation: no raw "
    "+, -, *, / (or augmented form) combines a may-Decimal operand with a may-Float operand (Python raises TypeError for Decimal (+) float), and every Decimal(x) of a may-Float x "
    "goes through str (Decimal(0.1) imports the binary expansion). increment_time is Decimal(str(a)) + Decimal(str(b)) in both exact classes; the overrides are call-compatible "
    "with the base methods and build the same objects; an exact Simulation selects the exact classes and sets the precision. Agreement with the float run 'up to rounding' is not decided.")
EXPLANATION += (" Added later: " 'any other override of an engine method in the exact classes equals the base method up to Decimal constants.')
RULE = "instances = arithmetic operator nodes and Decimal(...) calls in every method visible through the exact views, evaluated under the inferred field types"

DEC, FLT, INT, SENT, STR, UNK, NONE = "Decimal", "Float", "Int", "Sentinel", "Str", "Unknown", "None"


class Typer:
    def __init__(self, P, view):
        self.P, self.view = P, view
        self.fields = {}       # attribute name -> set of tags (object-insensitive)
        self.locals = {}       # (function id, name) -> set
        self.changed = False

    def add(self, store, key, tags):
        cur = store.setdefault(key, set())
        new = set(tags) - cur
        if new:
            cur |= new
            self.changed = True

    # ---- expression typing -----------------------------------------------------------------------------
    def ty(self, n, fn):
        if n is None:
            return {NONE}
        if is_inf_literal(n):
            return {FLT}
        if isinstance(n, ast.Constant):
            v = n.value
            if isinstance(v, bool):
                return {SENT}
            if isinstance(v, float):
                return {FLT}
            if isinstance(v, int):
                return {INT}
            if isinstance(v, str):
                return {STR}
            if v is None:
                return {NONE}
            return {UNK}
        if isinstance(n, ast.Name):
            if n.id == "nan":
                return {FLT}
            return set(self.locals.get((id(fn), n.id), {UNK})) or {UNK}
        if isinstance(n, ast.Attribute):
            txt = unparse(n)
            if txt == "self.now":
                return self.ret("now")
            if txt == "self.simulation.current_time":
                return {FLT, DEC}        # the clock is whatever date type the next event carries (Decimal dates, float schedule boundaries, inf)
            if n.attr in ("next_shift_change_date", "next_slot_date", "offset", "cyclelength"):
                return {FLT, INT}        # schedule boundaries come from user floats
            if n.attr in ("c", "slot_size", "id_number", "number_of_individuals", "number_in_service", "node_capacity", "priority_class", "queue_size_at_arrival", "queue_size_at_departure"):
                return {INT, FLT} if n.attr in ("c", "node_capacity") else {INT}
            return set(self.fields.get(n.attr, {UNK})) or {UNK}
        if isinstance(n, ast.Subscript):
            base = self.ty(n.value, fn)
            return {t[5:] for t in base if t.startswith("elem:")} or ({UNK} if not any(t.startswith("elem:") for t in base) else set())
        if isinstance(n, ast.UnaryOp):
            return self.ty(n.operand, fn)
        if isinstance(n, ast.BinOp):
            l, r = self.ty(n.left, fn), self.ty(n.right, fn)
            out = set()
            if DEC in l or DEC in r:
                out.add(DEC)
            if (FLT in l or FLT in r) and not (DEC in l and DEC in r and len(l) == 1 and len(r) == 1):
                out.add(FLT)
            if not out:
                out = (l | r) & {INT, UNK} or {UNK}
            return out
        if isinstance(n, ast.IfExp):
            return self.ty(n.body, fn) | self.ty(n.orelse, fn)
        if isinstance(n, ast.Tuple):
            out = set()
            for e in n.elts:
                out |= {"elem:" + t for t in self.ty(e, fn)}
            return out
        if isinstance(n, (ast.List, ast.ListComp)):
            el = n.elts if isinstance(n, ast.List) else [n.elt]
            out = set()
            for e in el:
                out |= {"elem:" + t for t in self.ty(e, fn)}
            return out or {"elem:" + UNK}
        if isinstance(n, ast.Call):
            cn = call_name(n)
            if cn == "Decimal":
                return {DEC}
            if cn == "str":
                return {STR}
            if cn == "float":
                return {FLT}
            if cn in ("int", "len"):
                return {INT}
            if cn in ("sample", "_sample"):
                return {FLT, INT}
            if cn in ("min", "max") and n.args:
                out = set()
                for a in n.args:
                    out |= self.ty(a, fn)
                return out
            if cn == "sum" and n.args:
                el = {t[5:] for t in self.ty(n.args[0], fn) if t.startswith("elem:")}
                return (el | {INT}) if el else {UNK}
            if isinstance(n.func, ast.Attribute) and isinstance(n.func.value, ast.Name) and n.func.value.id == "self":
                r = self.view.resolve(n.func.attr)
                if r is not None:
                    return self.ret(n.func.attr)
            if cn == "get":
                return {UNK}
            return {UNK}
        if isinstance(n, ast.Compare) or isinstance(n, ast.BoolOp):
            return {SENT}
        return {UNK}

    def ret(self, mname):
        r = self.view.resolve(mname)
        if r is None:
            return {UNK}
        cls, fn = r
        key = "ret:" + mname
        out = set()
        for x in ast.walk(fn):
            if isinstance(x, ast.Return):
                out |= self.ty(x.value, fn)
        out = out or {NONE}
        self.add(self.fields, key, out)
        return set(self.fields.get(key, out))

    # ---- fixpoint over assignments ----------------------------------------------------------------------------
    def functions(self):
        """every method visible in the view + Server / Individual constructors (typed at the view's call sites)"""
        for m in self.view.methods():
            yield self.view.resolve(m)

    def run(self):
        for _ in range(12):
            self.changed = False
            for cls, fn in self.functions():
                self.scan(fn)
            # Server(...) / ServerType(...) constructor arguments at the view's call sites
            srv = self.P.view("Server").resolve("__init__")
            for cls, fn in self.functions():
                for x in ast.walk(fn):
                    if isinstance(x, ast.Call) and call_name(x) in ("Server", "ServerType"):
                        params = [a.arg for a in srv[1].args.args][1:]
                        for p, a in zip(params, x.args):
                            self.add(self.locals, (id(srv[1]), p), self.ty(a, fn))
            self.scan(srv[1])
            ind = self.P.view("Individual").resolve("__init__")
            self.scan(ind[1])
            if not self.changed:
                break

    def scan(self, fn):
        for x in ast.walk(fn):
            if isinstance(x, ast.Assign):
                t = self.ty(x.value, fn)
                for tgt in x.targets:
                    self.bind(tgt, t, x.value, fn)
            elif isinstance(x, ast.AugAssign):
                t = self.ty(ast.BinOp(left=x.target, op=x.op, right=x.value), fn)
                self.bind(x.target, t, None, fn)
            elif isinstance(x, ast.For):
                el = {t[5:] for t in self.ty(x.iter, fn) if t.startswith("elem:")} or {UNK}
                self.bind(x.target, el, None, fn)
            elif isinstance(x, ast.Call) and isinstance(x.func, ast.Attribute) and x.func.attr == "append" and x.args:
                base = x.func.value
                t = {"elem:" + y for y in self.ty(x.args[0], fn)}
                if isinstance(base, ast.Attribute):
                    self.add(self.fields, base.attr, t)
                elif isinstance(base, ast.Name):
                    self.add(self.locals, (id(fn), base.id), t)
                elif isinstance(base, ast.Subscript) and isinstance(base.value, ast.Subscript):
                    pass
            # parameters of self-calls get the argument types
            if isinstance(x, ast.Call) and isinstance(x.func, ast.Attribute) and isinstance(x.func.value, ast.Name) and x.func.value.id == "self":
                r = self.view.resolve(x.func.attr)
                if r is not None:
                    params = [a.arg for a in r[1].args.args][1:]
                    for p, a in zip(params, x.args):
                        self.add(self.locals, (id(r[1]), p), self.ty(a, fn))
                    for k in x.keywords:
                        if k.arg:
                            self.add(self.locals, (id(r[1]), k.arg), self.ty(k.value, fn))
            if isinstance(x, ast.Call) and call_name(x) == "wrap_up_servers" and x.args:
                r = self.view.resolve("wrap_up_servers")
                if r:
                    self.add(self.locals, (id(r[1]), "current_time"), {FLT, DEC, INT})

    def bind(self, tgt, t, value, fn):
        if isinstance(tgt, ast.Name):
            self.add(self.locals, (id(fn), tgt.id), t)
        elif isinstance(tgt, ast.Attribute):
            self.add(self.fields, tgt.attr, t)
        elif isinstance(tgt, (ast.Tuple, ast.List)):
            for i, e in enumerate(tgt.elts):
                sub = None
                if isinstance(value, (ast.Tuple, ast.List)) and len(value.elts) == len(tgt.elts):
                    self.bind(e, self.ty(value.elts[i], fn), value.elts[i], fn)
                else:
                    self.bind(e, {x[5:] for x in t if x.startswith("elem:")} or {UNK}, None, fn)
        elif isinstance(tgt, ast.Subscript):
            base = tgt.value
            while isinstance(base, ast.Subscript):
                base = base.value
            if isinstance(base, ast.Attribute):
                self.add(self.fields, base.attr, {"elem:" + x for x in t if not x.startswith("elem:")} | {x for x in t if x.startswith("elem:")})


def check(ctx):
    P = ctx.program
    for cname in ("ExactNode", "ExactArrivalNode"):
        closure(ctx, P, cname)
    overrides(ctx, P)
    selection(ctx, P)
    progress_bar_numbers(ctx, P)
    ctx.assume("distributions return floats/ints; schedule boundaries are floats/ints")
    ctx.assume("the wrap-up horizon passed to wrap_up_servers may be a float or a Decimal")


def closure(ctx, P, cname):
    ob = ctx.ob("R11." + cname, "%s view: no raw + - * / mixes a may-Decimal with a may-Float operand; Decimal(x) of a may-Float x goes through str" % cname)
    view = P.view(cname)
    T = Typer(P, view)
    # arrival dates table: event_dates_dict entries
    T.run()
    ctx.notes.append("%s field types: %s" % (cname, {k: sorted(v) for k, v in sorted(T.fields.items()) if k in ("service_time", "service_end_date", "busy_time", "start_date", "total_time", "reneging_date", "class_change_date", "time_left", "shift_end", "all_servers_busy", "next_event_date", "event_dates_dict")}))
    n = 0
    done = set()
    base_only = {"Node": "ExactNode", "ArrivalNode": "ExactArrivalNode"}
    for m in view.methods():
        cls, fn = view.resolve(m)
        if m in ("increment_time",):
            continue
        for x in ast.walk(fn):
            ops = None
            if isinstance(x, ast.BinOp) and isinstance(x.op, (ast.Add, ast.Sub, ast.Mult, ast.Div)):
                ops = (x.left, x.right, x)
            elif isinstance(x, ast.AugAssign) and isinstance(x.op, (ast.Add, ast.Sub, ast.Mult, ast.Div)):
                ops = (x.target, x.value, x)
            if ops:
                l, r = T.ty(ops[0], fn), T.ty(ops[1], fn)
                n += 1
                ob.ok("%s.%s:%s" % (cls.name, m, unparse(ops[2])[:40]), "%s.%s: %s  [%s (+) %s]" % (cls.name, m, unparse(ops[2])[:60], "|".join(sorted(l)), "|".join(sorted(r))))
                if (DEC in l and FLT in r) or (FLT in l and DEC in r):
                    key = (cls.name, m, unparse(ops[2]))
                    if key in done:
                        continue
                    done.add(key)
                    ctx.violation(ob, "R11.decimal-float", "%s.%s" % (cls.name, m), unparse(ops[2])[:120], "decimal-meets-float",
                                  "in exact mode `%s` combines %s with %s by a raw operator: Decimal (+) float raises TypeError (dates must be combined through increment_time)"
                                  % (unparse(ops[2])[:80], "/".join(sorted(l)), "/".join(sorted(r))), loc(ops[2]))
            if isinstance(x, ast.Call) and call_name(x) == "Decimal" and x.args:
                a = x.args[0]
                n += 1
                ta = T.ty(a, fn)
                ob.ok("%s.%s:%s" % (cls.name, m, unparse(x)[:40]))
                if not (isinstance(a, ast.Call) and call_name(a) == "str") and not (isinstance(a, ast.Constant) and isinstance(a.value, str)) and (FLT in ta or UNK in ta):
                    ctx.violation(ob, "R11.decimal-of-float", "%s.%s" % (cls.name, m), unparse(x)[:100], "decimal-of-float",
                                  "Decimal(<float>) reproduces the binary expansion of the float (Decimal(0.1) = 0.1000000000000000055...): convert through str", loc(x))
            if isinstance(x, ast.Call) and call_name(x) == "sum" and x.args:
                el = {t[5:] for t in T.ty(x.args[0], fn) if t.startswith("elem:")}
                n += 1
                ob.ok("%s.%s:%s" % (cls.name, m, unparse(x)[:40]), "%s.%s: %s elements %s" % (cls.name, m, unparse(x)[:50], sorted(el)))
                if DEC in el and FLT in el:
                    ctx.violation(ob, "R11.decimal-float", "%s.%s" % (cls.name, m), unparse(x)[:100], "decimal-meets-float",
                                  "sum() over a list holding both Decimal and float elements raises TypeError in exact mode", loc(x))
    ctx.floor("%s arithmetic sites" % cname, n, 8 if cname == "ExactNode" else 1)
    if cname == "ExactNode":
        ob2 = ctx.ob("R11.records", "ExactNode view: every date/duration field of every DataRecord is Decimal-typed (or the nan / sentinel placeholder), never a may-Float")
        k = 0
        for m in view.methods():
            cls, fn = view.resolve(m)
            if m not in rules.ANCHOR_METHODS:
                continue            # forwarding helpers are typed through their callers
            for x, fields in rules.record_constructions(P, view, fn):
                    for karg, kvalue in fields.items():
                        if karg in ("arrival_date", "waiting_time", "service_start_date", "service_time", "service_end_date", "time_blocked", "exit_date"):
                            k += 1
                            if isinstance(kvalue, ast.Name) and kvalue.id == "nan":
                                continue
                            t = T.ty(kvalue, fn)
                            ob2.ok("%s.%s:%s" % (cls.name, m, karg), "%s.%s: %s=%s : %s" % (cls.name, m, karg, unparse(kvalue)[:50], "|".join(sorted(t))))
                            lit = _literal_result(kvalue)
                            if lit is not None:
                                ctx.violation(ob2, "R11.record-type", "%s.%s" % (cls.name, m), "%s=%s" % (karg, unparse(kvalue)[:80]), "record-field-may-be-plain-number",
                                              "in exact mode the record field %s can come out as the plain number literal %s (through min/max or a conditional) instead of a Decimal: "
                                              "records then mix number types" % (karg, lit), loc(x))
                            if FLT in t:
                                ctx.violation(ob2, "R11.record-type", "%s.%s" % (cls.name, m), "%s=%s" % (karg, unparse(kvalue)[:80]), "record-field-may-be-float",
                                              "in exact mode the record field %s is built from `%s`, which may be a binary float (use self.now / increment_time)" % (karg, unparse(kvalue)[:60]), loc(x))
        ctx.floor("record date fields typed", k, 20)


def _literal_result(e):
    """a plain int/float literal that the expression may evaluate to as a whole: directly, as an argument of min/max, or as an arm of a conditional"""
    if isinstance(e, ast.Constant) and isinstance(e.value, (int, float)) and not isinstance(e.value, bool):
        return repr(e.value)
    if isinstance(e, ast.Call) and isinstance(e.func, ast.Name) and e.func.id in ("min", "max"):
        for a in e.args:
            r = _literal_result(a)
            if r is not None:
                return r
    if isinstance(e, ast.IfExp):
        return _literal_result(e.body) or _literal_result(e.orelse)
    return None


# overrides of the exact classes whose form is checked one by one below; any other override of an engine method must be the base method itself up to Decimal constants
CHECKED_OVERRIDES = ("now", "create_starting_servers", "increment_time", "get_service_time", "inter_arrival")


def _same_modulo_decimal(fn, base):
    class N(ast.NodeTransformer):
        def visit_Call(self, n):
            self.generic_visit(n)
            if isinstance(n.func, ast.Name) and n.func.id == "Decimal" and len(n.args) == 1 and isinstance(n.args[0], ast.Constant):
                v = str(n.args[0].value).lower().strip("+")
                if v in ("inf", "infinity"):
                    return ast.Call(func=ast.Name(id="float", ctx=ast.Load()), args=[ast.Constant(value="inf")], keywords=[])
                try:
                    return ast.Constant(value=float(v))
                except ValueError:
                    return n
            if isinstance(n.func, ast.Name) and n.func.id == "float" and len(n.args) == 1 and isinstance(n.args[0], ast.Constant) and str(n.args[0].value).lower() in ("inf", "infinity"):
                return ast.Call(func=ast.Name(id="float", ctx=ast.Load()), args=[ast.Constant(value="inf")], keywords=[])
            return n
        def visit_Constant(self, n):
            return ast.Constant(value=float(n.value)) if isinstance(n.value, (int, float)) and not isinstance(n.value, bool) else n
    def body(f):
        b = [s_ for s_ in f.body if not (isinstance(s_, ast.Expr) and isinstance(s_.value, ast.Constant) and isinstance(s_.value.value, str))]
        return [ast.dump(N().visit(rules.clone(s_))) for s_ in b]
    return body(fn) == body(base) and [a.arg for a in fn.args.args] == [a.arg for a in base.args.args]


def overrides(ctx, P):
    ob = ctx.ob("OVR", "exact overrides: increment_time = Decimal(str(a)) + Decimal(str(b)); now/get_service_time/inter_arrival wrap the base value in Decimal(str(.)); call-compatible; same servers built")
    for cname, base in (("ExactNode", "Node"), ("ExactArrivalNode", "ArrivalNode")):
        ci = P.classes.get(cname)
        if ci is None:
            raise AnalysisError("%s not found" % cname)
        bv = P.view(base)
        for m, fn in ci.methods.items():
            r = bv.resolve(m)
            ob.seen("%s.%s" % (cname, m))
            if r is None:
                continue
            if m not in CHECKED_OVERRIDES and not _same_modulo_decimal(fn, r[1]):
                ctx.violation(ob, "R12.override", "%s.%s" % (cname, m), "override of %s.%s" % (r[0].name, m), "override-differs-from-base",
                              "%s re-implements %s.%s differently (beyond writing Decimal constants): the exact run then differs from the floating-point run in more than "
                              "rounding -- e.g. samples drawn in another order" % (cname, r[0].name, m), loc(fn))
            a, b = fn.args, r[1].args
            if len(a.args) != len(b.args) and not (len(a.args) - len(a.defaults) <= len(b.args) - len(b.defaults) and len(a.args) >= len(b.args)):
                ctx.violation(ob, "R12.override", "%s.%s" % (cname, m), "(%s)" % ", ".join(x.arg for x in a.args), "signature-mismatch", "override is not call-compatible with %s.%s" % (base, m), loc(fn))
            if (m in bv.table and m in P.classes[base].props) != (m in ci.props):
                ctx.violation(ob, "R12.override", "%s.%s" % (cname, m), "property", "property-mismatch", "property/method kind differs from the base", loc(fn))
        r_ = P.view(cname).resolve("increment_time")
        # the override may come from a mixin placed before the base class: what matters is that the exact view does not fall through to the float version
        fn = r_[1] if r_ is not None and r_[0].name not in P.mro(base) else None
        got = unparse([x for x in ast.walk(fn) if isinstance(x, ast.Return)][0].value).replace(" ", "") if fn else "?"
        ps = [x.arg for x in fn.args.args][1:] if fn else ["a", "b"]
        ob.ok("%s.increment_time" % cname, got)
        if got != "Decimal(str(%s))+Decimal(str(%s))" % tuple(ps):
            ctx.violation(ob, "R11.increment-time", "%s.increment_time" % cname, got, "increment-time-form", "increment_time must be Decimal(str(a)) + Decimal(str(b))", loc(fn) if fn else "")
    en = P.classes["ExactNode"]
    for m, want in (("now", "Decimal(str(self.simulation.current_time))"),):
        fn = en.methods.get(m)
        got = unparse([x for x in ast.walk(fn) if isinstance(x, ast.Return)][0].value).replace(" ", "") if fn else "?"
        ob.ok("ExactNode.%s" % m, got)
        if got != want:
            ctx.violation(ob, "R11.decimal-of-float", "ExactNode.%s" % m, got, "decimal-of-float" if "Decimal(" in got else "not-decimal", "ExactNode.%s must be %s" % (m, want), loc(fn) if fn else "")
    for cname, m, inner in (("ExactNode", "get_service_time", "self.simulation.service_times[self.id_number][ind.customer_class]._sample(self.simulation.current_time,ind=ind)"),
                            ("ExactArrivalNode", "inter_arrival", "self.simulation.inter_arrival_times[nd][clss]._sample(self.simulation.current_time)")):
        fn = P.classes[cname].methods.get(m)
        got = unparse(rules.inline_locals(fn, [x for x in ast.walk(fn) if isinstance(x, ast.Return)][0].value)).replace(" ", "") if fn else "?"
        ob.ok("%s.%s" % (cname, m), got[:60])
        alt = inner.replace("_sample(self.simulation.current_time", "_sample(t=self.simulation.current_time")
        alt2 = inner.replace("_sample(self.simulation.current_time,ind=ind)", "_sample(ind=ind,t=self.simulation.current_time)")      # keywords are listed alphabetically (normal form)
        if got not in ("Decimal(str(%s))" % inner, "Decimal(str(%s))" % alt, "Decimal(str(%s))" % alt2):
            ctx.violation(ob, "R11.decimal-of-float", "%s.%s" % (cname, m), got[:100], "sample-not-wrapped", "%s.%s must return Decimal(str(<validated sample of its own distribution>))" % (cname, m), loc(fn) if fn else "")
    # same servers as the base
    a = en.methods.get("create_starting_servers")
    b = P.classes["Node"].methods.get("create_starting_servers")

    def shape(fn):
        for x in ast.walk(fn):
            if isinstance(x, ast.ListComp) and isinstance(x.elt, ast.Call):
                return [unparse(y).replace(" ", "") for y in x.elt.args[:2]], unparse(x.generators[0].iter).replace(" ", ""), unparse(x.generators[0].target), (unparse(x.elt.args[2]) if len(x.elt.args) > 2 else "?")
        return None
    def ids(sh):
        # the identifiers handed out: `f(self, i + 1, ..) for i in range(N)` and `f(self, k, ..) for k in range(1, N + 1)` both give 1..N
        if not sh:
            return sh
        (recv, idx), it, var, start = sh
        import re as _re
        m1 = _re.fullmatch(r"range\((.+)\)", it)
        if m1 and idx in (var + "+1", "1+" + var) and "," not in m1.group(1):
            return (recv, "1..", m1.group(1))
        m2 = _re.fullmatch(r"range\(1,(.+)\)", it)
        if m2 and idx == var and (m2.group(1).endswith("+1") or m2.group(1).startswith("1+")):
            n_ = m2.group(1)[:-2] if m2.group(1).endswith("+1") else m2.group(1)[2:]
            return (recv, "1..", n_)
        return (recv, idx, it, var)
    sa, sb = shape(rules.temporaries_free(a)) if a else None, shape(rules.temporaries_free(b)) if b else None
    ob.ok("create_starting_servers", "%s vs %s" % (sa, sb))
    sa, sb = (ids(sa), sa[3]) if sa else None, (ids(sb), sb[3]) if sb else None
    if sa and sb and sa[0] == sb[0]:
        sa, sb = (sa[0], "", "", sa[1]), (sb[0], "", "", sb[1])
    if not sa or not sb or sa[:3] != sb[:3]:
        ctx.violation(ob, "R12.override", "ExactNode.create_starting_servers", str(sa), "servers-differ", "the exact override must build the same (node, id) servers over range(self.c) as Node.create_starting_servers", loc(a) if a else "")
    elif sa[3].replace('"', "'") not in ("Decimal('0.0')", "Decimal('0')"):
        ctx.violation(ob, "R11.decimal-of-float", "ExactNode.create_starting_servers", sa[3], "start-date-not-decimal", "exact servers must start at Decimal('0.0')", loc(a))


def progress_bar_numbers(ctx, P):
    """in exact mode dates are Decimal; tqdm keeps a float counter and divides by a float elapsed time, so a Decimal handed to progress_bar.update() ends in
    TypeError.  Anything computed from a date (next_event_date, current_time) must be converted with float() before it reaches the bar."""
    ob = ctx.ob("PBAR", "progress_bar.update(x): x is float(...)-converted or computed without reading a date")
    sim = P.view("Simulation")
    n = 0
    for m in sim.methods():
        cls, fn = sim.resolve(m)
        fn2 = rules.inline_locals(fn, fn)
        for x in ast.walk(fn2):
            if isinstance(x, ast.Call) and isinstance(x.func, ast.Attribute) and x.func.attr == "update" and unparse(x.func.value).endswith("progress_bar") and x.args:
                n += 1
                a = x.args[0]
                dated = [y for y in ast.walk(a) if isinstance(y, ast.Attribute) and y.attr in ("next_event_date", "current_time", "now")]
                conv = isinstance(a, ast.Call) and isinstance(a.func, ast.Name) and a.func.id in ("float", "int")
                ob.ok("%s.%s:%s" % (cls.name, m, unparse(a)[:40]), "%s.%s: update(%s)" % (cls.name, m, unparse(a)[:80]))
                if dated and not conv:
                    ctx.violation(ob, "R11.decimal-float", "%s.%s" % (cls.name, m), "progress_bar.update(%s)" % unparse(x.args[0])[:80], "decimal-reaches-progress-bar",
                                  "a value computed from a date is handed to the progress bar unconverted: in exact mode it is a Decimal and tqdm's float arithmetic raises TypeError",
                                  loc(x))
    ctx.floor("progress_bar.update calls", n, 2)


def selection(ctx, P):
    ob = ctx.ob("SEL", "Simulation(exact=k): ExactNode for every node, ExactArrivalNode, decimal precision k")
    sim = P.view("Simulation")
    cls, fn = sim.method("__init__")
    # on every path of the constructor (newly extracted helpers read through): with `exact` set, the last values of the three settings -- after set_classes
    # has put the defaults -- are the exact classes and the requested precision; without it, no exact class is selected
    TARGETS = ("self.NodeTypes", "self.ArrivalNodeType", "getcontext().prec")
    w = Walker(P, sim, keep=lambda e: e.kind == "guard" or (e.kind == "assign" and e.d["target"] in TARGETS) or (e.kind == "call" and e.d["meth"] == "set_classes"),
               track=lambda t, f: f.parent is None and "exact" in unparse(t), inline=rules.new_helper, loop_iters=(0, 1))
    okk, n_ex = True, 0
    for st in w.paths_of(cls, fn):
        if st.status == "raise":
            continue
        facts = {}
        for e in st.events:
            if e.kind == "guard":
                guards.assume(e.d["formula"], e.pol, facts)
        ex = facts.get(("truth", "exact"))
        last = {}
        for e in st.events:
            if e.kind == "call":
                last = {}
            elif e.kind == "assign":
                last[e.d["target"]] = e.d["value"].replace(" ", "")
        if ex is True:
            n_ex += 1
            nt = last.get("self.NodeTypes", "")
            N = ("network.number_of_nodes", "self.network.number_of_nodes")
            ok_nt = any(nt in ("[ExactNodefor_inrange(%s)]" % k, "[ExactNode]*%s" % k, "%s*[ExactNode]" % k) for k in N)
            if not (ok_nt and last.get("self.ArrivalNodeType") == "ExactArrivalNode" and last.get("getcontext().prec") == "exact"):
                okk = False
        elif ex is False:
            if any("Exact" in v for k, v in last.items() if k != "getcontext().prec"):
                okk = False
        else:
            okk = False
    okk = okk and n_ex > 0
    ob.ok("Simulation.__init__:exact")
    if not okk:
        ctx.violation(ob, "R12.exact-selection", "Simulation.__init__", "if exact: ...", "exact-selection", "exact mode must select ExactNode / ExactArrivalNode and set the decimal precision", loc(fn))
