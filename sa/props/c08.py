"""C08 Service order (DESIGN §4 C08): chooser scan order/filter, disciplines, starts only via the chooser, tail insertion."""
import ast

from .. import guards, rules, typestate
from ..model import AnalysisError, call_name, loc, unparse, body_stmts
from ..rules import family_views, witness, listop
from ..paths import Walker

EXPLANATION = (
    "Static analysis: choose_next_customer scans self.individuals in index order (ascending priority class), filters the customers without server and "
    "returns the node's discipline applied to the first non-empty class; FIFO / LIFO / SIRO return element 0 / -1 / a random_choice of exactly their argument; "
    "the per-class lists are arrival-ordered because the only insertion is the tail append (no insert/sort/reverse on individuals[*] anywhere); and every "
    "service start on every spliced path from every handler root takes its customer from choose_next_customer (tested not None), from the head of the "
    "interrupted queue, from the class-changing waiting customer, or -- only at infinite-server nodes -- the newcomer. The realised order of starts in a run "
    "is not observed; custom disciplines are outside the property.")
RULE = "instances = the chooser, the three disciplines, list-insertion sites and every service-start event on the spliced paths of each Node-family view"


def check(ctx):
    P = ctx.program
    iters = (0, 1)
    views = family_views(P, "Node")
    chooser(ctx, P, views)
    disciplines(ctx, P)
    insertion(ctx, P)
    start_sites(ctx, P, views, iters)
    moves(ctx, P, views, iters)
    from . import c12, c15
    c12.interrupted_sorted(ctx, P, views, iters)
    # the priority of a class is looked up under the class's own name (shared instance)
    c15.keyed_tables(ctx, P)
    priority_table(ctx, P)
    ctx.assume("built-in disciplines (FIFO/LIFO/SIRO); custom disciplines are excluded by the property")


def chooser(ctx, P, views):
    ob = ctx.ob("CHOOSE", "choose_next_customer: for q in self.individuals (index order): waiting = [i for i in q if not i.server]; first non-empty -> service_discipline(waiting, now)")
    for view in views:
        cls, fn = view.method("choose_next_customer")
        body = body_stmts(fn)
        ok, why = False, "shape not recognised"
        if body and isinstance(body[0], ast.For) and len(body) <= 2:
            lp = body[0]
            q = unparse(lp.target)
            if unparse(lp.iter) != "self.individuals":
                why = "scan is over `%s`, not over self.individuals in index order" % unparse(lp.iter)
            else:
                comp = None
                for s in body_stmts(lp):
                    if isinstance(s, ast.Assign) and isinstance(s.value, ast.ListComp):
                        comp = s
                rets = [x for x in ast.walk(lp) if isinstance(x, ast.Return)]
                if comp is None or len(rets) != 1:
                    why = "expected one filtered list and one return inside the scan"
                else:
                    g = comp.value.generators[0]
                    v = unparse(g.target)
                    w = unparse(comp.targets[0])
                    filt = [unparse(c).replace(" ", "") for c in g.ifs]
                    r = rets[0]
                    under = r._parent
                    condf = guards.norm(under.test, unparse) if isinstance(under, ast.If) and r in under.body else None
                    ok_conds = (("lt", "0", "len(%s)" % w), ("truth", w), ("not", ("eq", "0", "len(%s)" % w)), ("not", ("lt", "len(%s)" % w, "1")))
                    if unparse(g.iter) != q or unparse(comp.value.elt) != v or len(comp.value.generators) != 1:
                        why = "waiting list is not built from the scanned class in order"
                    elif filt not in (["not%s.server" % v], ["%s.serverisFalse" % v], ["%s.server==False" % v]):
                        why = "filter is %s, expected `not %s.server` (customers without server)" % (filt, v)
                    elif condf not in ok_conds:
                        why = "return is not under `len(%s) > 0`" % w
                    elif not (isinstance(r.value, ast.Call) and unparse(r.value.func) == "self.service_discipline" and r.value.args and unparse(r.value.args[0]) == w):
                        why = "does not return self.service_discipline(%s, ...)" % w
                    else:
                        ok = True
            if len(body) == 2 and not (isinstance(body[1], ast.Return) and (body[1].value is None or unparse(body[1].value) == "None")):
                ok, why = False, "unexpected statement after the scan"
        ob.ok("%s.choose_next_customer" % view.name, unparse(fn).split("\n")[-4].strip())
        if not ok:
            ctx.violation(ob, "R6.chooser", "%s.choose_next_customer" % cls.name, "priority scan", "chooser-shape", why, loc(fn))


def priority_table(ctx, P):
    """Network.priority_class_mapping / params['priority_classes'] map each class name to ITS OWN priority: built by key lookup"""
    ob = ctx.ob("PMAP", "priority tables are built as {name: source[name] ...}: every class gets the priority declared under its own name")
    n = 0
    for ci, fn in P.all_functions():
        if fn._module.name not in ("ciw.import_params", "ciw.network"):
            continue
        for x in ast.walk(fn):
            if isinstance(x, ast.Assign) and any("priority_class" in unparse(t) for t in x.targets) and isinstance(x.value, (ast.DictComp, ast.Call, ast.Dict)):
                tgt = unparse(x.targets[0])
                if not (tgt.endswith("priority_class_mapping") or tgt.endswith("['priority_classes']") or tgt.endswith('["priority_classes"]')):
                    continue
                n += 1
                v = x.value
                okk = False
                if isinstance(v, ast.DictComp) and len(v.generators) == 1 and isinstance(v.generators[0].target, ast.Name):
                    k = v.generators[0].target.id
                    subs = [y for y in ast.walk(v.value) if isinstance(y, ast.Subscript) and isinstance(y.slice, ast.Name) and y.slice.id == k]
                    okk = unparse(v.key) == k and bool(subs)
                elif isinstance(v, ast.DictComp) and len(v.generators) == 1 and isinstance(v.generators[0].target, ast.Tuple) and len(v.generators[0].target.elts) == 2 \
                        and isinstance(v.generators[0].iter, ast.Call) and isinstance(v.generators[0].iter.func, ast.Attribute) and v.generators[0].iter.func.attr == "items":
                    # {name: entry.priority_class for name, entry in classes.items()}: key and value come from the same item
                    k, e_ = [unparse(t) for t in v.generators[0].target.elts]
                    okk = unparse(v.key) == k and any(isinstance(y, ast.Name) and y.id == e_ for y in ast.walk(v.value))
                ob.ok("%s:%s" % (P.func_name(fn), tgt), "%s: %s" % (P.func_name(fn), unparse(x)[:90]))
                if not okk:
                    ctx.violation(ob, "R12.priority-table", P.func_name(fn), unparse(x)[:100], "priority-not-looked-up-by-name",
                                  "the priority table must give each class the priority stored under that class's own name ({name: source[name] for name in names})", loc(x))
    ctx.floor("priority tables built", n, 2)


def disciplines(ctx, P):
    ob = ctx.ob("DISC", "FIFO returns individuals[0], LIFO individuals[-1], SIRO random_choice(individuals)")
    want = {"FIFO": lambda p: "%s[0]" % p, "LIFO": lambda p: "%s[-1]" % p, "SIRO": lambda p: "random_choice(%s)" % p}
    for name, f in want.items():
        fn = P.functions.get(("ciw.disciplines", name))
        if fn is None:
            raise AnalysisError("discipline %s not found" % name)
        p = fn.args.args[0].arg
        rets = [x for x in ast.walk(fn) if isinstance(x, ast.Return)]
        body = body_stmts(fn)
        got = unparse(rets[0].value) if len(rets) == 1 else "?"
        ob.ok(name, "%s: return %s" % (name, got))
        if len(body) != 1 or got != f(p):
            ctx.violation(ob, "R6.discipline", name, "return %s" % got, "discipline-pick", "%s must return %s" % (name, f(p)), loc(fn))
    # the Network default / name table maps to these functions -- import_params
    return


def insertion(ctx, P):
    ob = ctx.ob("TAIL", "individuals[*] is only appended to at the tail and removed from by value: lists stay arrival-ordered")
    n = 0
    for ci, fn, node, recv, how in rules.attr_writes(P, "individuals"):
        n += 1
        ob.seen("%s:%s" % (rules.qual(ci, fn), how))
        if how in ("insert", "sort", "reverse", "extend", "assign[]", "aug[]", "aug") or (how == "assign" and "__init__" not in rules.effective_names(P, ci, fn)):
            ctx.violation(ob, "R1.tail-insertion", rules.qual(ci, fn), unparse(node), "order-changing-op",
                          "`%s` on the customer lists breaks arrival order within a priority class (FIFO/LIFO rely on it)" % how, loc(node))
    ctx.floor("operations on individuals", n, 4)
    # Node.all_individuals hands out the live list individuals[0] when there is a single priority class: re-ordering the
    # value it returns (directly or through a local alias) re-orders the queue itself
    node_family = set(P.subclasses("Node"))
    for ci, fn, node, recv, how in rules.attr_writes(P, "all_individuals"):
        if ci is None or ci.name not in node_family:
            continue
        ob.seen("%s:all_individuals.%s" % (rules.qual(ci, fn), how))
        if how in ("insert", "sort", "reverse", "extend", "assign[]", "aug[]", "aug"):
            ctx.violation(ob, "R1.tail-insertion", rules.qual(ci, fn), unparse(node), "order-changing-op-on-view",
                          "`%s` on the value of all_individuals: with one priority class that value is individuals[0] itself, so the waiting "
                          "line is re-ordered (FIFO/LIFO rely on arrival order)" % how, loc(node))


def start_sites(ctx, P, views, iters):
    ob = ctx.ob("START", "every service start takes its customer from choose_next_customer / interrupted head / class-changer, or the newcomer only at an infinite-server node")
    done = set()
    n = 0
    for view in views:
        for s in typestate.starts(P, view, iters):
            e = s["event"]
            if e.d["value"] != "self.now":
                continue            # restoring an interrupted customer's original start date is not a service start
            if e.frame.cls is not None and e.frame.cls.name == "PSNode":
                continue            # processor sharing picks first-come-first-served by position (C19)
            n += 1
            site = s["site"]
            kind, ok = typestate.classify_customer(site, s["params"])
            method = e.frame.qual
            ob.ok("%s:%s:%s" % (method, s["root"], kind), "%s from root %s: start of %s [%s]" % (method, s["root"], s["token"], kind))
            reason = None
            if kind == "NEWCOMER":
                if not guards.implies(site.pc(), ("isinf", "self.c"))[0]:
                    reason, msg = "newcomer-served-at-finite-node", "the arriving customer starts service directly although the node has finitely many servers: it must go through choose_next_customer"
            elif kind == "CHOSEN" and not ok:
                reason, msg = "chosen-customer-not-tested", "choose_next_customer() may return None"
            elif kind not in ("CHOSEN", "INTERRUPTED", "CLASSCHANGER"):
                reason, msg = "start-bypasses-chooser", "this service start does not take its customer from choose_next_customer / the interrupted queue"
            if reason and (method, reason) not in done:
                done.add((method, reason))
                ctx.violation(ob, "R13.start-provenance", method, e.text, reason, "%s [reached from %s]" % (msg, s["root"]), e.where, witness(s["state"], 16))
    ctx.floor("service start events", n, 6)


def moves(ctx, P, views, iters):
    """a customer already at the node is re-appended (moved) only when its priority class really changed; otherwise it would
    lose its place in the arrival order of its class"""
    ob = ctx.ob("MOVE", "re-queuing inside individuals[*] (remove + append of the same customer) happens only under priority_class != prev_priority_class")
    done = set()
    n = 0
    for view in views:
        for m in view.methods():
            if m == "__init__" or rules.is_private_helper(P, view, m):
                continue
            cls, fn = view.resolve(m)
            if m not in rules.ROOT_HANDLERS and not any(isinstance(x, ast.Attribute) and x.attr == "individuals" for x in ast.walk(fn)):
                continue

            def keep(e):
                if e.kind == "guard":
                    return "priority_class" in e.text
                if e.kind == "call":
                    lo = listop(e)
                    return bool(lo and lo[1] == "self" and lo[2] == "individuals")
                return False
            w = Walker(P, view, keep=keep, track=lambda t, f: "priority_class" in unparse(t), inline=lambda ev: ev.d["meth"] not in ("release_blocked_individual",), loop_iters=iters)
            for st in w.paths_of(cls, fn):
                if st.status == "raise":
                    continue
                removed, inserted = {}, {}
                for i, e in enumerate(st.events):
                    if e.kind != "call":
                        continue
                    lo = listop(e)
                    tok = lo[4][-1] if lo[4] else "?"
                    first = None
                    if lo[0] == "rem":
                        removed[tok] = i
                        if tok in inserted:
                            first = inserted.pop(tok)
                    elif lo[0] == "ins":
                        if tok in removed:
                            first = removed[tok]
                        else:
                            inserted[tok] = i
                    if first is not None:
                        n += 1
                        facts = rules.path_condition(st.events, first)
                        changed = [v for a, v in facts.items() if a[0] == "eq" and set(x.split(".")[-1] for x in a[1:]) == {"priority_class", "prev_priority_class"} and all(x.startswith(tok + ".") for x in a[1:])]
                        ob.ok("%s:%s" % (e.frame.qual, m), "%s (from %s): move of %s under %s" % (e.frame.qual, m, tok, [x.text for x in st.events[:first] if x.kind == "guard"]))
                        if (not changed or changed[0] is not False) and (e.frame.qual, m) not in done:
                            done.add((e.frame.qual, m))
                            ctx.violation(ob, "R1.tail-insertion", "%s.%s" % (cls.name, m), "move of %s within individuals" % tok.split("__")[0], "requeued-without-priority-change",
                                          "%s is removed from and re-appended to the customer lists although its priority class has not (provably) changed: it goes to the back of its own class and "
                                          "loses its arrival order [via %s]" % (tok.split("__")[0], e.frame.qual), e.where, witness(st))
    ctx.floor("re-queue (move) paths", n, 1)
