"""C17 State trackers (DESIGN §4 C17): transition <=> notification with the right arguments (R2/R4), class write <=>
notification, handler symmetry inside each tracker (sibling cross-check), interface agreement (R12),
event -> timestamp -> clock advance in both recording loops."""
import ast
import re

from .. import guards, rules
from ..model import AnalysisError, call_name, loc, unparse
from ..paths import Walker
from ..rules import family_views, listop, witness, facts_text

EXPLANATION = (
    "Static analysis of ciw/node.py, simulation.py and trackers/state_tracker.py: on every path of accept / release / renege / block_individual the "
    "population transition is mirrored by exactly one tracker notification carrying the node, destination, customer and blocked flag of that very "
    "transition (the release notification precedes the hand-over that clears is_blocked); every write of customer_class while a customer is at a node "
    "must be followed by change_state_classchange; inside each of the seven trackers the handlers are mutually inverse on the same key (accept+release "
    "= 0, accept+block+release[blocked] = 0, classchange moves one unit within a node, block keeps the node total), all trackers keep the 8-method "
    "interface call-compatible, timestamp() appends only on a state change, and both recording loops do event -> timestamp -> clock advance. By "
    "induction over events the tracked counters equal the list lengths of C01. state_probabilities arithmetic is not decided.")
EXPLANATION += (" Added later: " "NodePopulationSubset keeps one entry per observed node in the user's order (updates address observed_nodes.index(node), hash_state is the vector itself); every sojourn in state_probabilities ends at a history date or at the window's end itself.")
RULE = "instances = transition sites in node.py x paths x views, and handler paths of each tracker class; effects compared as normalised (guard, key, delta) sets"

TR = "self.simulation.statetracker"
IFACE = {"initialise": 1, "change_state_accept": 2, "change_state_block": 3, "change_state_release": 4, "change_state_renege": 4,
         "change_state_classchange": 2, "hash_state": 0, "timestamp": 0}


def check(ctx):
    P = ctx.program
    iters = (0, 1)
    views = family_views(P, "Node")
    notifications(ctx, P, views, iters)
    class_writes(ctx, P, views, iters)
    classchange_order(ctx, P, views, iters)
    interface(ctx, P)
    symmetry(ctx, P, iters)
    probabilities(ctx, P)
    loops(ctx, P, iters)
    reinitialised(ctx, P)
    subset_positions(ctx, P)
    # the `blocked` argument of the release notification is the customer's is_blocked flag: its life cycle is a shared instance (C07)
    from . import c07
    c07.blocked_flag(ctx, P, views, iters)
    ctx.assume("user-defined trackers are outside the analysed program")


def _notif(e):
    return e.kind == "call" and e.d.get("recv") == TR and e.d["meth"].startswith("change_state_")


def notifications(ctx, P, views, iters):
    ob = ctx.ob("NOTIF", "each population transition notifies the tracker exactly once on every path, with the node/destination/customer/blocked flag of that transition")
    done = set()

    def viol(cls, m, construct, reason, msg, where, st):
        if (cls.name, m, reason) in done:
            return
        done.add((cls.name, m, reason))
        ctx.violation(ob, "R2.notify", "%s.%s" % (cls.name, m), construct, reason, msg, where, witness(st))

    def keep(e):
        if _notif(e):
            return True
        if e.kind == "call":
            lo = listop(e)
            if lo and lo[1] == "self" and lo[2] == "individuals":
                return True
            if lo and lo[2] == "blocked_queue" and lo[0] == "ins":
                return True
            return e.d["meth"] == "accept" and not e.d.get("selfcall")
        if e.kind == "assign":
            return e.d["target"].endswith(".is_blocked")
        return False

    spec = {"accept": "change_state_accept", "release": "change_state_release", "renege": "change_state_renege", "block_individual": "change_state_block"}
    n = 0
    for view in views:
        for m, handler in spec.items():
            cls, fn = view.method(m)
            params = [a.arg for a in fn.args.args][1:]
            w = Walker(P, view, keep=keep, inline=lambda ev: ev.d["meth"] in ("change_priority_queue",) or rules.is_private_helper(P, view, ev.d["meth"]) and ev.d["meth"] not in
                       ("begin_service_if_possible_accept", "begin_service_if_possible_release", "release_blocked_individual", "reset_individual_attributes", "write_individual_record",
                        "write_reneging_record", "detatch_server", "decide_between_simultaneous_individuals", "next_node_for_jockeying"), loop_iters=iters)
            for st in w.paths_of(cls, fn):
                if st.status == "raise":
                    continue
                nots = [e for e in st.events if _notif(e)]
                trans = [e for e in st.events if e.kind == "call" and not _notif(e) and e.d["meth"] != "accept"]
                n += 1
                ob.ok("%s.%s:%s" % (view.name, m, ">".join(x.d["meth"] for x in st.events if x.kind == "call")),
                      "%s.%s: %s" % (view.name, m, " -> ".join(x.text[:70] for x in st.events)))
                if len(trans) != 1:
                    continue   # C01 reports unbalanced list operations
                t = trans[0]
                tok = t.d["args"][-1] if m != "block_individual" else params[0]
                mine = [x for x in nots if x.d["meth"] == handler]
                if len(nots) != 1 or len(mine) != 1:
                    viol(cls, m, "%d notification(s): %s" % (len(nots), [x.d["meth"] for x in nots]), "not-exactly-one-notification",
                         "the transition `%s` must be mirrored by exactly one %s(...) on every path" % (t.text, handler), t.where, st)
                    continue
                a = mine[0].d["args"]
                if m == "accept":
                    want = ["self", tok]
                elif m == "block_individual":
                    dest = t.d["recv"][: -len(".blocked_queue")]
                    want = ["self", dest, params[0]]
                elif m == "release":
                    acc = [x for x in st.events if x.kind == "call" and x.d["meth"] == "accept"]
                    dest = acc[0].d["recv"] if acc else (params[1] if len(params) > 1 else "?")
                    want = ["self", dest, tok, tok + ".is_blocked"]
                    if acc and st.events.index(acc[0]) < st.events.index(mine[0]):
                        viol(cls, m, mine[0].text, "notified-after-handover", "change_state_release reads ind.is_blocked, which accept() of the next node clears: notify before the hand-over", mine[0].where, st)
                    clr = [x for x in st.events if x.kind == "assign" and x.d["target"] == tok + ".is_blocked" and st.events.index(x) < st.events.index(mine[0])]
                    if clr:
                        viol(cls, m, clr[0].text, "blocked-flag-clobbered-before-notification", "is_blocked is rewritten before the tracker is told its value", clr[0].where, st)
                else:
                    acc = [x for x in st.events if x.kind == "call" and x.d["meth"] == "accept"]
                    dest = acc[0].d["recv"] if acc else "?"
                    want = ["self", dest, tok, "False"]
                if a != want:
                    viol(cls, m, mine[0].text, "wrong-arguments", "%s is called with (%s); the transition on this path is (%s)" % (handler, ", ".join(a), ", ".join(want)), mine[0].where, st)
    ctx.floor("transition paths", n, 8)
    # nobody else calls the tracker's transition handlers
    for h in spec.values():
        for ci, fn, call in rules.calls_named(P, h):
            if ci is not None and ci.name in P.subclasses("StateTracker"):
                continue
            ob.seen("site:%s:%s" % (rules.qual(ci, fn), h))
            if not any(spec.get(nm) == h for nm in rules.effective_names(P, ci, fn)):
                ctx.violation(ob, "R2.notify", rules.qual(ci, fn), unparse(call), "notification-without-transition",
                              "%s called from a method that performs no such transition" % h, loc(call))


def class_writes(ctx, P, views, iters):
    ob = ctx.ob("CLSW", "every write of customer_class while the customer is at a node is followed by change_state_classchange(self, customer) on the same path")
    done = set()
    n = 0
    for view in views:
        roots, todo = set(), [m for m in view.methods() if m != "__init__" and any(
            isinstance(x, ast.Assign) and isinstance(x.targets[0], ast.Attribute) and x.targets[0].attr == "customer_class" for x in ast.walk(view.resolve(m)[1]))]
        for m in sorted(todo):
            cls, fn = view.resolve(m)

            def keep(e):
                if e.kind == "assign" and not e.d.get("local"):
                    return e.d["target"].endswith(".customer_class")
                return _notif(e) and e.d["meth"] == "change_state_classchange"
            w = Walker(P, view, keep=keep, track=lambda t, f: False, loop_iters=iters)
            for st in w.paths_of(cls, fn):
                if st.status == "raise":
                    continue
                pend = None
                for e in st.events:
                    if e.kind == "assign":
                        pend = e
                        n += 1
                    elif pend is not None and e.d["args"][:2] == ["self", pend.d["target"][: -len(".customer_class")]]:
                        pend = None
                if st.events:
                    ob.ok("%s.%s:%s" % (cls.name, m, len(st.events)), "%s.%s: %s" % (view.name, m, " -> ".join(x.text[:60] for x in st.events)))
                if pend is not None and (cls.name, m) not in done:
                    done.add((cls.name, m))
                    ctx.violation(ob, "R2.class-notify", "%s.%s" % (cls.name, m), pend.text.split("(")[0], "class-write-not-notified",
                                  "customer_class is rewritten while the customer is counted at this node, but the tracker is not told: class-keyed trackers then "
                                  "decrement a different key at release than they incremented at accept", pend.where, witness(st))
    ctx.floor("customer_class writes in node methods", n, 2)


def classchange_order(ctx, P, views, iters):
    ob = ctx.ob("CCORD", "change_state_classchange(self, ind) is called after customer_class is rewritten and before previous_class is overwritten (the handlers read both); next_class is re-armed only after previous_class was taken from it")
    for view in views:
        cls, fn = view.method("change_customer_class_while_waiting")

        # self-methods that rewrite next_class (the class the customer will change to NEXT): previous_class = next_class must be
        # taken before any of them runs, or it records a class the customer has not reached yet
        rewriters = set()
        for mm in view.methods():
            try:
                body = view.resolve(mm)[1]
            except Exception:
                continue
            if mm != "change_customer_class_while_waiting" and any(
                    isinstance(x, (ast.Assign, ast.AugAssign)) and any(isinstance(t, ast.Attribute) and t.attr == "next_class" for t in (
                        x.targets if isinstance(x, ast.Assign) else [x.target])) for x in ast.walk(body)):
                rewriters.add(mm)

        def keep(e):
            if e.kind == "assign" and not e.d.get("local"):
                return e.d["target"].endswith(".customer_class") or e.d["target"].endswith(".previous_class") or e.d["target"].endswith(".next_class")
            if e.kind == "call" and e.d.get("recv") == "self" and e.d["meth"] in rewriters:
                return True
            return _notif(e) and e.d["meth"] == "change_state_classchange"
        w = Walker(P, view, keep=keep, inline=rules.new_helper, loop_iters=iters)
        for st in w.paths_of(cls, fn):
            if st.status == "raise":
                continue
            seq = [("N" if _notif(x) else "X") if x.kind == "call" else ("C" if x.d["target"].endswith(".customer_class") else (
                "P" if x.d["target"].endswith(".previous_class") else "X")) for x in st.events]
            while seq and seq[-1] == "X":    # re-arming the next change after the bookkeeping is the intended order
                seq.pop()
            ob.ok("%s:%s" % (view.name, "".join(seq)), "%s.change_customer_class_while_waiting: %s" % (view.name, " -> ".join(x.text[:50] for x in st.events)))
            if seq != ["C", "N", "P"]:
                ctx.violation(ob, "R4.must-precede", "%s.change_customer_class_while_waiting" % cls.name, "".join(seq), "classchange-notification-order",
                              "the tracker must be told after the class is rewritten and before previous_class is overwritten: it moves a unit from the key of previous_class to the key of customer_class", loc(fn), witness(st))
                break


def interface(ctx, P):
    ob = ctx.ob("IFACE", "all tracker classes resolve the 8 interface methods with call-compatible signatures")
    classes = P.subclasses("StateTracker")
    ctx.floor("tracker classes", len(classes), 7)
    for c in classes:
        v = P.view(c)
        for m, nargs in IFACE.items():
            r = v.resolve(m)
            ob.seen("%s.%s" % (c, m))
            if r is None:
                ctx.violation(ob, "R12.interface", c, m, "missing-handler", "tracker %s has no %s" % (c, m), loc(P.classes[c].node))
                continue
            a = r[1].args
            npos = len(a.args) - 1
            nreq = npos - len(a.defaults)
            if not (nreq <= nargs <= npos or a.vararg):
                ctx.violation(ob, "R12.interface", "%s.%s" % (r[0].name, m), "(%s)" % ", ".join(x.arg for x in a.args), "signature-mismatch",
                              "the node calls %s with %d argument(s)" % (m, nargs), loc(r[1]))


def _subst_locals(text, defs):
    for _ in range(4):
        new = text
        for k, v in defs.items():
            new = re.sub(r"(?<![\w.])%s(?![\w])" % re.escape(k), "(" + v + ")", new)
        if new == text:
            break
        text = new
    return text


def _effects(P, view, m, lits, iters):
    """-> set of (guards, ((key, delta), ...)) over the paths of handler m; None if unresolved"""
    r = view.resolve(m)
    if r is None:
        return None
    cls, fn = r

    def keep(e):
        if e.kind in ("aug", "guard"):
            return True
        if e.kind == "assign":
            return True
        return e.kind == "call" and listop(e) is not None
    w = Walker(P, view, keep=keep, track=lambda t, f: True, literal_args=lits, loop_iters=(0, 1))
    out = set()
    for st in w.paths_of(cls, fn):
        if st.status == "raise":
            continue
        defs, eff, gs, other = {}, {}, [], []
        skip = False
        for e in st.events:
            if e.kind == "assign" and e.d.get("local"):
                defs[e.d["target"]] = e.d["value"]
            elif e.kind == "assign":
                other.append(_subst_locals(e.text, defs))
            elif e.kind == "guard":
                if e.frame.depth > 0 and e.frame.func.name == "adjust_positions":
                    continue
                gs.append((_subst_locals(guards.show(e.d["formula"]), defs), e.pol))
            elif e.kind == "aug":
                if e.frame.func.name == "adjust_positions":
                    continue     # renumbering of the remaining ranks (MatrixBlocking): arithmetic, not decided
                k = _subst_locals(e.d["target"], defs)
                try:
                    d = int(e.d["value"]) * (1 if e.d["op"] == "Add" else -1 if e.d["op"] == "Sub" else 1000)
                except ValueError:
                    d = 1000
                eff[k] = eff.get(k, 0) + d
            elif e.kind == "call":
                lo = listop(e)
                k = "len(" + _subst_locals(e.d["recv"], defs) + ")"
                eff[k] = eff.get(k, 0) + (1 if lo[0] == "ins" else -1 if lo[0] == "rem" else 1000)
        out.add((tuple(gs), tuple(sorted((k, d) for k, d in eff.items() if d != 0)), tuple(other)))
    return out


def _combine(*effsets):
    """all ways to pick one path per handler with identical guard sets -> list of net effect dicts"""
    res = [((), {})]
    for es in effsets:
        nxt = []
        for gs0, acc in res:
            for gs, eff, other in es:
                # guards about the `blocked` literal are resolved already; remaining guards must be compatible
                g0 = dict(gs0)
                okk = all(g0.get(t, p) == p for t, p in gs)
                if not okk:
                    continue
                acc2 = dict(acc)
                for k, d in eff:
                    acc2[k] = acc2.get(k, 0) + d
                g0.update(dict(gs))
                nxt.append((tuple(sorted(g0.items())), acc2))
        res = nxt
    return res


def reinitialised(ctx, P):
    """a tracker object may be handed to several simulations: everything its handlers update must be set afresh by initialise()"""
    ob = ctx.ob("TINIT", "every attribute a tracker's handlers write is (re)assigned in its initialise()")
    for c in P.subclasses("StateTracker"):
        v = P.view(c)
        r = v.resolve("initialise")
        if r is None:
            continue
        init_attrs = set()
        for c2 in v.mro:          # an override may extend the inherited initialise() through super()
            f2 = P.classes[c2].methods.get("initialise") if c2 in P.classes else None
            if f2 is not None:
                init_attrs |= {t.attr for x in rules.walk(P, v, f2) if isinstance(x, ast.Assign) for t in x.targets if isinstance(t, ast.Attribute) and unparse(t.value) == "self"}
                if not any(isinstance(y, ast.Call) and isinstance(y.func, ast.Attribute) and y.func.attr == "initialise" and "super" in unparse(y.func.value) for y in ast.walk(f2)):
                    break
        for m in v.methods():
            if not (m.startswith("change_state_") or m in ("timestamp", "find_blocked_position_and_pop", "adjust_positions")) and m in rules.ANCHOR_METHODS:
                continue
            if m in ("initialise", "__init__"):
                continue
            cls, fn = v.resolve(m)
            for x in ast.walk(fn):
                attr = None
                if isinstance(x, (ast.Assign, ast.AugAssign)):
                    for t in (x.targets if isinstance(x, ast.Assign) else [x.target]):
                        b = t
                        while isinstance(b, ast.Subscript):
                            b = b.value
                        if isinstance(b, ast.Attribute) and unparse(b.value) == "self":
                            attr = b.attr
                elif isinstance(x, ast.Call) and isinstance(x.func, ast.Attribute) and x.func.attr in ("append", "pop", "remove", "insert", "extend", "clear", "sort"):
                    b = x.func.value
                    while isinstance(b, ast.Subscript):
                        b = b.value
                    if isinstance(b, ast.Attribute) and unparse(b.value) == "self":
                        attr = b.attr
                if attr is None:
                    continue
                ob.ok("%s.%s:%s" % (c, m, attr), "%s.%s writes self.%s" % (c, m, attr))
                if attr not in init_attrs:
                    ctx.violation(ob, "R9.init", "%s.%s" % (cls.name, m), "self.%s" % attr, "tracker-state-not-reset",
                                  "self.%s is updated by the tracker's handlers but initialise() of %s does not set it: a tracker object used by a second simulation "
                                  "starts from the state the first one left" % (attr, c), loc(x))


def symmetry(ctx, P, iters):
    ob = ctx.ob("SYM", "per tracker: accept+release[not blocked]=0, accept+block+release[blocked]=0 on every key, block keeps the node total, classchange moves one unit within a node, renege == release")
    classes = P.subclasses("StateTracker")
    for c in classes:
        v = P.view(c)
        acc = _effects(P, v, "change_state_accept", {}, iters)
        blk = _effects(P, v, "change_state_block", {}, iters)
        rel_f = _effects(P, v, "change_state_release", {"blocked": "False"}, iters)
        rel_t = _effects(P, v, "change_state_release", {"blocked": "True"}, iters)
        ren_f = _effects(P, v, "change_state_renege", {"blocked": "False"}, iters)
        cch = _effects(P, v, "change_state_classchange", {}, iters)
        if None in (acc, blk, rel_f, rel_t, ren_f, cch):
            continue
        for name, combo in (("accept+release[blocked=False]", (acc, rel_f)), ("accept+block+release[blocked=True]", (acc, blk, rel_t)),
                            ("accept+renege[blocked=False]", (acc, ren_f))):
            nets = _combine(*combo)
            ob.ok("%s:%s" % (c, name), "%s: %s -> net %s" % (c, name, [dict((k, d) for k, d in n.items() if d) for g, n in nets][:2]))
            if not nets:
                ctx.violation(ob, "R2.tracker-symmetry", c, name, "guards-disagree", "the handlers of %s act under different conditions, so they cannot cancel" % c, loc(P.classes[c].node))
            for gs, net in nets:
                bad = {k: d for k, d in net.items() if d != 0}
                if bad:
                    ctx.violation(ob, "R2.tracker-symmetry", c, "%s: %s" % (name, sorted(bad.items())), "handlers-not-inverse",
                                  "%s: after %s the tracked state is not back where it was: %s" % (c, name, bad), loc(P.classes[c].node))
                    break
        # block keeps the node total: numeric deltas on self.state[...] sum to 0 (a rank append + counter bump is the MatrixBlocking form)
        for gs, eff, other in blk:
            num = [d for k, d in eff if not k.startswith("len(") and k.startswith("self.state")]
            ob.ok("%s:block-total" % c)
            if sum(num) != 0:
                ctx.violation(ob, "R2.tracker-symmetry", c, "change_state_block: %s" % (eff,), "block-changes-total", "blocking must not change how many customers the tracker sees at the node", loc(P.classes[c].node))
        for gs, eff, other in cch:
            num = [(k, d) for k, d in eff]
            ob.ok("%s:classchange" % c)
            if sum(d for k, d in num) != 0 or len(set(k.rsplit("[", 1)[0] for k, d in num)) > 1:
                ctx.violation(ob, "R2.tracker-symmetry", c, "change_state_classchange: %s" % (eff,), "classchange-not-a-move",
                              "a class change must move exactly one unit between two class keys of the same node", loc(P.classes[c].node))
            elif num:
                # the unit leaves the key accept() counted it under (evaluated at the class held until now: previous_class) and joins the key of the new class
                acc_keys = [k for g2, e2, o2 in acc for k, d in e2 if d == 1]
                want = {}
                for k in acc_keys:
                    if "customer_class" in k:
                        want[k] = want.get(k, 0) + 1
                        kk = k.replace(".customer_class", ".previous_class")
                        want[kk] = want.get(kk, 0) - 1
                if want and dict(num) != want:
                    ctx.violation(ob, "R2.tracker-symmetry", c, "change_state_classchange: %s" % (sorted(num),), "classchange-wrong-keys",
                                  "a class change while waiting must decrement the key accept() used, taken at the class held so far (previous_class), and increment it at the new class; "
                                  "expected %s" % sorted(want.items()), loc(P.classes[c].node))
    # timestamp: append [clock, state] only when the hashed state changed
    ob2 = ctx.ob("TS", "timestamp() appends [current_time, state] iff the hashed state differs from the last history entry")
    for c in classes:
        v = P.view(c)
        cls, fn = v.method("timestamp")
        w = Walker(P, v, keep=lambda e: e.kind == "guard" or (e.kind == "call" and e.d["meth"] == "append") or (e.kind == "assign" and e.d.get("local")),
                   track=lambda t, f: True, inline=rules.new_helper)
        okk = False
        for st in w.paths_of(cls, fn):
            apps = [e for e in st.events if e.kind == "call"]
            gs = [e for e in st.events if e.kind == "guard"]
            defs = {e.d["target"]: e.d["value"] for e in st.events if e.kind == "assign"}
            if apps:
                a = apps[0]
                f = gs[0].d["formula"] if gs else None
                ops = [_subst_locals(x, defs).replace("(", "").replace(")", "") for x in f[1][1:]] if f and f[0] == "not" and f[1][0] == "eq" else []
                cond = bool(gs) and gs[0].pol and sorted(ops) == ["self.hash_state", "self.history[-1][1]"]
                arg = _subst_locals(a.d["args"][0], defs).replace(" ", "").replace("(", "").replace(")", "") if a.d["args"] else ""
                okk = cond and a.d["recv"] == "self.history" and arg == "[self.simulation.current_time,self.hash_state]"
                if not okk:
                    ctx.violation(ob2, "R5.timestamp", "%s.timestamp" % cls.name, a.text, "timestamp-shape",
                                  "history must gain [clock, state] exactly when the state changed (each change once, with the clock of the event)", a.where, witness(st))
                    okk = True
        ob2.ok("%s.timestamp" % c)
        if not okk:
            ctx.unrecognised("TS: no history.append in %s.timestamp" % c)


def _expand(view, fn, node, depth=0):
    """the expression(s) `node` (an expression of fn) stands for, as texts without blanks: pure temporaries are read through, a local assigned once from a call
    is that call, and a call of a newly extracted helper is each of its returned expressions (`return None` arms left out) with the parameters spelled as
    the arguments"""
    import re as _re
    e = rules.inline_locals(fn, node)
    if isinstance(e, ast.Name):
        ds = [y for y in ast.walk(fn) if isinstance(y, ast.Assign) and any(isinstance(t, ast.Name) and t.id == e.id for t in y.targets)]
        if len(ds) == 1 and len(ds[0].targets) == 1:
            e = rules.inline_locals(fn, ds[0].value)
    if depth < 4 and isinstance(e, ast.Call) and isinstance(e.func, ast.Attribute) and unparse(e.func.value) == "self" and e.func.attr not in rules.ANCHOR_METHODS \
            and not e.keywords and view.resolve(e.func.attr) is not None and not view.is_property(e.func.attr):
        h = view.resolve(e.func.attr)[1]
        ps = [a.arg for a in h.args.args][1:]
        if len(ps) == len(e.args):
            out = []
            for r_ in [x for x in ast.walk(h) if isinstance(x, ast.Return)]:
                if r_.value is None or (isinstance(r_.value, ast.Constant) and r_.value.value is None):
                    continue
                for t in _expand(view, h, r_.value, depth + 1):
                    for p_, a_ in zip(ps, e.args):
                        t = _re.sub(r"(?<![\w.])%s(?![\w])" % _re.escape(p_), lambda m_: unparse(a_).replace(" ", ""), t)
                    out.append(t)
            if out:
                return out
    return [unparse(e).replace(" ", "")]


def subset_positions(ctx, P):
    """NodePopulationSubset reports the populations of the observed nodes in the order the user listed them: entry i of the state belongs to observed_nodes[i].
    That is so when the vector has one entry per listed node, every update addresses the entry at the node's position in the list, and the hashed state is
    the vector itself."""
    ob = ctx.ob("SUBPOS", "NodePopulationSubset: state has one entry per observed node, updates address observed_nodes.index(node), hash_state is the vector unchanged")
    from ..model import enclosing_def
    ci = P.classes.get("NodePopulationSubset")
    if ci is None:
        ctx.unrecognised("SUBPOS: NodePopulationSubset not found")
        return
    view = P.view("NodePopulationSubset")
    n = 0
    def bad(where, construct, reason, msg, node):
        ctx.violation(ob, "R5.state-position", "NodePopulationSubset.%s" % where, construct, reason, msg, loc(node))
    # (a) shape of the vector
    cls, fn = view.method("initialise")
    inits = [x for x in rules.walk(P, view, fn) if isinstance(x, ast.Assign) and any(unparse(t) == "self.state" for t in x.targets)]
    for x in inits:
        n += 1
        import re as _re
        texts = _expand(view, enclosing_def(x) or fn, x.value)
        okk = bool(texts) and all(_re.fullmatch(r"\[0for\w+inself\.observed_nodes\]", t) or t in ("[0]*len(self.observed_nodes)", "len(self.observed_nodes)*[0]") for t in texts)
        ob.ok("initialise", unparse(x)[:80])
        if not okk:
            bad("initialise", unparse(x)[:80], "vector-shape", "the state must start as one zero per observed node, in the order of observed_nodes", x)
    if not inits:
        ctx.unrecognised("SUBPOS: NodePopulationSubset.initialise does not assign self.state")
    # (b) updates
    for m in ("change_state_accept", "change_state_release", "change_state_block", "change_state_renege", "change_state_classchange"):
        r = view.resolve(m)
        if r is None or r[0].name != "NodePopulationSubset":
            continue
        for x in rules.walk(P, view, r[1]):
            tg = x.target if isinstance(x, ast.AugAssign) else (x.targets[0] if isinstance(x, ast.Assign) else None)
            if isinstance(tg, ast.Subscript) and unparse(tg.value) == "self.state":
                n += 1
                f_ = enclosing_def(x) or r[1]
                import re as _re
                texts = _expand(view, f_, tg.slice)
                idx = " / ".join(texts)
                ob.ok("%s:%s" % (m, idx))
                if not texts or not all(_re.fullmatch(r"self\.observed_nodes\.index\(\(?\w+\.id_number-1\)?\)", t) for t in texts):
                    bad(m, unparse(x)[:80], "update-position", "the entry updated for a node must be the one at that node's position in observed_nodes (found index `%s`)" % idx, x)
    # (c) the reported state
    cls, fn = view.method("hash_state")
    rets = [x for x in ast.walk(fn) if isinstance(x, ast.Return)]
    got = unparse(rules.inline_locals(fn, rets[0].value)).replace(" ", "") if len(rets) == 1 and rets[0].value is not None else "?"
    ob.ok("hash_state", got)
    n += 1
    if got != "tuple(self.state)":
        bad("hash_state", got[:80], "reported-state", "hash_state must report the vector as it is (entry i = observed_nodes[i]); a filter or re-ordering changes which node an entry belongs to", fn)
    ctx.floor("NodePopulationSubset state sites", n, 4)


def probabilities(ctx, P):
    ob = ctx.ob("PROB", "state_probabilities divides every accumulated duration by the sum of all accumulated durations (shares sum to 1 by construction)")
    view = P.view("StateTracker")
    cls, fn = view.method("state_probabilities")
    rets = [x for x in ast.walk(fn) if isinstance(x, ast.Return) and x.value is not None]
    for _ in range(3):
        # the normalisation may live in a newly extracted helper whose result is returned
        v_ = rets[-1].value if rets else None
        if (isinstance(v_, ast.Call) and isinstance(v_.func, ast.Attribute) and unparse(v_.func.value) == "self" and v_.func.attr not in rules.ANCHOR_METHODS
                and view.resolve(v_.func.attr) is not None):
            fn = view.resolve(v_.func.attr)[1]
            rets = [x for x in ast.walk(fn) if isinstance(x, ast.Return) and x.value is not None]
        else:
            break
    dname = unparse(rets[-1].value) if rets else "?"
    tot = [x for x in ast.walk(fn) if isinstance(x, ast.Assign) and isinstance(x.targets[0], ast.Name) and unparse(x.value).replace(" ", "") == "sum(%s.values())" % dname]
    tot_all = [x for x in ast.walk(fn) if isinstance(x, ast.Assign) and tot and unparse(x.targets[0]) == unparse(tot[0].targets[0])]
    okk = len(tot) == 1 and len(tot_all) == 1 and not any(isinstance(p_, (ast.If, ast.For, ast.While)) for p_ in _anc(tot[0], fn))
    div = False
    if okk:
        tn = unparse(tot[0].targets[0])
        for lp in [x for x in ast.walk(fn) if isinstance(x, ast.For) and unparse(x.iter) in (dname, dname + ".keys()")]:
            v = unparse(lp.target)
            for x in ast.walk(lp):
                if isinstance(x, ast.AugAssign) and isinstance(x.op, ast.Div) and unparse(x.target) == "%s[%s]" % (dname, v) and unparse(x.value) == tn:
                    div = True
                if isinstance(x, ast.Assign) and unparse(x.targets[0]) == "%s[%s]" % (dname, v) and unparse(x.value).replace(" ", "") == "%s[%s]/%s" % (dname, v, tn):
                    div = True
    if not (okk and div) and rets:
        # the same normalisation as a new dictionary: {k: v / tot for k, v in D.items()} (or {k: D[k] / tot for k in D}) with tot = sum(D.values())
        rv = rets[-1].value
        if isinstance(rv, ast.Name):
            ds = [x for x in ast.walk(fn) if isinstance(x, ast.Assign) and unparse(x.targets[0]) == rv.id]
            rv = ds[0].value if len(ds) == 1 else rv
        if isinstance(rv, ast.DictComp) and len(rv.generators) == 1 and not rv.generators[0].ifs and isinstance(rv.value, ast.BinOp) and isinstance(rv.value.op, ast.Div) and isinstance(rv.value.right, ast.Name):
            g = rv.generators[0]
            tn = rv.value.right.id
            src = None
            if isinstance(g.iter, ast.Call) and isinstance(g.iter.func, ast.Attribute) and g.iter.func.attr == "items" and isinstance(g.target, ast.Tuple) and len(g.target.elts) == 2:
                k_, v_ = [unparse(t) for t in g.target.elts]
                if unparse(rv.key) == k_ and unparse(rv.value.left) == v_:
                    src = unparse(g.iter.func.value)
            elif isinstance(g.target, ast.Name) and unparse(rv.key) == g.target.id and unparse(rv.value.left) == "%s[%s]" % (unparse(g.iter), g.target.id):
                src = unparse(g.iter)
            tots = [x for x in ast.walk(fn) if isinstance(x, ast.Assign) and unparse(x.targets[0]) == tn]
            if src is not None and len(tots) == 1 and unparse(tots[0].value).replace(" ", "") == "sum(%s.values())" % src \
                    and not any(isinstance(p_, (ast.If, ast.For, ast.While)) for p_ in _anc(tots[0], fn)):
                okk = div = True
                dname = src
    ob.ok("StateTracker.state_probabilities", "tot = sum(%s.values()); each entry /= tot" % dname)
    if not (okk and div):
        ctx.violation(ob, "R5.probability-normalisation", "StateTracker.state_probabilities", "normalisation of %s" % dname, "not-normalised-by-total",
                      "the probabilities must be each state's accumulated time divided by the total accumulated time, unconditionally (otherwise they need not sum to 1)", loc(fn))
    # the window: sojourns are measured with increment_time(<right end>, -<left end>); the right end is either the date of a history entry or, for the
    # closing sojourn of a finite window, the window's end itself -- the last recorded state persists until then
    cls0, fn0 = view.method("state_probabilities")
    params = [a.arg for a in fn0.args.args]
    win = params[1] if len(params) > 1 else "observation_period"
    firsts = []
    # what a name of the method (or of a closure nested in it) stands for: the window's end (`end = period[1]`, `start, end = period`) or the date of a history
    # entry (`for event in self.history: date = event[0]`, `for date, state in self.history`)
    binds = {}
    for y in rules.walk(P, view, fn0):
        # parameters of a newly extracted helper stand for the arguments it is called with
        if isinstance(y, ast.Call) and isinstance(y.func, ast.Attribute) and unparse(y.func.value) == "self" and y.func.attr not in rules.ANCHOR_METHODS \
                and view.resolve(y.func.attr) is not None and not y.keywords:
            hp = [a.arg for a in view.resolve(y.func.attr)[1].args.args][1:]
            if len(hp) == len(y.args):
                for p_, a_ in zip(hp, y.args):
                    if unparse(a_) != p_:
                        binds.setdefault(p_, []).append(unparse(a_).replace(" ", ""))
        if isinstance(y, ast.Assign) and len(y.targets) == 1:
            t = y.targets[0]
            if isinstance(t, ast.Name):
                binds.setdefault(t.id, []).append(unparse(y.value).replace(" ", ""))
            elif isinstance(t, (ast.Tuple, ast.List)) and all(isinstance(e_, ast.Name) for e_ in t.elts):
                for i_, e_ in enumerate(t.elts):
                    if isinstance(y.value, (ast.Tuple, ast.List)) and len(y.value.elts) == len(t.elts):
                        binds.setdefault(e_.id, []).append(unparse(y.value.elts[i_]).replace(" ", ""))
                    else:
                        binds.setdefault(e_.id, []).append("%s[%d]" % (unparse(y.value).replace(" ", ""), i_))
        if isinstance(y, (ast.For, ast.comprehension)) and "history" in unparse(y.iter):
            t = y.target
            if isinstance(t, ast.Name):
                binds.setdefault(t.id, []).append("<entry>")
            elif isinstance(t, (ast.Tuple, ast.List)) and t.elts and isinstance(t.elts[0], ast.Name):
                binds.setdefault(t.elts[0].id, []).append("<entry>[0]")
    def stands_for(txt, depth=0):
        import re as _re
        # (a date re-bound inside the loop -- prev_date = date -- has several bindings and stays as it is)
        for _ in range(4):
            new = _re.sub(r"(?<![\w.])([A-Za-z_]\w*)(?![\w(])", lambda m_: binds[m_.group(1)][0] if len(set(binds.get(m_.group(1), []))) == 1 else m_.group(1), txt)
            if new == txt:
                break
            txt = new
        return txt
    for x in rules.walk(P, view, fn0):
        if isinstance(x, ast.Call) and call_name(x) == "increment_time" and len(x.args) == 2:
            firsts.append((stands_for(unparse(x.args[0]).replace(" ", "")), x))
    entry_dates = {"<entry>[0]"}
    ob.ok("window-ends", "sojourn right ends: %s" % sorted(set(f for f, _ in firsts)))
    closing = [f for f, _ in firsts if f == "%s[1]" % win]
    if firsts and not closing:
        ctx.violation(ob, "R5.window", "StateTracker.state_probabilities", "; ".join(sorted(set(f for f, _ in firsts))), "closing-sojourn-not-to-window-end",
                      "for a finite window the last state's sojourn must run to the window's end (%s[1]); it is measured to something else, so that state's share is cut short "
                      "and every other share is inflated by the renormalisation" % win, loc(fn0))
    for f, x in firsts:
        if f != "%s[1]" % win and f not in entry_dates:
            ctx.violation(ob, "R5.window", "StateTracker.state_probabilities", f, "sojourn-end",
                          "a sojourn must end at the date of a history entry or at the window's end; found `%s`" % f, loc(x))
    for c in P.subclasses("StateTracker")[1:]:
        if "state_probabilities" in P.classes[c].methods:
            ctx.violation(ob, "R5.probability-normalisation", c, "state_probabilities override", "override", "a tracker overrides the shared probability computation", loc(P.classes[c].node))


def _anc(n, stop):
    p_ = getattr(n, "_parent", None)
    while p_ is not None and p_ is not stop:
        yield p_
        p_ = getattr(p_, "_parent", None)


def loops(ctx, P, iters):
    ob = ctx.ob("LOOP", "recording loops: event, then statetracker.timestamp(), then the clock assignment, once each per iteration")
    sim = P.view("Simulation")
    for m in ("simulate_until_max_time", "simulate_until_max_customers"):
        cls, fn = sim.method(m)

        def keep(e):
            if e.kind == "call":
                return e.d["meth"] in ("event_and_return_nextnode", "timestamp")
            if e.kind == "assign":
                return e.d["target"] == "self.current_time"
            return e.kind in ("iter", "loopexit") and isinstance(e.node, ast.While)
        w = Walker(P, sim, keep=keep, inline=rules.new_helper, loop_iters=iters)
        seen_iter = False
        for st in w.paths_of(cls, fn):
            if st.status == "raise":
                continue
            cur = None
            for e in st.events:
                if e.kind == "iter":
                    cur = []
                elif e.kind == "loopexit" or (cur is not None and e.kind == "iter"):
                    cur = None
                elif cur is not None:
                    cur.append(e)
                    tags = ["E" if x.kind == "call" and x.d["meth"] == "event_and_return_nextnode" else "T" if x.kind == "call" else "C" for x in cur]
                    if tags == ["E", "T", "C"]:
                        seen_iter = True
                        ob.ok("%s:ETC" % m, "%s: %s" % (m, " -> ".join(x.text for x in cur)))
                    elif len(tags) >= 3 or tags not in (["E"], ["E", "T"]):
                        ctx.violation(ob, "R4.timestamp-order", "Simulation.%s" % m, " -> ".join(tags), "event-timestamp-clock-order",
                                      "each iteration must run the event, then timestamp() (with the clock of that event), then advance the clock", e.where, witness(st))
                        cur = None
        if not seen_iter:
            ctx.unrecognised("LOOP: no event->timestamp->clock iteration recognised in %s" % m)
