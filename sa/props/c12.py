"""C12 Server schedules and slotted services -- structural clauses (DESIGN §4 C12).  The cyclic timetable arithmetic of
Schedule.get_schedule_generator is NOT decided."""
import ast

from .. import guards, rules, typestate
from ..model import AnalysisError, call_name, loc, unparse
from ..paths import Walker
from ..rules import Pairing, check_pairing, family_views, listop, witness, facts_text

EXPLANATION = (
    "Static analysis of change_shift / take_servers_off_duty / slotted_service / the dispatch routines over all Node-family views: the shift generator is "
    "advanced exactly once per shift event and before schedule.c / next_shift_change_date are read (dependence-derived order); old servers are retired before "
    "new ones are added before dispatch; non-pre-emptively busy servers are only marked off duty, pre-emptively every busy server's customer is interrupted and "
    "all servers are killed; dispatch routines restart interrupted customers before fresh ones; a service start without an attached Server object exists only at "
    "infinite-server nodes, in the slot event and in the processor-sharing overrides -- so at a scheduled node no service starts while self.servers is empty and at "
    "a slotted node services start only in the slot event; the number started per slot is min(slot_size, waiting) / min(max(slot_size - in_service, 0), ...) with "
    "exactly one generator advance per slot; interrupt_service is applied only to customers in service; the `interrupted` flag, the interrupted list and its counter "
    "move together at every set/clear site; produced event types, decide_next_event's list and have_event's branches agree. The timetable arithmetic (cycle, offset) "
    "of get_schedule_generator is numerical and not decided.")
RULE = "instances = the shift/slot handlers' paths, service-start events on spliced paths, flag/list/counter sites and the three event-type tables"


def check(ctx):
    P = ctx.program
    iters = (0, 1)
    views = family_views(P, "Node")
    shift(ctx, P, views, iters)
    off_duty(ctx, P, views, iters)
    interrupted_first(ctx, P, views, iters)
    starts_need_server(ctx, P, views, iters)
    slots(ctx, P, views, iters)
    interrupted_flag(ctx, P, views, iters)
    event_tables(ctx, P, views)
    schedule_objects(ctx, P)
    # a server handed on by a departing customer may have gone home with its shift: it is used again only if still in self.servers (shared instance, C04;
    # the pre-emption site is C04/C11's finding K-02 and is not repeated here)
    from . import c04
    c04.attach_detach(ctx, P, views, iters, skip=("preempt",))
    timetable(ctx, P)
    # "at most the slot size in service right after the slot" is counted with number_in_service: its balance over slotted_service (shared instance, C09)
    from . import c09
    c09.in_service(ctx, P, iters, only={"slotted_service"})
    ctx.assume("timetable arithmetic of get_schedule_generator (cycle length, offset) is not decided")


def shift(ctx, P, views, iters):
    ob = ctx.ob("SHIFT", "change_shift: exactly one get_next_shift, before every read of schedule.c / next_shift_change_date; retire < add_new_servers(schedule.c) < dispatch")
    done = set()
    for view in views:
        cls, fn = view.method("change_shift")

        def keep(e):
            if e.kind == "call":
                return e.d["meth"] in ("get_next_shift", "take_servers_off_duty", "add_new_servers", "begin_service_if_possible_change_shift")
            if e.kind == "assign":
                return "self.schedule.c" in e.d["value"] or "next_shift_change_date" in e.d["value"]
            return False
        w = Walker(P, view, keep=keep, inline=rules.new_helper, loop_iters=iters)
        for st in w.paths_of(cls, fn):
            if st.status == "raise":
                continue
            evs = st.events
            adv = [i for i, e in enumerate(evs) if e.kind == "call" and e.d["meth"] == "get_next_shift"]
            ob.ok("%s.change_shift" % view.name, "%s.change_shift: %s" % (view.name, " -> ".join(x.text[:45] for x in evs)))
            problems = []
            if len(adv) != 1:
                problems.append(("generator-advance-count", "the shift generator must be advanced exactly once per shift change (found %d)" % len(adv)))
            else:
                for i, e in enumerate(evs):
                    reads = (e.kind == "assign") or (e.kind == "call" and any("self.schedule.c" in a or "next_shift_change_date" in a for a in e.d["args"] + list(e.d["kw"].values())))
                    if reads and i < adv[0]:
                        problems.append(("read-before-advance", "`%s` reads the schedule before get_next_shift() moved it to the new shift" % e.text[:60]))
                add = [e for e in evs if e.kind == "call" and e.d["meth"] == "add_new_servers"]
                if not add or add[0].d["args"] != ["self.schedule.c"]:
                    problems.append(("servers-added", "the new shift must bring exactly schedule.c servers on duty"))
                if not any(e.kind == "assign" and e.d["target"] == "self.next_shift_change" and e.d["value"] == "self.schedule.next_shift_change_date" for e in evs):
                    problems.append(("next-shift-not-armed", "next_shift_change must be re-armed from the schedule (otherwise the same shift change fires again)"))
                off = [e for e in evs if e.kind == "call" and e.d["meth"] == "take_servers_off_duty"]
                if not off or off[0].d["kw"].get("preemption", (off[0].d["args"] + [None])[0]) != "self.schedule.preemption":
                    problems.append(("retire-option", "servers must be retired with the schedule's pre-emption option"))
            for reason, msg in problems:
                if (cls.name, reason) not in done:
                    done.add((cls.name, reason))
                    ctx.violation(ob, "R4.shift-order", "%s.change_shift" % cls.name, reason, reason, msg, loc(fn), witness(st))


def off_duty(ctx, P, views, iters):
    ob = ctx.ob("OFFD", "take_servers_off_duty: non-pre-emptive -> busy servers marked offduty (not killed), idle ones killed; pre-emptive -> every busy server's customer interrupted")
    done = set()
    # who may write the off-duty mark: the constructor of a server (False) and the end of a shift (True).  A server working overtime that gets the mark taken
    # away stays on the node after its customer leaves: one more server on duty than the timetable says, until the next shift change.
    nw = 0
    for ci, fn, node, recv, how in rules.attr_writes(P, "offduty"):
        nw += 1
        names_ = set(rules.effective_names(P, ci, fn)) if ci is not None else {fn.name}
        val = unparse(node.value) if isinstance(node, ast.Assign) else "?"
        ob.ok("offduty-writer:%s" % rules.qual(ci, fn), "%s: %s" % (rules.qual(ci, fn), unparse(node)[:60]))
        okw = (names_ == {"__init__"} and val == "False" and recv == "self") or (names_ <= {"take_servers_off_duty"} and val == "True")
        if not okw:
            ctx.violation(ob, "R1.offduty-writer", rules.qual(ci, fn), unparse(node)[:80], "offduty-written-elsewhere",
                          "the off-duty mark is set at the end of a shift and never taken back: written here, a server that should leave with its customer stays on duty "
                          "(or one on duty is dropped)", loc(node))
    ctx.floor("writes of the off-duty mark", nw, 2)
    for view in views:
        cls, fn = view.method("take_servers_off_duty")
        for lit, name in (("False", "non-preemptive"), ("'resume'", "preemptive")):
            w = Walker(P, view, keep=lambda e: e.kind == "guard" or (e.kind == "call" and e.d["meth"] in ("kill_server", "interrupt_service", "append", "insert")) or
                       (e.kind == "assign" and e.d["target"].endswith(".offduty")) or e.kind in ("iter", "loopexit") or
                       (e.kind in ("assign", "return") and isinstance(e.d.get("value_node"), ast.ListComp)),
                       track=lambda t, f: True, inline=rules.new_helper, literal_args={"preemption": lit}, loop_iters=iters)
            for st in w.paths_of(cls, fn):
                if st.status == "raise":
                    continue
                evs = st.events
                ob.ok("%s:%s" % (view.name, name), "%s.take_servers_off_duty[%s]: %s" % (view.name, name, " -> ".join(x.text[:40] for x in evs if x.kind != "iter")))
                reason = None
                calls = [(i, e) for i, e in enumerate(evs) if e.kind == "call"]
                if name == "non-preemptive":
                    # every server of the old shift is either (tested busy and marked offduty) or (tested idle and put on the delete list, which is then killed)
                    dellists = set()
                    # the delete list written as a filter: [s for s in self.servers if not s.busy] -- every idle server, no busy one
                    idle_filter = False
                    for e in evs:
                        vn = e.d.get("value_node") if e.kind in ("assign", "return") else None
                        if isinstance(vn, ast.ListComp) and len(vn.generators) == 1 and unparse(vn.generators[0].iter) == "self.servers" and isinstance(vn.generators[0].target, ast.Name):
                            v_ = vn.generators[0].target.id
                            tests = [guards.norm(t, unparse) for t in vn.generators[0].ifs]
                            if unparse(vn.elt) == v_ and tests == [("not", ("truth", v_ + ".busy"))]:
                                idle_filter = True
                                if e.kind == "assign":
                                    dellists.add(e.d["target"])
                            elif unparse(vn.elt) == v_:
                                reason, msg = "busy-server-killed", "non-pre-emptive schedule: the list of servers to delete must hold exactly the idle ones (`not srvr.busy`)"
                    for i, e in calls:
                        if e.d["meth"] in ("append", "insert") and "." not in e.d["recv"]:
                            x = e.d["args"][-1] if e.d["args"] else "?"
                            dellists.add(e.d["recv"])
                            if rules.path_condition(evs, i).get(("truth", x + ".busy")) is not False:
                                reason, msg = "busy-server-killed", "non-pre-emptive schedule: only servers tested idle (`not srvr.busy`) may be deleted at the shift end; a busy one finishes as overtime"
                    for i, e in enumerate(evs):
                        if e.kind == "assign" and e.d["target"].endswith(".offduty"):
                            x = e.d["target"][: -len(".offduty")]
                            if e.d["value"] != "True" or rules.path_condition(evs, i).get(("truth", x + ".busy")) is not True:
                                reason, msg = "offduty-mark", "only a busy server is marked offduty (True): it finishes its customer as overtime"
                    # per loop iteration over the servers: the branch taken must do one of the two
                    it_idx = [i for i, e in enumerate(evs) if e.kind == "iter" and isinstance(e.node, ast.For) and e.d.get("iter") == "self.servers"]
                    for k, i in enumerate(it_idx):
                        j = it_idx[k + 1] if k + 1 < len(it_idx) else len(evs)
                        seg = evs[i + 1:j]
                        var_ = unparse(evs[i].node.target) + evs[i].frame.tag
                        bf = rules.path_condition(seg).get(("truth", var_ + ".busy"))
                        if bf is None:
                            reason, msg = "busy-server-not-marked", "each server of the old shift must be tested busy/idle"
                            continue
                        marked = any(x.kind == "assign" and x.d["target"].endswith(".offduty") for x in seg)
                        listed = any(x.kind == "call" and x.d["meth"] in ("append", "insert") for x in seg)
                        if bf and not marked:
                            reason, msg = "busy-server-not-marked", "a busy server must finish its customer as overtime: it is marked offduty, not dropped"
                        if not bf and not listed and not idle_filter:
                            reason, msg = "idle-server-kept", "an idle server of the old shift must be deleted"
                    if any(e.d["meth"] == "interrupt_service" for i, e in calls):
                        reason, msg = "interrupt-without-preemption", "non-pre-emptive schedule: services in progress must not be interrupted"
                    kills = [e for e in evs if e.kind in ("iter", "loopexit") and isinstance(e.node, ast.For) and any(isinstance(y, ast.Call) and call_name(y) == "kill_server" for y in ast.walk(e.node))]
                    if any((e.d.get("iter") or "").replace(" ", "") in ("self.servers", "self.servers[::1]", "list(self.servers)") for e in kills):
                        reason, msg = "busy-server-killed", "non-pre-emptive schedule: the kill loop runs over every server, busy ones included"
                    if idle_filter and not dellists and kills:
                        pass        # the filtered list is returned by a helper and iterated by the kill loop
                    elif dellists and not any(isinstance(e.node, ast.For) and e.d.get("iter") in dellists for e in evs if e.kind in ("iter", "loopexit")):
                        reason, msg = "idle-server-kept", "the servers put on the delete list must be killed"
                else:
                    it_idx = [i for i, e in enumerate(evs) if e.kind == "iter" and isinstance(e.node, ast.For) and e.d.get("iter") == "self.servers"]
                    for k, i in enumerate(it_idx):
                        j = it_idx[k + 1] if k + 1 < len(it_idx) else len(evs)
                        seg = evs[i + 1:j]
                        hascust = [g for g in seg if g.kind == "guard" and ".cust" in g.text]
                        ints = [x for x in seg if x.kind == "call" and x.d["meth"] == "interrupt_service"]
                        var = unparse(evs[i].node.target) + evs[i].frame.tag
                        if hascust:
                            f = {}
                            guards.assume(hascust[0].d["formula"], hascust[0].pol, f)
                            incust = f.get(("truth", var + ".cust"))
                            if incust is True and not (ints and ints[0].d["args"] == [var + ".cust"]):
                                reason, msg = "busy-customer-not-interrupted", "pre-emptive schedule: the customer of every busy server is interrupted exactly at the shift end"
                        elif not ints:
                            reason, msg = "busy-customer-not-interrupted", "pre-emptive schedule: the customer of every busy server is interrupted exactly at the shift end"
                if reason and (cls.name, reason) not in done:
                    done.add((cls.name, reason))
                    ctx.violation(ob, "R4.off-duty", "%s.take_servers_off_duty" % cls.name, name, reason, msg, loc(fn), witness(st))
        # shift_end recorded for overtime
    interrupt_in_service(ctx, P, views, iters)
    interrupted_sorted(ctx, P, views, iters)


def interrupt_in_service(ctx, P, views, iters):
    ob2 = ctx.ob("INTSVC", "interrupt_service(I) is applied only to customers in service (a server's cust tested not False, or the service_start_date filter)")
    for view in views:
        for m in view.methods():
            cls, fn = view.resolve(m)
            if not any(isinstance(x, ast.Call) and call_name(x) == "interrupt_service" for x in ast.walk(fn)):
                continue
            w = Walker(P, view, keep=lambda e: e.kind in ("guard", "iter") or (e.kind == "assign" and e.d.get("local")) or (e.kind == "call" and e.d["meth"] == "interrupt_service"),
                       track=lambda t, f: True, inline=lambda ev: False, loop_iters=iters)
            bad, seen_ok = {}, set()
            for st in w.paths_of(cls, fn):
                for i, e in enumerate(st.events):
                    if e.kind != "call" or e.d["meth"] != "interrupt_service":
                        continue
                    arg = e.d["args"][0] if e.d["args"] else "?"
                    pc = rules.path_condition(st.events, i)
                    ok = pc.get(("truth", arg)) is True or _in_service_element(st.events, i, e.node.args[0] if e.node.args else None, e.frame)
                    ob2.ok("%s.%s:%s" % (cls.name, m, unparse(e.node)), "%s.%s: %s" % (cls.name, m, unparse(e.node)))
                    if not ok:
                        bad.setdefault(id(e.node), (e, st))
            for e, st in bad.values():
                ctx.violation(ob2, "R13.interrupt-in-service", "%s.%s" % (cls.name, m), unparse(e.node), "interrupt-not-in-service",
                              "interrupt_service must only be applied to a customer that is in service", e.where, witness(st))


def interrupted_sorted(ctx, P, views, iters):
    """the interrupted queue is restarted from its head: after a pre-emptive shift end has added customers it must be re-sorted as a whole by
    (priority_class, arrival_date) -- customers left from an earlier shift included"""
    ob = ctx.ob("SORTI", "take_servers_off_duty: every path that interrupts a service sorts interrupted_individuals afterwards, by (priority_class, arrival_date)")
    for view in views:
        if "PSNode" in view.mro:
            continue
        cls, fn = view.method("take_servers_off_duty")
        w = Walker(P, view, keep=lambda e: e.kind == "call" and (e.d["meth"] in ("interrupt_service", "sort_interrupted_individuals") or
                                                                    (e.d["meth"] == "sort" and (e.d.get("recv") or "").endswith("interrupted_individuals"))),
                   inline=rules.new_helper, loop_iters=iters)
        bad = None
        n = 0
        for st in w.paths_of(cls, fn):
            if st.status == "raise":
                continue
            ms = [e.d["meth"] for e in st.events]
            if "interrupt_service" in ms:
                n += 1
                last_int = max(i for i, m_ in enumerate(ms) if m_ == "interrupt_service")
                if not any(m_ in ("sort_interrupted_individuals", "sort") for m_ in ms[last_int + 1:]):
                    bad = bad or st
        ob.ok("%s.take_servers_off_duty" % view.name, "%d interrupting path(s)" % n)
        if bad is not None:
            ctx.violation(ob, "R4.must-follow", "%s.take_servers_off_duty" % cls.name, "sort_interrupted_individuals()", "interrupted-queue-not-sorted",
                          "customers interrupted at this shift end join interrupted_individuals but the list is not re-sorted: those left over from an earlier shift end keep "
                          "their old positions, so a lower-priority or later customer restarts first", loc(fn), witness(bad))
        r = view.resolve("sort_interrupted_individuals")
        if r is not None:
            keys = [unparse(k.value).replace(" ", "") for x in ast.walk(r[1]) if isinstance(x, ast.Call) and call_name(x) in ("sort", "sorted") for k in x.keywords if k.arg == "key"]
            rev = [unparse(k.value) for x in ast.walk(r[1]) if isinstance(x, ast.Call) and call_name(x) in ("sort", "sorted") for k in x.keywords if k.arg == "reverse"]
            okk = len(keys) == 1 and rev in ([], ["False"])
            if okk:
                lam = [x for x in ast.walk(r[1]) if isinstance(x, ast.Lambda)]
                okk = len(lam) == 1 and len(lam[0].args.args) == 1 and unparse(lam[0].body).replace(" ", "") == "(%s.priority_class,%s.arrival_date)" % (lam[0].args.args[0].arg, lam[0].args.args[0].arg)
            ob.ok("%s.sort_interrupted_individuals" % view.name, "; ".join(keys))
            if not okk:
                ctx.violation(ob, "R4.must-follow", "%s.sort_interrupted_individuals" % r[0].name, "; ".join(keys) or "sort key", "interrupted-sort-key",
                              "interrupted customers restart in (priority_class, arrival_date) order", loc(r[1]))


def _in_service_element(evs, i, arg, frame):
    """arg is the loop variable of an enclosing iteration whose source, followed through local definitions, slices and sorted()/list()/reversed(),
    is a list comprehension that keeps only elements with `x.service_start_date is not False`"""
    if not isinstance(arg, ast.Name):
        return False
    src = None
    for e in reversed(evs[:i]):
        if e.kind == "iter" and isinstance(e.node, ast.For) and isinstance(e.node.target, ast.Name) and e.node.target.id == arg.id and e.frame.fid == frame.fid:
            src = e.node.iter
            break
        if e.kind == "assign" and e.d.get("local") and e.d["target"] == arg.id + frame.tag:
            return False
    defs = {}
    for e in evs[:i]:
        if e.kind == "assign" and e.d.get("local") and e.frame.fid == frame.fid:
            defs[e.d["target"]] = e.d.get("value_node")
    for _ in range(10):
        if src is None:
            return False
        if isinstance(src, ast.Subscript) and isinstance(src.slice, ast.Slice):
            src = src.value
        elif isinstance(src, ast.Call) and isinstance(src.func, ast.Name) and src.func.id in ("sorted", "list", "reversed", "tuple") and src.args:
            src = src.args[0]
        elif isinstance(src, ast.Name):
            src = defs.get(src.id + frame.tag)
        elif isinstance(src, (ast.ListComp, ast.GeneratorExp)) and len(src.generators) == 1:
            g = src.generators[0]
            if unparse(src.elt) != unparse(g.target):
                return False
            v = unparse(g.target)
            facts = {}
            for c in g.ifs:
                guards.assume(guards.norm(c, unparse), True, facts)
            return facts.get(("eq", v + ".service_start_date", "False")) is False or facts.get(("eq", "False", v + ".service_start_date")) is False \
                or facts.get(("truth", v + ".service_start_date")) is True
        else:
            return False
    return False


def interrupted_first(ctx, P, views, iters):
    ob = ctx.ob("INTF", "dispatch routines restart interrupted customers before choosing fresh ones")
    done = set()
    n = 0
    for view in views:
        for m in ("begin_service_if_possible_release", "begin_service_if_possible_change_shift", "slotted_service"):
            cls, fn = view.method(m)
            if cls.name == "PSNode":
                continue
            w = Walker(P, view, keep=lambda e: e.kind == "guard" or (e.kind == "call" and e.d["meth"] == "choose_next_customer"), track=lambda t, f: True,
                       inline=rules.new_helper, loop_iters=iters)
            for st in w.paths_of(cls, fn):
                for i, e in enumerate(st.events):
                    if e.kind == "call":
                        n += 1
                        pc = rules.path_condition(st.events, i)
                        ok = pc.get(("lt", "0", "self.number_interrupted_individuals")) is False
                        ob.ok("%s.%s" % (cls.name, m), "%s.%s: choose_next_customer under [%s]" % (view.name, m, "; ".join(x.text for x in st.events[:i] if x.kind == "guard")))
                        if not ok and (cls.name, m) not in done:
                            done.add((cls.name, m))
                            ctx.violation(ob, "R5.interrupted-first", "%s.%s" % (cls.name, m), "self.choose_next_customer()", "fresh-before-interrupted",
                                          "a fresh customer is chosen without first testing number_interrupted_individuals > 0: interrupted customers must be restarted first", e.where, witness(st))
    ctx.floor("choose_next_customer calls in shift/slot/release dispatch", n, 3)


def starts_need_server(ctx, P, views, iters):
    ob = ctx.ob("SRVOBJ", "a service start without attach_server exists only under isinf(c) in the accept dispatch, in slotted_service and in the PS overrides")
    done = set()
    n = 0
    for view in views:
        for s in typestate.starts(P, view, iters):
            e = s["event"]
            if e.d["value"] != "self.now":
                continue
            n += 1
            method = e.frame.qual
            ob.ok("%s:%s:%s" % (method, s["root"], "attached" if s["attached"] else "no-server-object"), "%s from %s: start of %s, %s" % (method, s["root"], s["token"], "after attach_server" if s["attached"] else "no server object"))
            if s["attached"]:
                continue
            stack = {f.func.name for f in typestate._frames(e.frame)}
            if e.frame.cls.name == "PSNode" or "slotted_service" in stack:
                continue
            if "begin_service_if_possible_accept" in stack and guards.implies(s["site"].pc(), ("isinf", "self.c"))[0]:
                continue
            if (method,) not in done:
                done.add((method,))
                ctx.violation(ob, "R13.start-without-server", method, e.text, "start-without-server-object",
                              "a service starts here without a Server object attached (and the node is not infinite-server / slotted / PS): at a scheduled node this lets service begin "
                              "while zero servers are on duty, at a slotted node outside the slot instant [reached from %s]" % s["root"], e.where, witness(s["state"], 16))
    ctx.floor("service start events", n, 6)


def _canon_minmax(node):
    """canonical text of an expression built from min/max (commutative: arguments sorted) over integer-linear terms"""
    from ..lin import linear
    if isinstance(node, ast.Call) and isinstance(node.func, ast.Name) and node.func.id in ("min", "max") and not node.keywords:
        return "%s(%s)" % (node.func.id, ", ".join(sorted(_canon_minmax(a) for a in node.args)))
    if not any(isinstance(x, ast.Call) for x in ast.walk(node)):
        lin = linear(unparse(node))
        if lin is not None:
            return " + ".join("%s*%s" % (v, k) for k, v in sorted(lin[0].items())) + (" + %s" % lin[1] if lin[1] else "") if lin[0] else str(lin[1])
    return unparse(node).replace(" ", "")


def slots(ctx, P, views, iters):
    ob = ctx.ob("SLOT", "slotted_service: number started = min(slot_size, waiting) or capacitated min(max(slot_size - in_service, 0), waiting); at most that many starts; one get_next_slot per event")
    for view in views:
        cls, fn = view.method("find_number_of_slotted_services")
        A = "min(max(0,self.schedule.slot_size-self.number_in_service),self.number_of_individuals)"
        B = "min(self.number_of_individuals,self.schedule.slot_size)"
        w0 = Walker(P, view, keep=lambda e: e.kind in ("guard", "return") or (e.kind == "assign" and e.d.get("local")), track=lambda t, f: True, inline=rules.new_helper)
        forms, bad_branch, nret = set(), None, 0
        for st in w0.paths_of(cls, fn):
            rv = [e for e in st.events if e.kind == "return" and e.frame.depth == 0]
            if st.status == "raise" or not rv or rv[-1].d.get("value_node") is None:
                continue
            nret += 1
            ridx = max(i for i, e in enumerate(st.events) if e is rv[-1])
            try:
                form = _canon_minmax(ast.parse(rules.path_text(st.events, ridx, rv[-1].d["value_node"], rv[-1].frame), mode="eval").body)
            except SyntaxError:
                form = _canon_minmax(rv[-1].d["value_node"])
            forms.add(form)
            cap = rules.path_condition(st.events, len(st.events)).get(("truth", "self.schedule.capacitated"))
            if (form == _canon_minmax(ast.parse(A, mode="eval").body)) != (cap is True) or cap is None:
                bad_branch = bad_branch or st
        want = {_canon_minmax(ast.parse(A, mode="eval").body), _canon_minmax(ast.parse(B, mode="eval").body)}
        ob.ok("%s.find_number_of_slotted_services" % view.name, "; ".join(sorted(forms)))
        if forms != want or nret == 0:
            ctx.violation(ob, "R5.slot-count", "%s.find_number_of_slotted_services" % cls.name, "; ".join(sorted(forms)), "slot-count-formula",
                          "services per slot must be min(slot_size, waiting) / capacitated min(max(slot_size - number_in_service, 0), waiting)", loc(fn))
        elif bad_branch is not None:
            ctx.violation(ob, "R5.slot-count", "%s.find_number_of_slotted_services" % cls.name, "capacitated branch", "slot-count-branch", "the capacitated formula must be used iff schedule.capacitated", loc(fn), witness(bad_branch))
        cls, fn = view.method("slotted_service")
        w = Walker(P, view, keep=lambda e: (e.kind == "call" and e.d["meth"] in ("get_next_slot", "find_number_of_slotted_services", "interrupt_slotted_services")) or e.kind in ("iter", "loopexit") or
                   (e.kind == "assign" and (e.d["target"].endswith(".service_start_date"))), inline=rules.new_helper, loop_iters=iters)
        for st in w.paths_of(cls, fn):
            if st.status == "raise":
                continue
            evs = st.events
            adv = [e for e in evs if e.kind == "call" and e.d["meth"] == "get_next_slot"]
            ob.ok("%s.slotted_service:%d" % (view.name, len(evs)))
            if len(adv) != 1:
                ctx.violation(ob, "R4.slot-advance", "%s.slotted_service" % cls.name, "get_next_slot x%d" % len(adv), "generator-advance-count",
                              "the slot generator must be advanced exactly once per slot event (otherwise the slot repeats for ever or a slot is skipped)", loc(fn), witness(st))
                break
            loops = [e for e in evs if e.kind == "iter" and isinstance(e.node, ast.For)]
            for lp in loops:
                it = unparse(lp.node.iter).replace(" ", "")
                src = None
                for a in ast.walk(fn):
                    if isinstance(a, ast.Assign) and isinstance(a.targets[0], ast.Name) and "range(%s)" % a.targets[0].id == it:
                        src = unparse(a.value)
                if src != "self.find_number_of_slotted_services()":
                    ctx.violation(ob, "R5.slot-count", "%s.slotted_service" % cls.name, unparse(lp.node.iter), "loop-bound", "the start loop must run find_number_of_slotted_services() times", loc(lp.node), witness(st))
                    break
            # starts only inside that loop, one per iteration
            inloop, count = False, 0
            for e in evs:
                if e.kind == "iter" and isinstance(e.node, ast.For):
                    inloop, count = True, 0
                elif e.kind == "loopexit":
                    inloop = False
                elif e.kind == "assign" and e.d["value"] != "False":
                    count += 1
                    if not inloop or count > 1:
                        ctx.violation(ob, "R5.slot-count", "%s.slotted_service" % cls.name, e.text, "start-outside-count", "more services start than the slot allows", e.where, witness(st))
                        break
            # the count is taken before overflow customers are interrupted (they free capacity only for the next slot)


def interrupted_flag(ctx, P, views, iters):
    ob = ctx.ob("R14.int", "`interrupted` set only in interrupt_service together with the list append and counter; every site that takes a customer out of interrupted_individuals clears the flag and decrements the counter")
    check_pairing(ctx, ctx.ob("R2.intq", "number_interrupted_individuals changes exactly with interrupted_individuals on every path, per node object"), P, views,
                  Pairing("number_interrupted_individuals", "interrupted_individuals", "R2.interrupted-queue", "number_interrupted_individuals vs interrupted_individuals"), loop_iters=iters)
    n = 0
    for ci, fn, node, recv, how in rules.attr_writes(P, "interrupted"):
        n += 1
        v = unparse(node.value) if isinstance(node, ast.Assign) else "?"
        ob.seen("%s:%s" % (rules.qual(ci, fn), v))
        if v == "True" and "interrupt_service" not in rules.effective_names(P, ci, fn):
            ctx.violation(ob, "R14.flag", rules.qual(ci, fn), unparse(node), "set-outside-interrupt", "interrupted set True outside interrupt_service", loc(node))
    ctx.floor("writes of interrupted", n, 4)
    done = set()
    for view in views:
        for m in view.methods():
            cls, fn = view.resolve(m)
            if m == "__init__" or not any(isinstance(x, ast.Attribute) and x.attr == "interrupted_individuals" for x in ast.walk(fn)):
                continue

            def keep(e):
                if e.kind == "call":
                    lo = listop(e)
                    return bool(lo and lo[2] == "interrupted_individuals" and lo[0] in ("ins", "rem"))
                return e.kind == "assign" and e.d["target"].endswith(".interrupted")
            w = Walker(P, view, keep=keep, inline=rules.new_helper, loop_iters=iters)
            for st in w.paths_of(cls, fn):
                if st.status == "raise":
                    continue
                for e in [x for x in st.events if x.kind == "call"]:
                    lo = listop(e)
                    tok = lo[4][-1] if lo[4] else "?"
                    want = "True" if lo[0] == "ins" else "False"
                    # the token may be named through an alias (ind = self.interrupted_individuals[0])
                    flag = [x for x in st.events if x.kind == "assign" and x.d["value"] == want and (x.d["target"] == tok + ".interrupted" or tok.strip("()") in x.d["target"])]
                    ob.ok("%s.%s:%s" % (cls.name, m, lo[0]), "%s.%s: %s with flag=%s" % (view.name, m, e.text[:60], want))
                    if not flag and (cls.name, m, lo[0]) not in done:
                        done.add((cls.name, m, lo[0]))
                        ctx.violation(ob, "R14.flag", "%s.%s" % (cls.name, m), e.text, "flag-not-%s" % ("set" if want == "True" else "cleared"),
                                      "the customer is %s interrupted_individuals but its `interrupted` flag is not set to %s on this path (release_blocked_individual and the restart logic key on it)"
                                      % ("added to" if want == "True" else "taken out of", want), e.where, witness(st))


def event_precedence(ctx, P, views, before):
    """among events of one node that fall on the same instant, decide_next_event takes the first in a fixed order (strict `<` over a literal sequence of
    event types).  `before` = {type: types that must win a tie against it}.  A selection whose tie order is not fixed by the source (min over a dictionary,
    a set) decides nothing about simultaneous events and is reported."""
    ob = ctx.ob("PREC", "decide_next_event: simultaneous events of one node are taken in a fixed literal order (first wins): %s"
                % "; ".join("%s before %s" % (", ".join(v), k) for k, v in sorted(before.items())))
    from .. import scans
    for view in views:
        cls, fn = view.method("decide_next_event")
        order = None
        for sc in scans.find_scans(fn):
            it = sc.loop.iter
            if isinstance(it, (ast.List, ast.Tuple)) and all(isinstance(e, ast.Constant) for e in it.elts):
                order = [e.value for e in it.elts]
            elif isinstance(it, ast.Dict) and all(isinstance(k, ast.Constant) for k in it.keys):
                order = [k.value for k in it.keys]
            if order is not None and not sc.strict:
                order = list(reversed(order))       # `<=`: the later of two equal candidates is kept
        if order is None:
            # `min(L, key=...)` with L = [... for t in <literal sequence> ...]: min keeps the first of equal candidates, so the literal order decides ties
            def literal_order(it):
                if isinstance(it, (ast.List, ast.Tuple)) and it.elts and all(isinstance(e, ast.Constant) for e in it.elts):
                    return [e.value for e in it.elts]
                if isinstance(it, ast.Dict) and it.keys and all(isinstance(k, ast.Constant) for k in it.keys):
                    return [k.value for k in it.keys]
                return None
            for x in ast.walk(fn):
                if isinstance(x, ast.Call) and isinstance(x.func, ast.Name) and x.func.id == "min" and len(x.args) == 1 and isinstance(x.args[0], ast.Name):
                    ds = [y for y in ast.walk(fn) if isinstance(y, ast.Assign) and any(isinstance(t, ast.Name) and t.id == x.args[0].id for t in y.targets)]
                    if len(ds) == 1 and isinstance(ds[0].value, ast.ListComp) and len(ds[0].value.generators) == 1:
                        order = literal_order(ds[0].value.generators[0].iter)
        ob.ok("%s.decide_next_event" % view.name, "tie order %s" % order)
        if order is None:
            ctx.violation(ob, "R6.tie-order", "%s.decide_next_event" % cls.name, "selection", "tie-order-not-fixed",
                          "the next event is not selected by a first-wins scan over a literal sequence of event types: which of two simultaneous events runs first "
                          "is then left to dictionary order", loc(fn))
            continue
        for late, firsts in sorted(before.items()):
            for f in firsts:
                if late in order and f in order and order.index(f) > order.index(late):
                    ctx.violation(ob, "R6.tie-order", "%s.decide_next_event" % cls.name, "%s before %s" % (late, f), "tie-order",
                                  "at equal dates %r must be handled before %r (order found: %s)" % (f, late, order), loc(fn))


def event_tables(ctx, P, views):
    ob = ctx.ob("EVT", "event types produced (possible_next_events keys, __init__) == types ranked by decide_next_event == branches of have_event")
    for view in views:
        produced = set()
        for m in view.methods():
            cls, fn = view.resolve(m)
            for x in ast.walk(fn):
                if isinstance(x, ast.Assign):
                    t = x.targets[0]
                    if isinstance(t, ast.Subscript) and unparse(t.value) == "self.possible_next_events" and isinstance(t.slice, ast.Constant):
                        produced.add(t.slice.value)
                    if unparse(t) == "self.next_event_type" and isinstance(x.value, ast.Constant) and isinstance(x.value.value, str):
                        produced.add(x.value.value)
        # ... or through a newly extracted helper that takes the event type as a parameter: the constant each caller passes
        for m in view.methods():
            if m in rules.ANCHOR_METHODS:
                continue
            hcls, hfn = view.resolve(m)
            hps = [a.arg for a in hfn.args.args][1:]
            keyp = [unparse(x.targets[0].slice) for x in ast.walk(hfn) if isinstance(x, ast.Assign) and isinstance(x.targets[0], ast.Subscript)
                    and unparse(x.targets[0].value) == "self.possible_next_events" and isinstance(x.targets[0].slice, ast.Name) and x.targets[0].slice.id in hps]
            for kp in keyp:
                for m2 in view.methods():
                    for c_ in ast.walk(view.resolve(m2)[1]):
                        if isinstance(c_, ast.Call) and isinstance(c_.func, ast.Attribute) and unparse(c_.func.value) == "self" and c_.func.attr == m:
                            arg = c_.args[hps.index(kp)] if hps.index(kp) < len(c_.args) else next((k.value for k in c_.keywords if k.arg == kp), None)
                            if isinstance(arg, ast.Constant) and isinstance(arg.value, str):
                                produced.add(arg.value)
        cls, fn = view.method("decide_next_event")
        ranked = set()
        for x in ast.walk(fn):
            it_ = x.iter if isinstance(x, (ast.For, ast.comprehension)) else None
            if isinstance(it_, (ast.List, ast.Tuple)):
                ranked |= {el.value for el in it_.elts if isinstance(el, ast.Constant)}
            elif isinstance(it_, ast.Dict):
                ranked |= {k.value for k in it_.keys if isinstance(k, ast.Constant)}
        cls2, fn2 = view.method("have_event")
        want = {"end_service": "finish_service", "shift_change": "change_shift", "renege": "renege", "class_change": "change_customer_class_while_waiting", "slotted_service": "slotted_service"}
        consts = {x.value for x in ast.walk(fn2) if isinstance(x, ast.Constant) and isinstance(x.value, str)}
        universe = sorted((produced | ranked | set(want) | consts) - {None})
        handled, runs = set(), {}
        for t in universe:
            facts = {}
            for u in universe:
                guards.assume(guards.norm(ast.parse("self.next_event_type == %r" % u, mode="eval").body, unparse), u == t, facts)
            w = Walker(P, view, keep=lambda e: e.kind == "call" and e.d.get("selfcall"), inline=rules.new_helper, track=lambda tt, f: True)
            seqs = set()
            for st in w.paths_of(cls2, fn2, facts=facts):
                if st.status == "raise":
                    continue
                seqs.add(tuple(e.d["meth"] for e in st.events if e.kind == "call" and e.d["meth"] in rules.ANCHOR_METHODS))
            runs[t] = seqs
            if any(seqs_ for seqs_ in seqs):
                handled.add(t)
        ob.ok("%s:%s" % (view.name, sorted(produced)), "produced %s ranked %s handled %s" % (sorted(produced), sorted(ranked), sorted(handled)))
        if len(produced) < 5:
            ctx.unrecognised("EVT: only %d event types recognised in view %s" % (len(produced), view.name))
        for t in sorted(produced - ranked):
            ctx.violation(ob, "R12.event-types", "%s.decide_next_event" % cls.name, repr(t), "produced-not-ranked", "event type %r is produced but decide_next_event never selects it" % t, loc(fn))
        for t in sorted(produced - handled):
            ctx.violation(ob, "R12.event-types", "%s.have_event" % cls2.name, repr(t), "produced-not-dispatched", "event type %r is produced but have_event has no branch for it" % t, loc(fn2))
        for t in sorted((ranked | handled) - produced):
            ctx.violation(ob, "R12.event-types", "%s.have_event" % cls2.name, repr(t), "dispatched-not-produced", "event type %r is ranked/dispatched but never produced" % t, loc(fn2))
        # each event type runs exactly its handler, on every path
        for t in sorted(handled):
            ob.ok("%s:branch:%s" % (view.name, t), "%s: %r -> %s" % (view.name, t, sorted(runs[t])))
            if t in want and runs[t] != {(want[t],)}:
                ctx.violation(ob, "R12.event-types", "%s.have_event" % cls2.name, "%r -> %s" % (t, sorted(runs[t])), "wrong-handler", "event type %r must run %s" % (t, want[t]), loc(fn2))


def timetable(ctx, P):
    """structural part of the cyclic timetable: the constructors store the user's table unchanged, initialise() hands exactly that table and the offset to the
    generator, and the generator's date is offset + boundary[i mod n] + (i div n) * cyclelength with cyclelength = last boundary.  (That this formula is the
    intended timetable is the arithmetic we do not prove; that the pieces are wired to it is decided here.)"""
    ob = ctx.ob("TIMET", "Schedule/Slotted keep the declared table and offset unchanged and feed them to the cyclic generator: date = offset + boundaries[i % n] + (i // n) * cyclelength, cyclelength = last boundary")
    from ..lin import linear
    sch = P.classes.get("Schedule")
    slt = P.classes.get("Slotted")
    if sch is None or slt is None or "get_schedule_generator" not in sch.methods:
        raise AnalysisError("Schedule / Slotted / get_schedule_generator not found")

    def stores(ci, m, want):
        # on every path: the values stored into self.<attr> (newly extracted helpers read through, their parameters spelled as the arguments); a parameter
        # that was stored unchanged into a field and that field are the same value (`self.slots = slots ... slots[-1]`)
        import re as _re
        fn = ci.methods[m]
        params = [a.arg for a in fn.args.args][1:]
        w = Walker(P, P.view(ci.name), keep=lambda e: e.kind == "assign" and not e.d.get("local") and e.d["target"].startswith("self."), inline=rules.new_helper)
        got = {}
        for st in w.paths_of(ci, fn):
            if st.status == "raise":
                continue
            same = {}
            vals_ = {}
            for e in st.events:
                a_ = e.d["target"][len("self."):]
                v_ = e.d["value"].replace(" ", "")
                if v_ in params and _re.fullmatch(r"\w+", a_):
                    same[v_] = "self." + a_
                vals_.setdefault(a_, []).append(v_)
            for a_, vs in vals_.items():
                vs = [_re.sub(r"(?<![\w.])(%s)\b" % "|".join(map(_re.escape, same)), lambda m_: same[m_.group(1)], v_) if same and v_ not in same else v_ for v_ in vs]
                if got.setdefault(a_, vs) != vs:
                    got[a_] = got[a_] + ["/"] + vs          # paths disagree
        for attr, val in want.items():
            ob.ok("%s.%s:%s" % (ci.name, m, attr), "%s.%s: self.%s = %s" % (ci.name, m, attr, got.get(attr)))
            if got.get(attr) != [val]:
                ctx.violation(ob, "R5.timetable", "%s.%s" % (ci.name, m), "self.%s = %s" % (attr, got.get(attr)), "table-not-stored-as-declared",
                              "%s.%s must set self.%s = %s (the declared timetable / offset must reach the generator unchanged)" % (ci.name, m, attr, val), loc(fn))
    stores(sch, "__init__", {"shift_end_dates": "shift_end_dates", "numbers_of_servers": "numbers_of_servers", "offset": "offset", "cyclelength": "self.shift_end_dates[-1]", "preemption": "preemption"})
    stores(sch, "initialise", {"c": "0", "next_shift_change_date": "self.offset", "next_c": "self.numbers_of_servers[0]",
                               "schedule_generator": "self.get_schedule_generator(self.shift_end_dates,self.numbers_of_servers,self.offset)"})
    stores(slt, "__init__", {"slots": "slots", "slot_sizes": "slot_sizes", "offset": "offset", "cyclelength": "self.slots[-1]", "next_slot_sizes": "[self.slot_sizes[-1]]+self.slot_sizes[:-1]",
                             "capacitated": "capacitated", "preemption": "preemption", "c": "0"})
    stores(slt, "initialise", {"schedule_generator": "self.get_schedule_generator(self.slots,self.next_slot_sizes,self.offset)"})
    if "get_schedule_generator" in slt.methods:
        ctx.violation(ob, "R5.timetable", "Slotted.get_schedule_generator", "override", "generator-overridden", "Slotted must use the shared cyclic generator", loc(slt.node))
    gen = sch.methods["get_schedule_generator"]
    ps = [a.arg for a in gen.args.args][1:]
    bnd, vals, off = (ps + ["?", "?", "?"])[:3]
    nname = [unparse(x.targets[0]) for x in ast.walk(gen) if isinstance(x, ast.Assign) and unparse(x.value).replace(" ", "") == "len(%s)" % bnd]
    nname = nname[0] if nname else "len(%s)" % bnd
    loops_ = [x for x in ast.walk(gen) if isinstance(x, ast.While)]
    ys = [x for x in ast.walk(gen) if isinstance(x, ast.Yield)]
    okk = len(loops_) == 1 and len(ys) == 1 and isinstance(ys[0].value, ast.Tuple) and len(ys[0].value.elts) == 2
    why = "generator shape (one loop, one yield of (date, size)) not recognised"
    if okk:
        body = [x for x in loops_[0].body if not isinstance(x, ast.Pass)]
        dn = unparse(ys[0].value.elts[0])
        dates = [x for x in body if isinstance(x, ast.Assign) and unparse(x.targets[0]) == dn]
        incs = [i for i, x in enumerate(body) if (isinstance(x, ast.AugAssign) and isinstance(x.op, ast.Add) and unparse(x.value) == "1") or
                (isinstance(x, ast.Assign) and unparse(x.value).replace(" ", "") == unparse(x.targets[0]) + "+1")]
        idx = unparse(body[incs[0]].target if isinstance(body[incs[0]], ast.AugAssign) else body[incs[0]].targets[0]) if incs else "?"
        if len(dates) != 1 or len(incs) != 1:
            okk, why = False, "the loop must compute one date and advance the index by one per step"
        else:
            lin = linear(unparse(dates[0].value))
            want = {off: 1, "%s[%s %% %s]" % (bnd, idx, nname): 1, "%s // %s * self.cyclelength" % (idx, nname): 1}
            alt = {off: 1, "%s[%s %% %s]" % (bnd, idx, nname): 1, "self.cyclelength * (%s // %s)" % (idx, nname): 1}
            if lin is None or lin[1] != 0 or lin[0] not in (want, alt):
                okk, why = False, "date must be %s + %s[%s %% %s] + (%s // %s) * self.cyclelength; found %s" % (off, bnd, idx, nname, idx, nname, unparse(dates[0].value))
            elif unparse(ys[0].value.elts[1]).replace(" ", "") != "%s[%s%%%s]" % (vals, idx, nname):
                okk, why = False, "the size announced with a date must be %s[%s %% %s]" % (vals, idx, nname)
            else:
                di, yi = body.index(dates[0]), [i for i, x in enumerate(body) if any(y is ys[0] for y in ast.walk(x))][0]
                if not (di < incs[0] < yi):
                    okk, why = False, "order must be: date from the current index, advance the index, yield (date, size of the NEXT shift)"
                start = [x for x in gen.body if isinstance(x, ast.Assign) and unparse(x.targets[0]) == idx]
                if not start or unparse(start[0].value) != "0":
                    okk, why = False, "the index must start at 0"
    if not okk and not loops_:
        # the same sequence written as `for i in count(): date = f(i); yield date, values[(i + 1) % n]`
        # (temporaries of the loop body that name a piece of the formula -- `position = i % n` -- are read through first)
        cnt_ = {}
        for x in ast.walk(gen):
            if isinstance(x, ast.Name) and isinstance(x.ctx, ast.Store):
                cnt_[x.id] = cnt_.get(x.id, 0) + 1
        fl_ = [x for x in ast.walk(gen) if isinstance(x, ast.For)]
        tmp_ = {}
        for lp_ in fl_[:1]:
            for x in lp_.body:
                if isinstance(x, ast.Assign) and len(x.targets) == 1 and isinstance(x.targets[0], ast.Name) and cnt_.get(x.targets[0].id) == 1 \
                        and not any(isinstance(y, (ast.Call, ast.Yield)) for y in ast.walk(x.value)):
                    tmp_[x.targets[0].id] = x.value
        if tmp_ and fl_:
            keep_ = {unparse(y.value.elts[0]) for y in ast.walk(gen) if isinstance(y, ast.Yield) and isinstance(y.value, ast.Tuple) and y.value.elts}
            tmp_ = {k: v for k, v in tmp_.items() if k not in keep_}
            gen = rules.clone(gen)
            for _ in range(3):
                gen = rules._Subst(tmp_).visit(gen)
            gen = ast.fix_missing_locations(gen)
            ys = [x for x in ast.walk(gen) if isinstance(x, ast.Yield)]
        floops = [x for x in ast.walk(gen) if isinstance(x, ast.For) and isinstance(x.iter, ast.Call) and call_name(x.iter) == "count"
                  and (not x.iter.args or unparse(x.iter.args[0]) == "0") and len(x.iter.args) <= 1 and not x.iter.keywords and isinstance(x.target, ast.Name)]
        if len(floops) == 1 and len(ys) == 1 and isinstance(ys[0].value, ast.Tuple) and len(ys[0].value.elts) == 2:
            idx = floops[0].target.id
            body = [x for x in floops[0].body if not isinstance(x, ast.Pass)]
            dn = ys[0].value.elts[0]
            dexpr = dn
            if isinstance(dn, ast.Name):
                ds = [x for x in body if isinstance(x, ast.Assign) and unparse(x.targets[0]) == dn.id]
                dexpr = ds[0].value if len(ds) == 1 else None
            okk, why = True, ""
            lin = linear(unparse(dexpr)) if dexpr is not None else None
            want = {off: 1, "%s[%s %% %s]" % (bnd, idx, nname): 1, "%s // %s * self.cyclelength" % (idx, nname): 1}
            alt = {off: 1, "%s[%s %% %s]" % (bnd, idx, nname): 1, "self.cyclelength * (%s // %s)" % (idx, nname): 1}
            if lin is None or lin[1] != 0 or lin[0] not in (want, alt):
                okk, why = False, "date must be %s + %s[%s %% %s] + (%s // %s) * self.cyclelength" % (off, bnd, idx, nname, idx, nname)
            elif unparse(ys[0].value.elts[1]).replace(" ", "") not in ("%s[(%s+1)%%%s]" % (vals, idx, nname), "%s[(1+%s)%%%s]" % (vals, idx, nname)):
                okk, why = False, "the size announced with a date must be %s[(%s + 1) %% %s] (the size of the NEXT shift)" % (vals, idx, nname)
            elif any(isinstance(x, (ast.Assign, ast.AugAssign)) and idx in [unparse(t) for t in (x.targets if isinstance(x, ast.Assign) else [x.target])] for x in ast.walk(floops[0])):
                okk, why = False, "the loop index must not be modified inside the loop"
    ob.ok("Schedule.get_schedule_generator", "date = offset + boundaries[i % n] + (i // n) * cyclelength; yield (date, values[(i+1) % n])")
    if not okk:
        ctx.violation(ob, "R5.timetable", "Schedule.get_schedule_generator", "cyclic date formula", "generator-formula", why, loc(gen))


def schedule_objects(ctx, P):
    ob = ctx.ob("SCHD", "Schedule.get_next_shift / Slotted.get_next_slot advance their generator exactly once and publish (date, size) from it")
    for cname, m, fields in (("Schedule", "get_next_shift", ("next_shift_change_date", "next_c")), ("Slotted", "get_next_slot", ("next_slot_date", "slot_size"))):
        ci = P.classes.get(cname)
        if ci is None or m not in ci.methods:
            raise AnalysisError("%s.%s not found" % (cname, m))
        fn = ci.methods[m]
        ob.ok("%s.%s" % (cname, m))
        from ..scans import _subst
        w = Walker(P, P.view(cname), keep=lambda e: (e.kind == "call" and e.d["meth"] == "next") or e.kind == "assign", inline=rules.new_helper)
        for st in w.paths_of(ci, fn):
            if st.status == "raise":
                continue
            nxt = [e for e in st.events if e.kind == "call"]
            if len(nxt) != 1 or nxt[0].d["args"][:1] != ["self.schedule_generator"]:
                ctx.violation(ob, "R4.generator", "%s.%s" % (cname, m), "next(self.schedule_generator)", "generator-advance-count", "%s must take exactly one (date, size) pair from the generator" % m, loc(fn), witness(st))
                break
            defs, final, order = {}, {}, []
            for e in st.events:
                if e.kind != "assign":
                    continue
                val = _subst(e.d["value"], defs).replace(" ", "")
                if e.d.get("local"):
                    defs[e.d["target"]] = val
                else:
                    final[e.d["target"]] = val
                    order.append((e.d["target"], val))
            want = {"self." + fields[0]: "next(self.schedule_generator)[0]", "self." + fields[1]: "next(self.schedule_generator)[1]"}
            if any(final.get(k) != v for k, v in want.items()):
                ctx.violation(ob, "R4.generator", "%s.%s" % (cname, m), "%s, %s = next(...)" % fields, "fields-from-generator", "%s and %s must be the (date, size) just yielded" % fields, loc(fn), witness(st))
            if cname == "Schedule":
                # current c becomes the previously announced next_c, before next_c is overwritten
                cw = [i for i, (t, v) in enumerate(order) if t == "self.c"]
                nw = [i for i, (t, v) in enumerate(order) if t == "self.next_c"]
                if len(cw) != 1 or order[cw[0]][1] != "self.next_c" or not nw or cw[0] > nw[0]:
                    ctx.violation(ob, "R4.generator", "Schedule.get_next_shift", "self.c = self.next_c", "current-shift-size", "the shift that begins now has the size announced by the previous yield (c = next_c before next_c is replaced)", loc(fn), witness(st))
