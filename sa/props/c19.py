"""C19 Processor sharing -- structural clauses (DESIGN §4 C19): re-projection on every occupancy change, capacity guards and FCFS pick,
rate-function agreement between the progress and the projection expression (symbolic normal form, nothing evaluated numerically)."""
import ast

from .. import guards, rules
from ..model import AnalysisError, call_name, loc, unparse
from ..paths import Walker

EXPLANATION = (
    "Static analysis of ciw/processor_sharing.py: every path of PSNode.begin_service_if_possible_accept that starts a service and every path of "
    "begin_service_if_possible_release ends with update_all_service_end_dates(); a newcomer starts iff population (already counting it) <= ps_capacity, a "
    "waiting customer starts at a departure iff population >= ps_capacity and it is the first-come-first-served one all_individuals[ps_capacity - 1]; in "
    "update_all_service_end_dates the work credited for the elapsed period and the projected remaining duration are mutually inverse functions of the "
    "occupancy -- rate = threshold / max(k, threshold) = min(1, threshold / k), projection factor = max(k', threshold) / threshold -- compared as normalised "
    "products of factors; the period is now - date_last_update, time_left is reduced by the credited work, occupancies are min(population, capacity) and "
    "last_occupancy is advanced; only customers flagged with_server take part. The work integral over a run and the FIFO equivalence are not decided.")
RULE = "instances = paths of the two PS dispatch overrides, the guards and the factor multisets of the progress / projection expressions"


def check(ctx):
    P = ctx.program
    if "PSNode" not in P.classes:
        raise AnalysisError("PSNode not found")
    view = P.view("PSNode")
    reproject(ctx, P, view)
    capacity(ctx, P, view)
    rate(ctx, P, view)
    stale_configuration(ctx, P, view)
    # PS departures are scheduled by the node's serverless end-of-service scan (shared instances): its filters and sentinel tests
    from . import c02
    c02.scan_rules(ctx, P)
    c02.sentinel_tests(ctx, P)
    # customers sharing a PS server hold no Server object, so the renege scan's `not ind.server` filter cannot tell them from waiting ones: the scan must
    # not run where c is infinite (shared instance, C13) -- otherwise a customer leaves in the middle of its service with part of its work done
    from . import c13
    c13.renege_scan(ctx, P)
    ctx.assume("no blocking into/out of PS nodes (property's own proviso)")


def reproject(ctx, P, view):
    ob = ctx.ob("REPROJ", "every service start at accept and every departure re-projects all end dates (update_all_service_end_dates) afterwards")
    for m in ("begin_service_if_possible_accept", "begin_service_if_possible_release"):
        cls, fn = view.method(m)
        if cls.name != "PSNode":
            ctx.unrecognised("REPROJ: PSNode no longer overrides %s" % m)
            continue
        w = Walker(P, view, keep=lambda e: (e.kind == "call" and e.d["meth"] == "update_all_service_end_dates") or (e.kind == "assign" and e.d.get("local")) or
                   (e.kind == "assign" and (e.d["target"].endswith(".service_start_date") or e.d["target"].endswith(".with_server") or e.d["target"].endswith(".time_left") or e.d["target"].endswith(".date_last_update") or e.d["target"].endswith(".service_time"))),
                   inline=rules.new_helper)
        for st in w.paths_of(cls, fn):
            if st.status == "raise":
                continue
            defs = {e.d["target"]: e.d["value"] for e in st.events if e.kind == "assign" and e.d.get("local") and e.d.get("value") not in (None, "?")}
            evs = [e for e in st.events if not (e.kind == "assign" and e.d.get("local"))]
            starts = [i for i, e in enumerate(evs) if e.kind == "assign" and e.d["target"].endswith(".service_start_date")]
            ups = [i for i, e in enumerate(evs) if e.kind == "call"]
            ob.ok("%s:%s" % (m, len(evs)), "%s: %s" % (m, " -> ".join(x.text[:40] for x in evs)))
            need = bool(starts) or m.endswith("release")
            if need and (not ups or (starts and ups[-1] < starts[-1])):
                ctx.violation(ob, "R4.reproject", "PSNode.%s" % m, "update_all_service_end_dates()", "no-reprojection",
                              "the occupancy changes on this path but the end dates of the customers in service are not re-projected afterwards", loc(fn), rules.witness(st))
            for i in starts:
                tok = evs[i].d["target"][: -len(".service_start_date")]
                from ..scans import _subst
                got = {e.d["target"][len(tok) + 1:]: _subst(e.d["value"], defs) for e in evs if e.kind == "assign" and e.d["target"].startswith(tok + ".")}
                want = {"service_start_date": "self.now", "date_last_update": "self.now", "service_time": "self.get_service_time(%s)" % tok, "time_left": "%s.service_time" % tok, "with_server": "True"}
                S_ = want["service_time"]
                st_v, tl_v = got.get("service_time"), got.get("time_left")
                both_sampled = (st_v == S_ and tl_v in (S_, "%s.service_time" % tok)) or (tl_v == S_ and st_v in (S_, "%s.time_left" % tok))
                for k, v in want.items():
                    if k in ("time_left", "service_time") and both_sampled:
                        continue        # one sampled requirement stored into both fields, in either order
                    if got.get(k) != v:
                        ctx.violation(ob, "R7.ps-start", "PSNode.%s" % m, "%s.%s = %s" % (tok, k, got.get(k)), "ps-start-bookkeeping",
                                      "a PS service start must set %s = %s (work accounting starts from the full requirement at this instant)" % (k, v), evs[i].where, rules.witness(st))
    # accept: a newcomer that must wait is flagged with_server = False
    cls, fn = view.method("begin_service_if_possible_accept")
    tok = fn.args.args[1].arg
    first = [s for s in fn.body if isinstance(s, ast.Assign)]
    txt = [unparse(s) for s in first]
    ob.ok("accept:flags")
    if "%s.with_server = False" % tok not in txt or "%s.arrival_date = self.now" % tok not in txt:
        ctx.violation(ob, "R7.ps-start", "PSNode.begin_service_if_possible_accept", "; ".join(txt), "ps-arrival-bookkeeping", "an arriving customer gets arrival_date = now and with_server = False before the capacity test", loc(fn))


def stale_configuration(ctx, P, view):
    """PSNode.__init__ calls Node.__init__ and only then turns the server count into the sharing capacity (c = inf).  Anything Node.__init__ derives from
    self.c is computed for the ordinary node; a newly introduced cached predicate of that kind (`self.has_servers = not isinf(self.c)`) is wrong for
    every PS node afterwards -- the serverless end-of-service scan is then never run and no customer ever leaves."""
    from ..anchors import ANCHOR_NODE_ATTRS
    ob = ctx.ob("PSCFG", "nothing newly cached in Node.__init__ from self.c / self.slotted survives PSNode.__init__'s rewrite of self.c")
    ps = P.classes.get("PSNode")
    if ps is None or "__init__" not in ps.methods:
        ctx.unrecognised("PSCFG: PSNode.__init__ not found")
        return
    pinit = ps.methods["__init__"]
    body = [s for s in pinit.body if not (isinstance(s, ast.Expr) and isinstance(s.value, ast.Constant))]
    sup = [i for i, s in enumerate(body) if isinstance(s, ast.Expr) and isinstance(s.value, ast.Call) and "__init__" in unparse(s.value.func) and "super" in unparse(s.value.func)]
    cw = [i for i, s in enumerate(body) if isinstance(s, ast.Assign) and any(unparse(t) == "self.c" for t in s.targets)]
    ob.ok("PSNode.__init__", "super().__init__ at %s, self.c rewritten at %s" % (sup, cw))
    if not sup or not cw or not (sup[0] < cw[0]):
        return          # the rewrite precedes the base constructor (or is gone): nothing can go stale
    rewritten_later = {t.attr for s in body[sup[0] + 1:] for x in ast.walk(s) if isinstance(x, ast.Assign) for t in x.targets if isinstance(t, ast.Attribute) and unparse(t.value) == "self"}
    ninit = P.view("Node").method("__init__")[1]
    for x in rules.walk(P, P.view("Node"), ninit):
        if isinstance(x, ast.Assign):
            for t in x.targets:
                if isinstance(t, ast.Attribute) and unparse(t.value) == "self" and t.attr not in ANCHOR_NODE_ATTRS and t.attr not in rewritten_later:
                    reads = {y.attr for y in ast.walk(x.value) if isinstance(y, ast.Attribute) and unparse(y.value) == "self"}
                    if "c" in reads:
                        ctx.violation(ob, "R5.derived", "Node.__init__", unparse(x)[:90], "cached-from-c-before-ps-rewrite",
                                      "self.%s is computed from self.c in Node.__init__, but PSNode.__init__ sets self.c = inf afterwards and does not recompute it: at a "
                                      "processor-sharing node it keeps the value for a node with server objects" % t.attr, loc(x))


def _start_condition(P, view, cls, fn, want, ob, label):
    """the condition under which a path of fn starts a service (sets <x>.with_server = True) must be exactly `want`: every starting path implies it and
    every other path implies its negation.  -> None, or the text of the offending path condition"""
    w = Walker(P, view, keep=lambda e: e.kind == "guard" or (e.kind == "assign" and e.d["target"].endswith(".with_server") and e.d["value"] == "True"),
               track=lambda t, f: True, inline=rules.new_helper)
    n = 0
    for st in w.paths_of(cls, fn):
        if st.status == "raise":
            continue
        n += 1
        starts = [i for i, e in enumerate(st.events) if e.kind == "assign"]
        gs = [e for e in (st.events[:starts[0]] if starts else st.events) if e.kind == "guard"]
        pcs = [e.d["formula"] if e.pol else guards.neg(e.d["formula"]) for e in gs]
        pc = ("and", tuple(pcs)) if pcs else ("const", True)
        ob.ok("%s:%s:%s" % (label, "start" if starts else "wait", guards.show(pc)))
        okk = guards.implies(pc, want if starts else guards.neg(want))[0]
        if not okk:
            return "%s under %s" % ("start" if starts else "no start", guards.show(pc))
    return None if n else "?"


def capacity(ctx, P, view):
    ob = ctx.ob("PSCAP", "newcomer starts iff population <= ps_capacity (population already includes it); at a departure the customer at index ps_capacity - 1 starts iff population >= ps_capacity")
    cls, fn = view.method("begin_service_if_possible_accept")
    bad = _start_condition(P, view, cls, fn, ("not", ("lt", "self.ps_capacity", "self.number_of_individuals")), ob, "accept-guard")
    if bad:
        ctx.violation(ob, "R5.ps-capacity", "PSNode.begin_service_if_possible_accept", bad, "ps-capacity-guard",
                      "a newcomer shares the server iff number_of_individuals <= ps_capacity (at most the sharing capacity are served at once)", loc(fn))
    # population already counts the newcomer: Node.accept increments before dispatch
    acls, afn = view.method("accept")
    w = Walker(P, view, keep=lambda e: (e.kind == "aug" and e.d["target"] == "self.number_of_individuals") or (e.kind == "call" and e.d["meth"] == "begin_service_if_possible_accept"), inline=rules.new_helper)
    for st in w.paths_of(acls, afn):
        kinds = [e.kind for e in st.events]
        ob.ok("accept-order:%s" % kinds)
        if kinds != ["aug", "call"]:
            ctx.violation(ob, "R5.ps-capacity", "%s.accept" % acls.name, " -> ".join(x.text for x in st.events), "population-not-counted-before-test",
                          "the PS capacity test `<=` assumes the newcomer is already counted in number_of_individuals", loc(afn), rules.witness(st))
    cls, fn = view.method("begin_service_if_possible_release")
    bad = _start_condition(P, view, cls, fn, ("not", ("lt", "self.number_of_individuals", "self.ps_capacity")), ob, "release-guard")
    if bad:
        ctx.violation(ob, "R5.ps-capacity", "PSNode.begin_service_if_possible_release", bad, "ps-capacity-guard",
                      "after a departure a waiting customer starts iff number_of_individuals >= ps_capacity (someone is still waiting)", loc(fn))
    # who starts: the customer whose service_start_date is set on the release path (a local or a helper's parameter is read through)
    w = Walker(P, view, keep=lambda e: e.kind == "assign" and e.d["target"].endswith(".service_start_date"), inline=rules.new_helper)
    toks = set()
    for st in w.paths_of(cls, fn):
        for e in st.events:
            toks.add(e.d["target"][: -len(".service_start_date")].replace(" ", "").strip("()"))
    got = sorted(toks)[0] if len(toks) == 1 else "?" if not toks else "; ".join(sorted(toks))
    ob.ok("fcfs-pick", got)
    if got != "self.all_individuals[self.ps_capacity-1]":
        ctx.violation(ob, "R5.ps-capacity", "PSNode.begin_service_if_possible_release", got, "fcfs-pick", "the next customer to share the server is the first-come-first-served one, all_individuals[ps_capacity - 1]", loc(fn))
    # release runs the dispatch after the removal (population no longer counts the leaver)
    rcls, rfn = view.method("release")
    w = Walker(P, view, keep=lambda e: (e.kind == "aug" and e.d["target"] == "self.number_of_individuals") or (e.kind == "call" and e.d["meth"] == "begin_service_if_possible_release"), inline=rules.new_helper, literal_args={"reroute": "False"})
    for st in w.paths_of(rcls, rfn):
        kinds = [e.kind for e in st.events]
        if kinds != ["aug", "call"]:
            ctx.violation(ob, "R5.ps-capacity", "%s.release" % rcls.name, " -> ".join(x.text for x in st.events), "population-not-updated-before-test",
                          "the PS departure test `>=` assumes the leaver is no longer counted", loc(rfn), rules.witness(st))


def _factors(n):
    """product/quotient tree -> (numerator factor list, denominator factor list) of normalised factor strings"""
    if isinstance(n, ast.BinOp) and isinstance(n.op, ast.Mult):
        a, b = _factors(n.left), _factors(n.right)
        return a[0] + b[0], a[1] + b[1]
    if isinstance(n, ast.BinOp) and isinstance(n.op, ast.Div):
        a, b = _factors(n.left), _factors(n.right)
        return a[0] + b[1], a[1] + b[0]
    if isinstance(n, ast.Call) and isinstance(n.func, ast.Name) and n.func.id == "max" and len(n.args) == 2:
        return ["max(" + ",".join(sorted(unparse(a) for a in n.args)) + ")"], []
    return [unparse(n)], []


def _cancel(num, den):
    num, den = list(num), list(den)
    for f in list(num):
        if f in den:
            num.remove(f)
            den.remove(f)
    return sorted(num), sorted(den)


def rate(ctx, P, view):
    ob = ctx.ob("RATE", "update_all_service_end_dates: credited work = dt * threshold / max(k_last, threshold); projected duration = time_left * max(k_next, threshold) / threshold -- inverse rate functions; bookkeeping of period, time_left, occupancies")
    cls, fn = view.method("update_all_service_end_dates")
    # temporaries that merely name now / the threshold / an occupancy-derived load are read through; the new occupancy keeps its name (its role is checked)
    fn = rules.inline_stable_locals(fn, keep=lambda k, v: unparse(v).replace(" ", "") in ("min(self.number_of_individuals,self.ps_capacity)", "min(self.ps_capacity,self.number_of_individuals)"))
    asg = {}
    for x in ast.walk(fn):
        if isinstance(x, ast.Assign) and len(x.targets) == 1:
            asg.setdefault(unparse(x.targets[0]), []).append(x)
    problems = []
    loops = [x for x in ast.walk(fn) if isinstance(x, ast.For)]
    var = unparse(loops[0].target) if loops else "ind"
    # roles are found by data flow, not by name
    share = None          # the local subtracted from time_left
    direct = []           # ... or the expressions subtracted directly (`ind.time_left -= <work>` in each branch)
    for x in ast.walk(fn):
        sub = None
        if isinstance(x, ast.AugAssign) and unparse(x.target) == var + ".time_left" and isinstance(x.op, ast.Sub):
            sub = x.value
        if isinstance(x, ast.Assign) and unparse(x.targets[0]) == var + ".time_left" and isinstance(x.value, ast.BinOp) and isinstance(x.value.op, ast.Sub) \
                and unparse(x.value.left) == var + ".time_left":
            sub = x.value.right
        if isinstance(sub, ast.Name):
            share = sub.id
        elif sub is not None:
            direct.append(sub)
    if share is None and not direct:
        problems.append(("time-left", "time_left must be reduced by exactly the credited work"))
    ptxt = "self.simulation.current_time - %s.date_last_update" % var
    period = [k for k, v in asg.items() if len(v) == 1 and unparse(v[0].value).replace(" ", "") == ptxt.replace(" ", "")]
    if not period and any(unparse(y) == ptxt for d_ in direct + [v_.value for v_ in asg.get(share or "?", [])] for y in ast.walk(d_)):
        period = [ptxt]         # the period is written where it is used
    if len(period) != 1:
        problems.append(("period", "the elapsed period must be now - ind.date_last_update"))
    nxt = [k for k, v in asg.items() if len(v) == 1 and unparse(v[0].value).replace(" ", "") in ("min(self.number_of_individuals,self.ps_capacity)", "min(self.ps_capacity,self.number_of_individuals)")]
    if len(nxt) != 1:
        problems.append(("occupancy", "the sharing level is min(population, ps_capacity)"))
    period, nxt = (period[0] if period else "?"), (nxt[0] if nxt else "?")
    # progress
    shares = [x.value for x in asg.get(share or "?", [])] if share is not None else direct
    prog = [v for v in shares if not isinstance(v, ast.Constant)]
    zero = [v for v in shares if isinstance(v, ast.Constant) and v.value == 0]
    rate_num = rate_den = None
    if len(prog) != 1:
        problems.append(("progress", "credited work expression not found"))
    else:
        num, den = _factors(prog[0])
        if period not in num:
            problems.append(("progress", "credited work must be proportional to the elapsed period"))
        else:
            num.remove(period)
            rate_num, rate_den = _cancel(num, den)
        # credited iff last_occupancy > 0 (else 0): semantic test of the enclosing branch
        p, child = prog[0], prog[0]
        while p is not fn and not isinstance(p, ast.If):
            child, p = p, p._parent
        okg = False
        if isinstance(p, ast.If) and zero:
            f = guards.norm(p.test, unparse)
            facts = {}
            in_body = any(child is y or any(child is z for z in ast.walk(y)) for y in p.body)
            guards.assume(f, in_body, facts)
            # (`>= 0` is the same guard: with last_occupancy == 0 nobody was in service, so every period credited is 0)
            okg = facts.get(("lt", "0", "self.last_occupancy")) is True or facts.get(("lt", "self.last_occupancy", "0")) is False
        if not okg:
            problems.append(("progress-guard", "work is credited iff last_occupancy > 0 (else 0)"))
    # projection
    ends = asg.get(var + ".service_end_date", [])
    end = ends[0].value if ends else None
    proj_num = proj_den = None
    if not (isinstance(end, ast.BinOp) and isinstance(end.op, ast.Add) and unparse(end.left) == "self.simulation.current_time"):
        problems.append(("projection", "service_end_date must be now + projected remaining duration"))
    else:
        num, den = _factors(end.right)
        if var + ".time_left" not in num:
            problems.append(("projection", "the projected duration must be proportional to time_left"))
        else:
            num.remove(var + ".time_left")
            proj_num, proj_den = _cancel(num, den)
    if rate_num is not None and proj_num is not None:
        ren = lambda fs: sorted(f.replace(nxt, "K").replace("self.last_occupancy", "K") for f in fs)
        ob.ok("rate=%s/%s" % (ren(rate_num), ren(rate_den)), "rate = %s / %s ; projection factor = %s / %s" % (rate_num, rate_den, proj_num, proj_den))
        if ren(rate_num) != ren(proj_den) or ren(rate_den) != ren(proj_num):
            problems.append(("rate-mismatch", "progress rate %s/%s and projection factor %s/%s are not inverse to each other: work credited and work projected disagree" % (rate_num, rate_den, proj_num, proj_den)))
        want_num, want_den = ["self.ps_threshold"], ["max(K,self.ps_threshold)"]
        if ren(rate_num) != want_num or ren(rate_den) != want_den:
            problems.append(("rate-form", "the service rate must be threshold / max(k, threshold) (= min(1, threshold / k)); found %s / %s" % (rate_num, rate_den)))
        if not any("self.last_occupancy" in f for f in rate_den) or not any(nxt in f for f in proj_num):
            problems.append(("occupancy-roles", "work for the elapsed period uses the occupancy of that period (last_occupancy); the projection uses the new one"))
    lo = asg.get("self.last_occupancy", [])
    if not lo or unparse(lo[-1].value) != nxt or any(isinstance(a, ast.For) for a in _ancestors(lo[-1], fn)):
        problems.append(("occupancy-advance", "last_occupancy must become the new occupancy after all customers were updated"))
    dl = asg.get(var + ".date_last_update", [])
    if not dl or unparse(dl[0].value) != "self.simulation.current_time":
        problems.append(("period-advance", "each customer's date_last_update must be set to now"))
    # only customers with_server
    okf = False
    if loops:
        src = loops[0].iter
        comp = src if isinstance(src, ast.ListComp) else (asg.get(unparse(src), [None])[0].value if asg.get(unparse(src)) else None)
        if isinstance(comp, ast.ListComp) and len(comp.generators) == 1:
            g = comp.generators[0]
            okf = unparse(g.iter) == "self.all_individuals" and unparse(comp.elt) == unparse(g.target) and len(g.ifs) == 1 and guards.norm(g.ifs[0], unparse) == ("truth", "%s.with_server" % unparse(g.target))
    if not okf and loops and unparse(loops[0].iter) == "self.all_individuals" and isinstance(loops[0].target, ast.Name):
        # the same filter written inside the loop: `if not v.with_server: continue` first, or the whole body under `if v.with_server:`
        v_ = loops[0].target.id
        body_ = [s_ for s_ in loops[0].body if not isinstance(s_, ast.Pass)]
        if body_ and isinstance(body_[0], ast.If):
            f_ = guards.norm(body_[0].test, unparse)
            only_continue = len(body_[0].body) == 1 and isinstance(body_[0].body[0], ast.Continue) and not body_[0].orelse
            if only_continue and f_ == ("not", ("truth", "%s.with_server" % v_)):
                okf = True
            if len(body_) == 1 and not body_[0].orelse and f_ == ("truth", "%s.with_server" % v_):
                okf = True
    if not okf:
        problems.append(("in-service-filter", "exactly the customers flagged with_server share the server"))
    # every call re-projects: no early exit, the per-customer loop is not conditional
    for r_ in [x for x in ast.walk(fn) if isinstance(x, (ast.Return, ast.Raise))]:
        problems.append(("early-exit", "update_all_service_end_dates must always re-project (an early `%s` leaves a customer that has just started without an end date)" % unparse(r_)))
    if loops and any(isinstance(a_, (ast.If, ast.While)) for a_ in _ancestors(loops[0], fn)):
        problems.append(("conditional-reprojection", "the re-projection loop must run on every call"))
    ob.ok("bookkeeping")
    for reason, msg in problems:
        ctx.violation(ob, "R5.ps-rate", "PSNode.update_all_service_end_dates", reason, reason, msg, loc(fn))


def _ancestors(n, stop):
    p = getattr(n, "_parent", None)
    while p is not None and p is not stop:
        yield p
        p = getattr(p, "_parent", None)
