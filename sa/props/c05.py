"""C05 Work conservation (DESIGN §4 C05): capacity/demand change => dispatch on every path (R4 must-follow);
dispatch unconditional beyond 'a server is free and a customer is waiting' (R5); zero wait on a free server."""
import ast

from .. import guards, rules
from ..model import AnalysisError, call_name, loc, unparse
from ..paths import Walker
from ..rules import family_views, listop, witness, facts_text

EXPLANATION = (
    "Static must-follow analysis over all paths of the Node-family views: whenever a server object is freed (detatch_server in release / preempt), "
    "added (add_new_servers) or a customer joins the queue (append in accept), the matching dispatch routine runs before the handler returns, with "
    "that very server; a release with reroute=True hands the obligation to its callers, which re-attach or kill the server. Inside the four dispatch "
    "routines every guard between entry and a service start uses only the vocabulary {server is free / exists, chosen customer is not None, "
    "interrupted customers first, configuration flags}: no extra condition can leave a free server idle while someone waits. Service start and "
    "arrival dates on the immediate-start path are both `now`. These put an unconditional dispatch behind every event that can break "
    "'waiting customer => all servers busy'; the instant-by-instant occupancy itself is not observed.")
RULE = "instances = capacity/demand-changing events and service-start sites found on the tree, evaluated on all paths of all Node-family views"

DISPATCH = ("begin_service_if_possible_accept", "begin_service_if_possible_release", "begin_service_if_possible_change_shift",
            "begin_interrupted_individuals_service")


def check(ctx):
    P = ctx.program
    iters = (0, 1)
    views = family_views(P, "Node")
    must_follow(ctx, P, views, iters)
    unconditional(ctx, P, views, iters)
    free_server_search(ctx, P, views, iters)
    restart_attaches(ctx, P, views, iters)
    # the customer must arrive at the next node as a waiting customer (no stale server marker), or that node's dispatch does not see it (shared instance)
    from . import c01
    c01.no_touch_after_handover(ctx, P, views, iters)
    ctx.assume("built-in disciplines only (custom service disciplines are excluded by the property)")


def must_follow(ctx, P, views, iters):
    ob = ctx.ob("MF", "freed/added server or new waiting customer => the dispatch routine runs later on the same path (with that server)")
    done = set()

    def viol(cls, m, construct, reason, msg, where, st):
        if (cls.name, m, reason) in done:
            return
        done.add((cls.name, m, reason))
        ctx.violation(ob, "R4.dispatch", "%s.%s" % (cls.name, m), construct, reason, msg, where, witness(st))

    n_inst = 0
    for view in views:
        # (a) release[not reroute]: detatch_server(S, _) => begin_service_if_possible_release(_, S)
        cls, fn = view.method("release")
        for lits in ({"reroute": "False"}, {"reroute": "True"}):
            w = Walker(P, view, keep=lambda e: e.kind == "call" and e.d["meth"] in ("detatch_server", "begin_service_if_possible_release", "accept") and e.d["recv"] in ("self", None) or
                       (e.kind == "call" and e.d["meth"] == "accept"),
                       inline=rules.new_helper, literal_args=lits, loop_iters=iters)
            for st in w.paths_of(cls, fn):
                if st.status == "raise":
                    continue
                det = [e for e in st.events if e.d["meth"] == "detatch_server"]
                dis = [e for e in st.events if e.d["meth"] == "begin_service_if_possible_release"]
                for d in det:
                    n_inst += 1
                    srv = d.d["args"][0] if d.d["args"] else "?"
                    after = [x for x in dis if st.events.index(x) > st.events.index(d)]
                    ob.ok("%s.release[%s]:detach" % (view.name, lits["reroute"]), "%s.release[reroute=%s]: %s" % (view.name, lits["reroute"], " -> ".join(x.text for x in st.events)))
                    if lits["reroute"] == "False":
                        if not after:
                            viol(cls, "release", d.text, "no-dispatch-after-detach", "a server is freed but begin_service_if_possible_release is not called afterwards: a waiting customer would not start", d.where, st)
                        elif all((x.d["args"] + ["?", "?"])[1] != srv and x.d["kw"].get("newly_free_server") != srv for x in after):
                            viol(cls, "release", after[0].text, "dispatch-other-server", "the dispatch routine is not given the server that was just freed (%s)" % srv, after[0].where, st)
                # dispatch happens before the hand-over (a self-loop customer must not grab the server first) is NOT demanded: order is free
        # (e) callers of reroute inherit the obligation: attach or kill the server
        r = view.resolve("preempt")
        if r:
            cls, fn = r
            w = Walker(P, view, keep=lambda e: e.kind == "call" and e.d["meth"] in ("detatch_server", "attach_server", "reroute") and e.d["recv"] == "self",
                       inline=rules.new_helper, loop_iters=iters)
            for st in w.paths_of(cls, fn):
                if st.status == "raise":
                    continue
                frees = [e for e in st.events if e.d["meth"] in ("detatch_server", "reroute")]
                att = [e for e in st.events if e.d["meth"] == "attach_server"]
                ob.ok("%s.preempt" % view.name, "%s.preempt: %s" % (view.name, " -> ".join(x.text for x in st.events)))
                n_inst += len(frees)
                if frees and not [a for a in att if st.events.index(a) > st.events.index(frees[-1])]:
                    viol(cls, "preempt", frees[-1].text, "no-attach-after-detach", "the victim's server is freed but not given to the pre-empting customer", frees[-1].where, st)
        r = view.resolve("take_servers_off_duty")
        if r:
            cls, fn = r
            COPIES = ("self.servers[::1]", "self.servers[:]", "list(self.servers)", "self.servers.copy()")
            w = Walker(P, view, keep=lambda e: (e.kind == "call" and e.d["meth"] in ("interrupt_service", "kill_server")) or e.kind in ("iter", "loopexit") or
                       (e.kind == "assign" and e.d.get("local") and e.d["value"].replace(" ", "") in COPIES), inline=rules.new_helper, loop_iters=iters, track=lambda t, f: False)
            for st in w.paths_of(cls, fn):
                ints = [e for e in st.events if e.kind == "call" and e.d["meth"] == "interrupt_service"]
                if not ints or st.status == "raise":
                    continue
                n_inst += 1
                copies = [e for e in st.events if e.kind == "assign"]
                names = tuple(unparse(e.d["target_node"]) for e in copies)
                killloop = [e for e in st.events if e.kind in ("iter", "loopexit") and isinstance(e.node, ast.For)
                            and unparse(e.node.iter).replace(" ", "") in COPIES + names
                            and any(isinstance(k, ast.Call) and call_name(k) == "kill_server" and k.args and unparse(k.args[0]) == unparse(e.node.target) for k in ast.walk(e.node))]
                ob.ok("%s.take_servers_off_duty:preemptive" % view.name)
                if not killloop:
                    viol(cls, "take_servers_off_duty", "interrupt_service without killing all servers", "interrupted-server-survives",
                         "pre-emptive shift end: every server (copy of self.servers) must be killed after its customer is interrupted", ints[0].where, st)
        # (c) change_shift: add_new_servers => begin_service_if_possible_change_shift
        r = view.resolve("change_shift")
        if r:
            cls, fn = r
            w = Walker(P, view, keep=lambda e: e.kind == "call" and e.d["meth"] in ("add_new_servers", "begin_service_if_possible_change_shift", "take_servers_off_duty"),
                       inline=rules.new_helper, loop_iters=iters)
            for st in w.paths_of(cls, fn):
                if st.status == "raise":
                    continue
                ms = [e.d["meth"] for e in st.events]
                ob.ok("%s.change_shift:%s" % (view.name, ">".join(ms)), "%s.change_shift: %s" % (view.name, " -> ".join(ms)))
                n_inst += 1
                if "add_new_servers" not in ms:
                    viol(cls, "change_shift", " -> ".join(ms), "no-new-servers", "a shift change must bring the scheduled servers on duty", loc(fn), st)
                elif "begin_service_if_possible_change_shift" not in ms[ms.index("add_new_servers"):]:
                    viol(cls, "change_shift", " -> ".join(ms), "no-dispatch-after-add", "servers are added but waiting customers are not dispatched to them", loc(fn), st)
                if "take_servers_off_duty" in ms and "add_new_servers" in ms and ms.index("take_servers_off_duty") > ms.index("add_new_servers"):
                    viol(cls, "change_shift", " -> ".join(ms), "retire-after-add", "old servers must be retired before the new ones are added (both go through self.servers)", loc(fn), st)
        # (d) accept: append => begin_service_if_possible_accept
        cls, fn = view.method("accept")
        w = Walker(P, view, keep=lambda e: e.kind == "call" and (e.d["meth"] == "begin_service_if_possible_accept" or (listop(e) and listop(e)[2] == "individuals")),
                   inline=rules.new_helper, loop_iters=iters)
        for st in w.paths_of(cls, fn):
            if st.status == "raise":
                continue
            ms = [e.d["meth"] for e in st.events]
            n_inst += 1
            ob.ok("%s.accept:%s" % (view.name, ">".join(ms)), "%s.accept: %s" % (view.name, " -> ".join(x.text for x in st.events)))
            if "append" in ms and "begin_service_if_possible_accept" not in ms[ms.index("append"):]:
                viol(cls, "accept", " -> ".join(ms), "no-dispatch-after-arrival", "a customer joins the queue but the dispatch routine is not run: it would wait although a server is free", loc(fn), st)
    ctx.floor("capacity/demand events", n_inst, 8)


def _vocab_ok(a):
    k = a[0]
    if k == "isnone":
        return "." not in a[1] and "(" not in a[1]
    if k == "isinf":
        return a[1] == "self.c"
    if k == "in":
        return a[2] == "self.servers" and "." not in a[1]
    if k == "lt":
        return (a[1], a[2]) in (("0", "self.number_interrupted_individuals"), ("0", "self.c"))
    if k == "truth":
        return a[1] in ("self.reneging", "self.dynamic_classes", "self.slotted", "self.priority_preempt", "self.schedule") or a[1].endswith(".is_blocked")
    if k == "eq":
        return set(a[1:]) & {"self.next_class_change_ind"} != set() or "self.priority_preempt" in a[1:] or "self.schedule.preemption" in a[1:]
    return False


def unconditional(ctx, P, views, iters):
    ob = ctx.ob("UNC", "dispatch routines: every guard on a path to a service start is 'server free/alive', 'customer chosen', 'interrupted first' or a configuration flag")
    ob2 = ctx.ob("ZW", "a service start in a dispatch routine sets service_start_date = now; a start on the accept path has arrival_date = now too (zero wait on a free server)")
    done = set()
    starts = 0
    for view in views:
        for m in DISPATCH:
            r = view.resolve(m)
            if r is None:
                ctx.unrecognised("UNC: dispatch routine %s not found in view %s" % (m, view.name))
                continue
            cls, fn = r
            if cls.name == "PSNode":
                continue        # processor-sharing overrides: no server objects, outside C05 ("a node with servers"); see C19

            def keep(e):
                if e.kind == "guard":
                    return True
                if e.kind == "assign" and not e.d.get("local"):
                    return e.d["target"].endswith(".service_start_date") or e.d["target"].endswith(".arrival_date")
                return e.kind == "call" and e.d["meth"] in ("begin_interrupted_individuals_service", "attach_server", "decide_preempt")
            w = Walker(P, view, keep=keep, track=lambda t, f: f.depth == 0,
                       inline=lambda ev: ev.d["meth"] in ("give_individual_a_service_time",), loop_iters=iters)
            for st in w.paths_of(cls, fn):
                if st.status == "raise":
                    continue
                for i, e in enumerate(st.events):
                    is_start = (e.kind == "assign" and e.d["target"].endswith(".service_start_date")) or (e.kind == "call" and e.d["meth"] == "begin_interrupted_individuals_service")
                    if not is_start:
                        continue
                    starts += 1
                    bad = []
                    for g in st.events[:i]:
                        if g.kind == "guard":
                            for a in guards.atoms(g.d["formula"]):
                                if not _vocab_ok(a):
                                    bad.append((a, g))
                    ob.ok("%s.%s:%s" % (cls.name, m, e.text[:40]), "%s.%s: start `%s` under [%s]" % (view.name, m, e.text[:50], "; ".join(x.text for x in st.events[:i] if x.kind == "guard")))
                    for a, g in bad:
                        key = (cls.name, m, guards.show(a))
                        if key in done:
                            continue
                        done.add(key)
                        ctx.violation(ob, "R5.dispatch-unconditional", "%s.%s" % (cls.name, m), guards.show(a), "extra-condition",
                                      "a service start in %s depends on `%s`, which is not one of: a server is free/alive, a customer was chosen, interrupted customers first, "
                                      "configuration flag -- a free server could idle while a customer waits" % (m, guards.show(a)), g.where, witness(st))
                    if e.kind == "assign":
                        if e.d["value"] != "self.now" and (cls.name, m, "start-not-now") not in done:
                            done.add((cls.name, m, "start-not-now"))
                            ctx.violation(ob2, "R7.start-now", "%s.%s" % (cls.name, m), e.text, "start-not-now", "a service started by a dispatch routine starts at the current instant", e.where, witness(st))
                        else:
                            ob2.ok("%s.%s:start-now" % (cls.name, m))
                        if m == "begin_service_if_possible_accept":
                            arr = [x for x in st.events[:i] if x.kind == "assign" and x.d["target"].endswith(".arrival_date")]
                            if not arr or arr[-1].d["value"] != "self.now":
                                if (cls.name, m, "arrival-not-now") not in done:
                                    done.add((cls.name, m, "arrival-not-now"))
                                    ctx.violation(ob2, "R7.start-now", "%s.%s" % (cls.name, m), "arrival_date", "arrival-not-now", "arrival_date must be `now` before an immediate start (zero wait)", e.where, witness(st))
    ctx.floor("service start sites in dispatch routines", starts, 4)


def restart_attaches(ctx, P, views, iters):
    """the dispatch routines hand a free server to begin_interrupted_individuals_service when interrupted customers wait: it must put that server to work
    on every path (a silent return leaves the server idle with customers waiting)"""
    ob = ctx.ob("RESTART", "begin_interrupted_individuals_service(srvr) attaches srvr to a customer on every path")
    for view in views:
        if "PSNode" in view.mro:
            continue
        cls, fn = view.method("begin_interrupted_individuals_service")
        srv = fn.args.args[1].arg
        w = Walker(P, view, keep=lambda e: e.kind == "call" and e.d["meth"] == "attach_server", inline=rules.new_helper, loop_iters=iters)
        bad, n = None, 0
        for st in w.paths_of(cls, fn):
            if st.status == "raise":
                continue
            n += 1
            if not any((e.d["args"] + ["?"])[0] == srv for e in st.events):
                bad = bad or st
        ob.ok("%s.begin_interrupted_individuals_service" % view.name, "%d path(s)" % n)
        if bad is not None or n == 0:
            ctx.violation(ob, "R4.must-follow", "%s.begin_interrupted_individuals_service" % cls.name, "attach_server(%s, ...)" % srv, "free-server-not-used",
                          "a path of the restart routine ends without attaching the free server it was given: the server idles although the caller found customers waiting", loc(fn),
                          witness(bad) if bad is not None else None)


def free_server_search(ctx, P, views, iters):
    ob = ctx.ob("FIND", "find_free_server returns a server iff some server of self.servers is not busy: it scans all of them (in priority order if given) and gives up only after the scan or at an infinite-server node")
    done = set()
    for view in views:
        cls, fn = view.method("find_free_server")
        w = Walker(P, view, keep=lambda e: e.kind in ("guard", "return", "iter", "loopexit") or (e.kind == "assign" and e.d.get("local")), track=lambda t, f: True, inline=rules.new_helper, loop_iters=iters)
        n = 0
        for st in w.paths_of(cls, fn):
            if st.status != "return":
                if st.status == "normal":
                    n += 1      # falling off the end returns None after the scan: fine if the scan happened
                continue
            n += 1
            evs = st.events
            ret = [e for e in evs if e.kind == "return"][0]
            facts = rules.path_condition(evs)
            bad = None
            for g in [e for e in evs if e.kind == "guard"]:
                for a in guards.atoms(g.d["formula"]):
                    okv = (a == ("isinf", "self.c")) or (a == ("isnone", "self.server_priority_function")) or (a[0] == "truth" and a[1].endswith(".busy") and "." not in a[1][:-5])
                    if not okv:
                        bad = (a, g)
            loops = [e for e in evs if e.kind in ("iter", "loopexit") and isinstance(e.node, ast.For)]
            val = unparse(ret.d["value_node"]) if ret.d["value_node"] is not None else "None"
            ob.ok("%s:%s" % (view.name, val), "%s.find_free_server: return %s under [%s]" % (view.name, val, "; ".join(x.text for x in evs if x.kind == "guard")))
            reason = None
            if bad:
                reason, msg, where = "extra-condition", "the search for a free server depends on `%s`: a free server may be overlooked while a customer waits" % guards.show(bad[0]), bad[1].where
            elif val == "None":
                scanned = any(e.kind == "loopexit" for e in loops)
                if facts.get(("isinf", "self.c")) is not True and not scanned:
                    reason, msg, where = "gives-up-before-scan", "find_free_server returns None without having looked at every server", ret.where
            else:
                lp = [e for e in loops if e.kind == "iter"]
                okr = bool(lp) and val == unparse(lp[-1].node.target) and facts.get(("truth", val + ".busy")) is False
                if okr:
                    it = lp[-1].node.iter
                    src = unparse(it)
                    defs = {e.d["target"]: e.d["value"] for e in evs if e.kind == "assign"}
                    src = defs.get(src, src).replace(" ", "")
                    okr = src == "self.servers" or src.startswith("sorted(self.servers,")
                if not okr:
                    reason, msg, where = "returns-not-a-free-server", "the server returned must be an element of self.servers tested `not busy`", ret.where
            if reason and (cls.name, reason) not in done:
                done.add((cls.name, reason))
                ctx.violation(ob, "R5.free-server-search", "%s.find_free_server" % cls.name, val if not bad else guards.show(bad[0]), reason, msg, where, witness(st))
        if n < 3:
            ctx.unrecognised("FIND: only %d paths in %s.find_free_server" % (n, view.name))
