"""C18 Deadlock detection -- the structural clauses (DESIGN §4 C18): detector hooks exactly once with the right
arguments, edge direction at blockage, unchecked-blockage flag, first-visit times, time_of_deadlock before the clock
moves, times_to_deadlock arithmetic.  The knot search itself is NOT decided (graph-algorithmic)."""
import ast

from .. import guards, rules
from ..model import AnalysisError, call_name, loc, unparse
from ..paths import Walker
from ..scans import precedes as scans_precedes
from ..rules import family_views, witness

EXPLANATION = (
    "Static analysis of the wiring between node.py, simulation.py and deadlock/deadlock_detector.py: attach_server, detatch_server and "
    "block_individual call their detector hook exactly once on every path with the objects of that operation; Node.__init__ registers the node with "
    "the detector after its servers exist; action_at_blockage adds edges from the blocked customer's server to each server of the destination (direction); "
    "block_individual raises unchecked_blockage; in simulate_until_deadlock every iteration runs the event, records the clock of a state only on its first "
    "visit, calls detect_deadlock whenever the flag is set, takes time_of_deadlock from the clock of the deadlocking event before the clock advances, and "
    "times_to_deadlock is time_of_deadlock minus the first-visit time. Soundness/completeness of the knot search and of the incremental edge maintenance is "
    "a graph-algorithmic argument outside static shape analysis and is not decided.")
EXPLANATION += (" Added later: " 'a one-vertex component is a knot iff set(successors(v)) == {v} (no degree or in-edge test).')
RULE = "instances = hook call sites x paths x Node-family views, and the iteration paths of simulate_until_deadlock"
DD = "self.simulation.deadlock_detector"


def check(ctx):
    P = ctx.program
    iters = (0, 1)
    views = family_views(P, "Node")
    hooks(ctx, P, views, iters)
    edges(ctx, P)
    detector_shape(ctx, P)
    loop(ctx, P, iters)
    # re-entering a run method must not clear the pending-check flag (shared instance: C16's prologue writes nothing but the clock)
    from . import c16
    c16.prologue(ctx, P)
    ctx.assume("the knot search (detect_deadlock) and the incremental edge maintenance are not decided")


def hooks(ctx, P, views, iters):
    ob = ctx.ob("HOOK", "attach_server / detatch_server / block_individual call their detector hook exactly once on every path, with the objects of the operation")
    spec = {"attach_server": ("action_at_attach_server", lambda p: ["self", p[0], p[1]]),
            "detatch_server": ("action_at_detatch_server", lambda p: [p[0]]),
            "block_individual": ("action_at_blockage", lambda p: [p[0], p[1]])}
    done = set()
    for view in views:
        for m, (hook, want) in spec.items():
            cls, fn = view.method(m)
            params = [a.arg for a in fn.args.args][1:]
            w = Walker(P, view, keep=lambda e: e.kind == "call" and e.d.get("recv") == DD, inline=lambda ev: rules.is_private_helper(P, view, ev.d["meth"]) and ev.d["meth"] != "kill_server", loop_iters=iters)
            for st in w.paths_of(cls, fn):
                if st.status == "raise":
                    continue
                hs = [e for e in st.events if e.d["meth"] == hook]
                ob.ok("%s.%s:%d" % (view.name, m, len(hs)), "%s.%s: %s" % (view.name, m, " ; ".join(x.text for x in st.events)))
                reason = None
                if len(hs) != 1 or len(st.events) != 1:
                    reason, msg = "not-exactly-one-hook", "%s must call %s exactly once on every path (found %d detector call(s))" % (m, hook, len(st.events))
                elif hs[0].d["args"] != want(params):
                    reason, msg = "wrong-arguments", "%s called with (%s), expected (%s)" % (hook, ", ".join(hs[0].d["args"]), ", ".join(want(params)))
                if reason and (cls.name, m, reason) not in done:
                    done.add((cls.name, m, reason))
                    ctx.violation(ob, "R2.detector-hook", "%s.%s" % (cls.name, m), hs[0].text if hs else m, reason, msg, hs[0].where if hs else loc(fn), witness(st))
        # flag
        cls, fn = view.method("block_individual")
        w = Walker(P, view, keep=lambda e: e.kind == "assign" and e.d["target"] == "self.simulation.unchecked_blockage", loop_iters=iters)
        for st in w.paths_of(cls, fn):
            if st.status == "raise":
                continue
            ob.ok("%s.block_individual:flag" % view.name)
            if not any(e.d["value"] == "True" for e in st.events) and (cls.name, "flag") not in done:
                done.add((cls.name, "flag"))
                ctx.violation(ob, "R2.detector-hook", "%s.block_individual" % cls.name, "self.simulation.unchecked_blockage = True", "flag-not-set",
                              "a new blockage must request a deadlock check (simulate_until_deadlock only checks when the flag is set)", loc(fn), witness(st))
        # registration after the servers exist
        cls, fn = view.method("__init__")
        w = Walker(P, view, keep=lambda e: (e.kind == "call" and e.d.get("recv") == DD) or (e.kind == "assign" and e.d["target"] in ("self.servers", "self.c")), loop_iters=iters)
        for st in w.paths_of(cls, fn):
            if st.status == "raise":
                continue
            regs = [e for e in st.events if e.kind == "call" and e.d["meth"] == "initialise_at_node"]
            ob.ok("%s.__init__:%d" % (view.name, len(regs)))
            if len(regs) != 1 or regs[0].d["args"] != ["self"]:
                if (cls.name, "reg") not in done:
                    done.add((cls.name, "reg"))
                    ctx.violation(ob, "R2.detector-hook", "%s.__init__" % cls.name, "initialise_at_node(self)", "not-registered", "every node must register itself with the detector exactly once", loc(fn), witness(st))
            else:
                i = st.events.index(regs[0])
                before = [e.d["target"] for e in st.events[:i] if e.kind == "assign"]
                later = [e for e in st.events[i:] if e.kind == "assign" and e.d["target"] == "self.servers"]
                if "self.c" not in before or later:
                    if (cls.name, "regorder") not in done:
                        done.add((cls.name, "regorder"))
                        ctx.violation(ob, "R4.must-precede", "%s.__init__" % cls.name, "initialise_at_node(self)", "registered-before-servers",
                                      "initialise_at_node reads node.c / node.servers: it must run after they are assigned", regs[0].where, witness(st))
    # every detector class implements the hook interface
    for c in P.subclasses("NoDetection"):
        v = P.view(c)
        for m, nargs in (("initialise_at_node", 1), ("detect_deadlock", 0), ("action_at_attach_server", 3), ("action_at_blockage", 2), ("action_at_detatch_server", 1)):
            r = v.resolve(m)
            ob.seen("%s.%s" % (c, m))
            if r is None or len(r[1].args.args) - 1 != nargs:
                ctx.violation(ob, "R12.interface", c, m, "signature-mismatch", "detector %s must implement %s with %d argument(s)" % (c, m, nargs), loc(P.classes[c].node))


def edges(ctx, P):
    ob = ctx.ob("EDGE", "StateDigraph.action_at_blockage adds an edge from the blocked customer's server to every server of the destination node")
    ci = P.classes.get("StateDigraph")
    if ci is None or "action_at_blockage" not in ci.methods:
        raise AnalysisError("StateDigraph.action_at_blockage not found")
    fn = rules.temporaries_free(ci.methods["action_at_blockage"])
    params = [a.arg for a in fn.args.args][1:]
    found = False
    for lp in [x for x in ast.walk(fn) if isinstance(x, ast.For)]:
        tv = unparse(lp.target)
        for c in [x for x in ast.walk(lp) if isinstance(x, ast.Call) and call_name(x) == "add_edge"]:
            found = True
            a = [unparse(x).replace(" ", "") for x in c.args]
            ob.ok("add_edge(%s)" % ", ".join(a), unparse(c))
            if unparse(lp.iter) != "%s.servers" % params[1]:
                ctx.violation(ob, "R5.edge-direction", "StateDigraph.action_at_blockage", unparse(lp.iter), "not-all-destination-servers",
                              "edges must go to every server of the destination node", loc(lp))
            if a != ["str(%s.server)" % params[0], "str(%s)" % tv]:
                ctx.violation(ob, "R5.edge-direction", "StateDigraph.action_at_blockage", unparse(c), "edge-direction",
                              "the wait-for edge must point from the blocked customer's server to the destination's server", loc(c))
    if not found:
        ctx.unrecognised("EDGE: no add_edge loop in StateDigraph.action_at_blockage")
    # vertices are registered by name str(server) for finite nodes
    fn = ci.methods.get("initialise_at_node")
    okk = fn is not None and any(isinstance(x, ast.Call) and call_name(x) == "add_nodes_from" for x in ast.walk(fn))
    ob.ok("initialise_at_node:add_nodes_from")
    if not okk:
        ctx.violation(ob, "R5.edge-direction", "StateDigraph.initialise_at_node", "add_nodes_from", "servers-not-registered", "server vertices must be added when a finite node is created", loc(ci.node))
    # detach removes the edges of that server
    fn = ci.methods.get("action_at_detatch_server")
    txt = unparse(rules.inline_locals(fn, fn)) if fn else ""
    ob.ok("action_at_detatch_server:remove_edges")
    if "remove_edges_from" not in txt or "in_edges(str(server))" not in txt.replace(" ", "") or "out_edges(str(server))" not in txt.replace(" ", ""):
        ctx.violation(ob, "R5.edge-direction", "StateDigraph.action_at_detatch_server", "remove_edges_from(in_edges + out_edges)", "edges-not-removed",
                      "when a server is detached every wait-for edge from and to it must go", loc(fn) if fn else loc(ci.node))


def detector_shape(ctx, P):
    ob = ctx.ob("DETP", "detect_deadlock is a pure function of the state digraph (no memo, no early exit before the component scan); action_at_attach_server re-adds edges for every entry of the node's blocked queue")
    ci = P.classes["StateDigraph"]
    fn = ci.methods.get("detect_deadlock")
    fn = rules.temporaries_free(fn) if fn is not None else None
    if fn is None:
        raise AnalysisError("StateDigraph.detect_deadlock not found")
    writes = [x for x in ast.walk(fn) if isinstance(x, (ast.Assign, ast.AugAssign)) and any(isinstance(t, ast.Attribute) for t in (x.targets if isinstance(x, ast.Assign) else [x.target]))]
    dview = P.view("StateDigraph")
    # (newly extracted helpers are read through; calling a method of the detector is not reading state)
    reads = sorted(set(y.attr for y in rules.walk(P, dview, fn) if isinstance(y, ast.Attribute) and isinstance(y.value, ast.Name) and y.value.id == "self"
                       and (dview.resolve(y.attr) is None or dview.is_property(y.attr))))
    writes = [x for x in rules.walk(P, dview, fn) if isinstance(x, (ast.Assign, ast.AugAssign)) and any(isinstance(t, ast.Attribute) for t in (x.targets if isinstance(x, ast.Assign) else [x.target]))]
    ob.ok("detect_deadlock:reads=%s" % reads, "detect_deadlock reads self.%s, writes nothing" % reads)
    for w_ in writes:
        ctx.violation(ob, "R10.detector-pure", "StateDigraph.detect_deadlock", unparse(w_)[:80], "detector-has-state",
                      "detect_deadlock stores state between calls: a cached answer can be stale (same servers blocked, different destinations)", loc(w_))
    if reads != ["statedigraph"]:
        ctx.violation(ob, "R10.detector-pure", "StateDigraph.detect_deadlock", "reads self.%s" % reads, "detector-reads-other-state",
                      "the verdict must depend on the wait-for graph only", loc(fn))
    scan = [x for x in ast.walk(fn) if isinstance(x, ast.For) and "strongly_connected_components(self.statedigraph)" in unparse(x.iter)]
    single = {}
    for x in ast.walk(fn):
        if isinstance(x, ast.Assign) and len(x.targets) == 1 and isinstance(x.targets[0], ast.Name):
            single.setdefault(x.targets[0].id, []).append(x.value)
    def iter_text(it):      # `components = nx.strongly_connected_components(...)` named once and iterated
        if isinstance(it, ast.Name) and len(single.get(it.id, [])) == 1:
            return unparse(single[it.id][0])
        return unparse(it)
    scan = [x for x in ast.walk(fn) if isinstance(x, ast.For) and "strongly_connected_components(self.statedigraph)" in iter_text(x.iter)]
    comp_scan = [x for x in rules.walk(P, dview, fn) if isinstance(x, ast.comprehension) and "strongly_connected_components(self.statedigraph)" in iter_text(x.iter)]
    if not scan and comp_scan:
        # any(... for c in strongly_connected_components(...)): the scan is one expression; no answer may be given before its statement
        own = [c for c in comp_scan if any(c is y for y in ast.walk(fn))]
        for c in own[:1]:
            for r in [x for x in ast.walk(fn) if isinstance(x, ast.Return)]:
                if not any(c is y for y in ast.walk(r)) and scans_precedes(fn, r, c):
                    ctx.violation(ob, "R10.detector-pure", "StateDigraph.detect_deadlock", unparse(r), "early-exit-before-scan", "the detector answers before it has looked at the graph", loc(r))
    elif not scan:
        ctx.violation(ob, "R10.detector-pure", "StateDigraph.detect_deadlock", "component scan", "no-component-scan", "the knot search must examine the strongly connected components of the digraph", loc(fn))
    else:
        for r in [x for x in ast.walk(fn) if isinstance(x, ast.Return)]:
            if scans_precedes(fn, r, scan[0]):
                ctx.violation(ob, "R10.detector-pure", "StateDigraph.detect_deadlock", unparse(r), "early-exit-before-scan", "the detector answers before it has looked at the graph", loc(r))
    # inside the component loop only a positive answer may return: one component that is not a knot says nothing about the others
    for lp in scan:
        for r in [x for x in ast.walk(lp) if isinstance(x, ast.Return)]:
            if not (isinstance(r.value, ast.Constant) and r.value.value is True):
                ctx.violation(ob, "R10.detector-pure", "StateDigraph.detect_deadlock", unparse(r)[:80], "negative-answer-before-all-components",
                              "the search returns from inside the loop over the strongly connected components with an answer that may be False: a deadlock in a later "
                              "component is then missed", loc(r))
    # a component of one vertex is a knot iff that vertex's only way out is the loop onto itself: successors(v) == {v}.  (Incoming edges do not matter: other
    # servers may wait for a server that waits for itself.)
    singles = []
    for x in rules.walk(P, dview, ci.methods["detect_deadlock"]):
        if isinstance(x, ast.If) and isinstance(x.test, ast.Compare) and len(x.test.ops) == 1 and isinstance(x.test.ops[0], ast.Eq) \
                and unparse(x.test.comparators[0]) == "1" and isinstance(x.test.left, ast.Call) and call_name(x.test.left) == "len":
            singles.append(x)
    for br in singles:
        from ..model import enclosing_def
        f_ = enclosing_def(br)
        tf = rules.temporaries_free(f_) if f_ is not None else None
        body_txt = [unparse(y).replace(" ", "") for y in (ast.walk(tf) if tf is not None else ast.walk(br)) if isinstance(y, ast.Compare) and len(y.ops) == 1 and isinstance(y.ops[0], ast.Eq)]
        okk = any(t.startswith("set(self.statedigraph.successors(") or "==set(self.statedigraph.successors(" in t for t in body_txt)
        other = [unparse(y)[:60] for s_ in br.body for y in ast.walk(s_) if isinstance(y, ast.Call) and call_name(y) in ("degree", "in_degree", "out_degree", "has_edge", "predecessors", "in_edges", "neighbors")]
        ob.ok("singleton-knot", "len(component) == 1: %s" % ("successors(v) == {v}" if okk else "?"))
        if not okk or other:
            ctx.violation(ob, "R10.detector-pure", "StateDigraph.detect_deadlock", "; ".join(other) or "singleton test", "singleton-knot-test",
                          "a single vertex is a knot iff its successors are exactly itself; a test on degrees or incoming edges misses a self-blocked server that others wait for", loc(br))
    # re-added edges
    fn = ci.methods.get("action_at_attach_server")
    fn = rules.temporaries_free(fn) if fn is not None else None
    if fn is None:
        raise AnalysisError("StateDigraph.action_at_attach_server not found")
    ps = [a.arg for a in fn.args.args][1:]
    edges = [x for x in ast.walk(fn) if isinstance(x, ast.Call) and call_name(x) == "add_edge"]
    if len(edges) != 1:
        ctx.violation(ob, "R5.edge-direction", "StateDigraph.action_at_attach_server", "%d add_edge calls" % len(edges), "attach-edges", "exactly one kind of edge is re-added at attach", loc(fn))
    for e in edges:
        a = [unparse(x).replace(" ", "") for x in e.args]
        outer = None
        p_ = e
        while p_ is not fn:
            p_ = p_._parent
            if isinstance(p_, ast.For):
                outer = p_
        ob.ok("action_at_attach_server", "for ... in %s: add_edge(%s)" % (unparse(outer.iter) if outer else "?", ", ".join(a)))
        if outer is None or unparse(outer.iter) != "%s.blocked_queue" % ps[0]:
            ctx.violation(ob, "R5.edge-direction", "StateDigraph.action_at_attach_server", "for ... in %s" % (unparse(outer.iter) if outer else "?"), "not-all-blocked-entries",
                          "edges must be re-added for every entry of %s.blocked_queue (several customers of one node may be blocked to it)" % ps[0], loc(outer) if outer else loc(fn))
        if len(a) != 2 or not a[0].endswith(".server)") or a[1] != "str(%s)" % ps[1]:
            ctx.violation(ob, "R5.edge-direction", "StateDigraph.action_at_attach_server", unparse(e), "edge-direction", "re-added edges point from the blocked customer's server to the newly attached server", loc(e))


def loop(ctx, P, iters):
    ob = ctx.ob("DLOOP", "simulate_until_deadlock: event; first-visit time recorded once; detect_deadlock whenever the flag is set; time_of_deadlock = clock of the deadlocking event, before the clock advances")
    sim = P.view("Simulation")
    cls, fn = sim.method("simulate_until_deadlock")

    # the local that carries the deadlock time: left operand of the subtraction in the times_to_deadlock comprehension
    tname = "time_of_deadlock"
    for x in ast.walk(fn):
        if isinstance(x, ast.Assign) and unparse(x.targets[0]) == "self.times_to_deadlock" and isinstance(x.value, ast.DictComp) and isinstance(x.value.value, ast.BinOp) and isinstance(x.value.value.left, ast.Name):
            tname = x.value.value.left.id
    dname = [unparse(x.targets[0]) for x in ast.walk(fn) if isinstance(x, ast.Assign) and isinstance(x.value, ast.Call) and call_name(x.value) == "detect_deadlock" and isinstance(x.targets[0], ast.Name)]
    NAMES["t"], NAMES["d"] = tname, (dname[0] if dname else "deadlocked")

    def keep(e):
        if e.kind == "guard":
            return True
        if e.kind == "call":
            return e.d["meth"] in ("event_and_return_nextnode", "detect_deadlock", "hash_state")
        if e.kind == "assign":
            return e.d["target"] in ("self.current_time", tname, "self.times_to_deadlock") or e.d["target"].startswith("self.times_dictionary[") or bool(e.d.get("local"))
        return e.kind in ("iter", "loopexit") and isinstance(e.node, ast.While)
    w = Walker(P, sim, keep=keep, track=lambda t, f: True, inline=rules.new_helper, loop_iters=iters)
    n_iter = 0
    done = set()

    def viol(reason, construct, msg, where, st):
        if reason in done:
            return
        done.add(reason)
        ctx.violation(ob, "R4.deadlock-loop", "Simulation.simulate_until_deadlock", construct, reason, msg, where, witness(st, 20))

    # every single-iteration path of the loop body, whether or not the loop goes on afterwards
    from ..paths import Frame, State, func_locals
    whiles = [x for x in ast.walk(fn) if isinstance(x, ast.While)]
    if len(whiles) == 1:
        fr = Frame(sim, cls, fn)
        fr._locals = func_locals(fn)
        # statements after the loop: a `break` continues there, so the breaking iteration is judged together with them (up to the clock advance)
        after = []
        for blk in [fn.body]:
            if whiles[0] in blk:
                after = blk[blk.index(whiles[0]) + 1:]
        for st in w.block(whiles[0].body, [State()], fr):
            if st.status == "raise":
                continue
            n_iter += 1
            if st.status == "break" and after:
                for st2 in w.block(after, [st.fork(status="normal")], fr):
                    evs2 = list(st2.events)
                    cut = [i for i, e in enumerate(evs2) if e.kind == "assign" and e.d["target"] == "self.current_time" and i >= len(st.events)]
                    check_iteration(evs2[: cut[0] + 1] if cut else evs2, viol, st2, ob)
            else:
                check_iteration(list(st.events), viol, st, ob)
    for st in w.paths_of(cls, fn):
        if st.status == "raise":
            continue
        evs = list(st.events)
        # split into iterations (`while True ... break`: the per-iteration analysis above covers every iteration; only the epilogue is read here)
        i = len(evs) if (whiles and isinstance(whiles[0].test, ast.Constant)) else 0
        while i < len(evs):
            if evs[i].kind == "iter":
                j = i + 1
                while j < len(evs) and evs[j].kind not in ("iter", "loopexit"):
                    j += 1
                body = evs[i + 1:j]
                n_iter += 1
                check_iteration(body, viol, st, ob)
                i = j
            else:
                i += 1
        # epilogue
        fin = [e for e in evs if e.kind == "assign" and e.d["target"] == "self.times_to_deadlock"]
        for e in fin:
            vn = e.d["value_node"]
            ob.ok("times_to_deadlock", e.text)
            okk = False
            vn = rules.items_as_lookups(vn)
            if isinstance(vn, ast.DictComp) and len(vn.generators) == 1 and not vn.generators[0].ifs:
                g = vn.generators[0]
                kv = unparse(g.target)
                okk = (unparse(g.iter) in ("self.times_dictionary.keys()", "self.times_dictionary") and unparse(vn.key) == kv
                       and isinstance(vn.value, ast.BinOp) and isinstance(vn.value.op, ast.Sub) and unparse(vn.value.left) == NAMES["t"]
                       and unparse(vn.value.right) == "self.times_dictionary[%s]" % kv)
            if not okk:
                viol("times-arithmetic", e.text, "times_to_deadlock must be {state: time_of_deadlock - first-visit time of state} for every visited state", e.where, st)
    if not n_iter:
        ctx.unrecognised("DLOOP: no loop iteration recognised in simulate_until_deadlock")


NAMES = {"t": "time_of_deadlock", "d": "deadlocked"}


def check_iteration(body, viol, st, ob):
    kinds = []
    for e in body:
        if e.kind == "call":
            kinds.append({"event_and_return_nextnode": "E", "detect_deadlock": "D", "hash_state": "H"}[e.d["meth"]])
        elif e.kind == "assign":
            t = e.d["target"]
            kinds.append("C" if t == "self.current_time" else "T" if t == NAMES["t"] else "W" if t.startswith("self.times_dictionary[") else
                         "?" if t == "self.times_to_deadlock" else "g")
        else:
            kinds.append("g")
    seq = "".join(k for k in kinds if k != "g")
    ob.ok("iteration:" + seq, "iteration: " + " -> ".join(x.text[:60] for x in body))
    if seq.count("E") != 1 or not seq.startswith("E"):
        viol("one-event-per-iteration", seq, "each iteration must execute exactly one event first", body[0].where if body else "", st)
        return
    if seq.count("C") != 1 or any(k in seq[seq.index("C"):] for k in "EHWD"):
        viol("clock-advance-last", seq, "the clock must advance exactly once, at the end of the iteration (after the checks that read it)", body[-1].where, st)
        return
    # which clock value a local holds: the clock is versioned by its writes; `x = self.current_time` holds the version current at that point, `y = x` copies it
    ver, tag, dver, at = 0, {}, None, {}
    for e in body:
        if e.kind == "call" and e.d["meth"] == "detect_deadlock":
            dver = ver
        elif e.kind == "assign":
            t = e.d["target"]
            raw = unparse(e.d["value_node"]) if e.d.get("value_node") is not None else e.d["value"]
            if t == "self.current_time":
                ver += 1
            elif raw == "self.current_time":
                tag[t] = ver
            elif raw in tag:
                tag[t] = tag[raw]
            else:
                tag.pop(t, None)
            at[id(e)] = (ver, tag.get(raw) if raw != "self.current_time" else ver)
    event_ver = 0           # the version during which the event of this iteration, its bookkeeping and the detection run
    facts = {}
    for idx, e in enumerate(body):
        if e.kind == "guard":
            guards.assume(e.d["formula"], e.pol, facts)
    # first-visit recording
    first = [a for a, v in facts.items() if a[0] == "in" and a[2] == "self.times_dictionary"]
    ws = [e for e in body if e.kind == "assign" and e.d["target"].startswith("self.times_dictionary[")]
    if not first:
        if ws:
            viol("first-visit-unconditional", ws[0].text, "the time of a state must be recorded on its first visit only (otherwise it is overwritten by later visits)", ws[0].where, st)
    else:
        visited = facts[first[0]]
        if visited and ws:
            viol("first-visit-overwritten", ws[0].text, "times_dictionary is rewritten for a state that was already visited", ws[0].where, st)
        if not visited and not ws:
            viol("first-visit-not-recorded", "times_dictionary[state]", "a newly visited state must get its first-visit time", body[0].where, st)
    for e in ws:
        if at.get(id(e), (None, None))[1] != event_ver:
            viol("first-visit-not-clock", e.text, "the first-visit time must be the clock of the event", e.where, st)
        key = e.d["target"][len("self.times_dictionary["):-1]
        if first and key != first[0][1]:
            viol("first-visit-other-key", e.text, "the recorded state is not the state that was tested", e.where, st)
    # detection whenever the flag is set
    flag = facts.get(("truth", "self.unchecked_blockage"))
    if flag is True and "D" not in seq:
        viol("no-detection-after-blockage", seq, "a new blockage happened (flag set) but detect_deadlock is not called in this iteration", body[0].where, st)
    if flag is None and "D" not in seq:
        viol("no-detection", seq, "detect_deadlock is neither called unconditionally nor under the unchecked_blockage flag", body[0].where, st)
    # time_of_deadlock
    dl = facts.get(("truth", NAMES["d"]))
    ts = [e for e in body if e.kind == "assign" and e.d["target"] == NAMES["t"]]
    if dl is True and not ts:
        viol("deadlock-time-not-taken", seq, "deadlock detected but time_of_deadlock is not set in this iteration", body[0].where, st)
    for e in ts:
        held = at.get(id(e), (None, None))[1]
        if held is None:
            viol("deadlock-time-not-clock", e.text, "time_of_deadlock must be the clock of the deadlocking event", e.where, st)
        elif held != event_ver:
            viol("deadlock-time-after-clock", e.text, "time_of_deadlock is taken after the clock has advanced to the next event", e.where, st)
