"""Guard algebra: conditions are normalised to formulas over canonical atoms and compared semantically.

formula := ('and', (f, ...)) | ('or', (f, ...)) | ('not', f) | ('const', bool) | atom
atom    := ('lt', a, b) | ('eq', a, b) | ('truth', a) | ('isinf', a) | ('isnone', a) | ('in', a, b)
           | ('isinstance', a, t)
a, b are canonical expression strings.   a <= b is ('not', ('lt', b, a));  a > b is ('lt', b, a).
`x is True`, `x != False`, `x` are all ('truth', x); `x is False`, `x == False`, `not x` are its negation
(the repository uses these spellings interchangeably on booleans / False-or-string options).
"""
import ast
import itertools

from .model import is_inf_literal


def _const_str(s):
    try:
        return True, ast.literal_eval(s)
    except Exception:
        return False, None


def norm(test, canon):
    """canon: callable ast.expr -> canonical string."""
    if isinstance(test, ast.BoolOp):
        parts = tuple(norm(v, canon) for v in test.values)
        return ("and" if isinstance(test.op, ast.And) else "or", parts)
    if isinstance(test, ast.UnaryOp) and isinstance(test.op, ast.Not):
        return neg(norm(test.operand, canon))
    if isinstance(test, ast.Constant):
        return ("const", bool(test.value))
    if isinstance(test, ast.IfExp):         # as a condition, `a if c else b` holds iff (c and a) or (not c and b)
        c = norm(test.test, canon)
        return ("or", (("and", (c, norm(test.body, canon))), ("and", (neg(c), norm(test.orelse, canon)))))
    if isinstance(test, ast.Compare):
        parts = []
        left = test.left
        for op, right in zip(test.ops, test.comparators):
            parts.append(_cmp(left, op, right, canon))
            left = right
        return parts[0] if len(parts) == 1 else ("and", tuple(parts))
    if isinstance(test, ast.Call) and isinstance(test.func, ast.Name) and test.func.id == "isinf" and len(test.args) == 1:
        return ("isinf", canon(test.args[0]))
    if isinstance(test, ast.Call) and isinstance(test.func, ast.Attribute) and test.func.attr == "isinf" and len(test.args) == 1:
        return ("isinf", canon(test.args[0]))
    if isinstance(test, ast.Call) and isinstance(test.func, ast.Name) and test.func.id == "isinstance" and len(test.args) == 2:
        if isinstance(test.args[1], ast.Tuple) and test.args[1].elts:      # isinstance(x, (A, B)) is isinstance(x, A) or isinstance(x, B)
            return ("or", tuple(("isinstance", canon(test.args[0]), canon(t)) for t in test.args[1].elts))
        return ("isinstance", canon(test.args[0]), canon(test.args[1]))
    txt = canon(test)
    if ((isinstance(test, ast.Name) and isinstance(txt, str) and txt != test.id) or (isinstance(test, ast.Call) and isinstance(txt, str))) and any(c in txt for c in "(<>=! "):
        # (or a call of a predicate helper that was read through: its canonical form is the predicate the helper returned on this path)
        # a boolean temporary whose canonical form is the predicate it was assigned (`inf = isinf(self.c)` ... `if inf:`)
        try:
            sub_ = ast.parse(txt, mode="eval").body
        except SyntaxError:
            sub_ = None
        if isinstance(sub_, (ast.Compare, ast.BoolOp)) or (isinstance(sub_, ast.UnaryOp) and isinstance(sub_.op, ast.Not)) or \
                (isinstance(sub_, ast.Call) and isinstance(sub_.func, (ast.Name, ast.Attribute)) and (sub_.func.id if isinstance(sub_.func, ast.Name) else sub_.func.attr) in ("isinf", "isinstance")):
            return norm(sub_, lambda e: ast.unparse(e))
    return ("truth", txt)


def _is_const(n, val):
    return isinstance(n, ast.Constant) and n.value is val


def _cmp(a, op, b, canon):
    # boolean / None sentinels
    for x, y in ((a, b), (b, a)):
        if isinstance(op, (ast.Is, ast.Eq)):
            if _is_const(y, True):
                return norm(x, canon)
            if _is_const(y, False):
                return neg(norm(x, canon))
            if _is_const(y, None):
                return ("isnone", canon(x))
        if isinstance(op, (ast.IsNot, ast.NotEq)):
            if _is_const(y, True):
                return neg(norm(x, canon))
            if _is_const(y, False):
                return norm(x, canon)
            if _is_const(y, None):
                return neg(("isnone", canon(x)))
    ca, cb = canon(a), canon(b)
    # `x < float('inf')` is `not isinf(x)` for the non-negative quantities compared this way
    if isinstance(op, ast.Lt) and is_inf_literal(b):
        return neg(("isinf", ca))
    if isinstance(op, ast.Gt) and is_inf_literal(a):            # inf > x
        return neg(("isinf", cb))
    if isinstance(op, ast.GtE) and is_inf_literal(b):           # x >= inf
        return ("isinf", ca)
    if isinstance(op, ast.LtE) and is_inf_literal(a):           # inf <= x
        return ("isinf", cb)
    if isinstance(op, ast.Lt):
        return ("lt", ca, cb)
    if isinstance(op, ast.Gt):
        return ("lt", cb, ca)
    if isinstance(op, ast.LtE):
        return neg(("lt", cb, ca))
    if isinstance(op, ast.GtE):
        return neg(("lt", ca, cb))
    if isinstance(op, (ast.Eq, ast.Is)):
        x, y = sorted((ca, cb))
        return ("eq", x, y)
    if isinstance(op, (ast.NotEq, ast.IsNot)):
        x, y = sorted((ca, cb))
        return neg(("eq", x, y))
    if isinstance(op, (ast.In, ast.NotIn)) and isinstance(b, (ast.Tuple, ast.List, ast.Set)) and b.elts and all(isinstance(e, ast.Constant) for e in b.elts):
        # membership in a literal collection of constants: one of the equalities
        f = ("or", tuple(("eq",) + tuple(sorted((ca, canon(e)))) for e in b.elts))
        return f if isinstance(op, ast.In) else neg(f)
    if isinstance(op, ast.In):
        return ("in", ca, cb)
    if isinstance(op, ast.NotIn):
        return neg(("in", ca, cb))
    return ("truth", "%s ? %s" % (ca, cb))


def neg(f):
    if f[0] == "not":
        return f[1]
    if f[0] == "const":
        return ("const", not f[1])
    return ("not", f)


def atoms(f, out=None):
    out = [] if out is None else out
    if f[0] in ("and", "or"):
        for p in f[1]:
            atoms(p, out)
    elif f[0] == "not":
        atoms(f[1], out)
    elif f[0] != "const":
        if f not in out:
            out.append(f)
    return out


def ev(f, facts):
    """Three-valued evaluation: True / False / None (unknown) under facts: atom -> bool."""
    k = f[0]
    if k == "const":
        return f[1]
    if k == "not":
        v = ev(f[1], facts)
        return None if v is None else (not v)
    if k == "and":
        vals = [ev(p, facts) for p in f[1]]
        if any(v is False for v in vals):
            return False
        return True if all(v is True for v in vals) else None
    if k == "or":
        vals = [ev(p, facts) for p in f[1]]
        if any(v is True for v in vals):
            return True
        return False if all(v is False for v in vals) else None
    if f in facts:
        return facts[f]
    # atoms over literal constants are decidable
    if k == "truth":
        ok, v = _const_str(f[1])
        if ok:
            return bool(v)
    if k == "isnone":
        ok, v = _const_str(f[1])
        if ok:
            return v is None
    if k in ("eq", "lt"):
        oa, va = _const_str(f[1])
        ob, vb = _const_str(f[2])
        if oa and ob:
            try:
                return (va == vb) if k == "eq" else (va < vb)
            except Exception:
                return None
    return None


def assume(f, val, facts):
    """Record what `f == val` tells about atoms (only the sound unit consequences)."""
    k = f[0]
    if k == "const":
        return
    if k == "not":
        assume(f[1], not val, facts)
    elif k == "and":
        if val:
            for p in f[1]:
                assume(p, True, facts)
        else:
            unknown = [p for p in f[1] if ev(p, facts) is not True]
            if len(unknown) == 1:
                assume(unknown[0], False, facts)
    elif k == "or":
        if not val:
            for p in f[1]:
                assume(p, False, facts)
        else:
            unknown = [p for p in f[1] if ev(p, facts) is not False]
            if len(unknown) == 1:
                assume(unknown[0], True, facts)
    else:
        facts[f] = val


def equivalent(f, g, constraint=None):
    """Truth-table equivalence over the union of atoms (atoms are treated as independent unless
    `constraint(assignment)` rejects the valuation).  Returns (bool, counterexample)."""
    ats = atoms(f)
    for a in atoms(g):
        if a not in ats:
            ats.append(a)
    if len(ats) > 12:
        return (f == g), None
    for vals in itertools.product((False, True), repeat=len(ats)):
        asg = dict(zip(ats, vals))
        if constraint is not None and not constraint(asg):
            continue
        if ev(f, asg) != ev(g, asg):
            return False, asg
    return True, None


def implies(f, g):
    """truth-table implication f => g over independent atoms -> (bool, counterexample)"""
    ats = atoms(f)
    for a in atoms(g):
        if a not in ats:
            ats.append(a)
    if len(ats) > 14:
        return (f == g), None
    for vals in itertools.product((False, True), repeat=len(ats)):
        asg = dict(zip(ats, vals))
        if ev(f, asg) is True and ev(g, asg) is not True:
            return False, asg
    return True, None


def show(f):
    k = f[0]
    if k == "const":
        return str(f[1])
    if k == "not":
        inner = f[1]
        if inner[0] == "lt":
            return "%s <= %s" % (inner[2], inner[1])
        if inner[0] == "eq":
            return "%s != %s" % (inner[1], inner[2])
        return "not " + show(inner)
    if k in ("and", "or"):
        return "(" + (" %s " % k).join(show(p) for p in f[1]) + ")"
    if k == "lt":
        return "%s < %s" % (f[1], f[2])
    if k == "eq":
        return "%s == %s" % (f[1], f[2])
    if k == "truth":
        return f[1]
    if k == "isinf":
        return "isinf(%s)" % f[1]
    if k == "isnone":
        return "%s is None" % f[1]
    if k == "in":
        return "%s in %s" % (f[1], f[2])
    if k == "ile":
        lhs = " ".join(("%+d*%s" % (c, t)) if abs(c) != 1 else ("%s%s" % ("+" if c > 0 else "-", t)) for t, c in f[1])
        return "%s <= %s" % (lhs.lstrip("+"), f[2])
    return repr(f)
