"""Configuration valuations and event-type reachability (DESIGN §2.2).

The immutable per-node flags form a small finite space.  A *context condition* C(M) is the set of valuations
under which method M of a Node-family view may be invoked; it is computed by a call-graph fixpoint from the
event-loop roots, using the guards on the call paths and the production conditions of next_event_type.
"""
import ast
import itertools
import re

from . import guards
from .model import AnalysisError, is_self_attr, unparse
from .paths import Walker
from . import rules

ATOMS = ("INF", "SLOTTED", "SCHED", "DYN", "REN", "PRE")
ATOM_KEYS = {
    "INF": [("isinf", "self.c")],
    "SLOTTED": [("truth", "self.slotted")],
    "SCHED": [("truth", "self.schedule")],        # `is not None` is mapped below
    "DYN": [("truth", "self.dynamic_classes")],
    "REN": [("truth", "self.reneging")],
    "PRE": [("truth", "self.priority_preempt")],
}
EVENT_TYPES = ("end_service", "shift_change", "renege", "class_change", "slotted_service")


class Valuation(dict):
    def __hash__(self):
        return hash(tuple(sorted(self.items())))

    def show(self):
        return ",".join(("" if self[a] else "!") + a for a in ATOMS)


def _feasible(v, view_name, ps):
    if v["SLOTTED"] and (not v["SCHED"] or v["INF"]):
        return False
    if v["SCHED"] and v["INF"] and not ps:
        return False
    if ps and not v["INF"]:
        return False
    if ps and (v["SLOTTED"] or v["SCHED"]):
        return False       # assumption: a processor-sharing node has an integer capacity, not a Schedule
    return True


class Contexts:
    def __init__(self, program, view):
        self.program, self.view = program, view
        self.ps = "PSNode" in view.mro
        self._check_links()
        self.vals = []
        for bits in itertools.product((False, True), repeat=len(ATOMS)):
            v = Valuation(zip(ATOMS, bits))
            if _feasible(v, view.name, self.ps):
                self.vals.append(v)
        self.prod = {}
        self.reach = {}
        self.calls = {}
        self._production()
        self._ready = True
        self._fixpoint()

    # -- links between spellings of the same flag, verified on the source ---------------------------------
    def _check_links(self):
        P = self.program
        nview = P.view("Node")
        icls, init = nview.method("__init__")
        w = Walker(P, nview, keep=lambda e: e.kind == "guard" or (e.kind == "assign" and e.d["target"] in ("self.slotted", "self.schedule")),
                   track=lambda t, f: "schedule_type" in unparse(t) or "isinstance" in unparse(t), inline=rules.new_helper)
        n_ok = 0
        for st in w.paths_of(icls, init):
            if st.status == "raise":
                continue
            facts = {}
            for e in st.events:
                if e.kind == "guard":
                    guards.assume(e.d["formula"], e.pol, facts)
            sl = [e.d["value"] for e in st.events if e.kind == "assign" and e.d["target"] == "self.slotted"]
            sc = [e.d["value"] for e in st.events if e.kind == "assign" and e.d["target"] == "self.schedule"]
            slot_atoms = [v for a, v in facts.items() if a[0] == "eq" and "'slotted'" in a[1:] and any(isinstance(x, str) and x.endswith(".schedule_type") for x in a[1:])]
            is_slotted = slot_atoms[0] if slot_atoms else None
            has_sched = [v for a, v in facts.items() if a[0] == "isinstance" and a[2].endswith("Schedule")]
            want = "True" if is_slotted else "False"
            # `self.slotted = <x>.schedule_type == 'slotted'` states the link directly
            direct = len(sl) == 1 and re.fullmatch(r"[\w.\[\]]+\.schedule_type == 'slotted'|'slotted' == [\w.\[\]]+\.schedule_type", sl[0] or "") is not None
            if direct and is_slotted is not None:
                # a later `if self.slotted:` test is the same atom: nothing more to compare
                direct = True
            if len(sl) != 1 or (sl[0] != want and not direct) or len(sc) != 1 or (sc[0] == "None") != (not (has_sched and has_sched[0])):
                raise AnalysisError("config: Node.__init__ no longer sets self.slotted / self.schedule from the type of number_of_servers and schedule_type == 'slotted'")
            n_ok += 1
        if n_ok < 3:
            raise AnalysisError("config: Node.__init__ paths not recognised (%d)" % n_ok)
        # slotted nodes have c == 0 for ever: Slotted.__init__ sets c = 0, get_next_slot does not touch it
        sl = P.classes.get("Slotted")
        if sl is None:
            raise AnalysisError("config: class Slotted not found")
        c_writes = []
        for mn, fn in sl.methods.items():
            for n in ast.walk(fn):
                if isinstance(n, ast.Assign) and any(is_self_attr(t, "c") for t in n.targets):
                    c_writes.append((mn, unparse(n.value)))
        self.slotted_c_zero = c_writes == [("__init__", "0")]
        # configuration flags are written in __init__ only
        for flag in ("slotted", "schedule", "reneging", "dynamic_classes", "priority_preempt"):
            for c in P.subclasses("Node"):
                for mn, fn in P.classes[c].methods.items():
                    if rules.effective_names(P, P.classes[c], fn) == {"__init__"}:
                        continue        # __init__ itself, or a helper that only __init__ calls
                    for n in ast.walk(fn):
                        if isinstance(n, (ast.Assign, ast.AugAssign)):
                            ts = n.targets if isinstance(n, ast.Assign) else [n.target]
                            if any(is_self_attr(t, flag) for t in ts):
                                raise AnalysisError("config: flag self.%s is written in %s.%s (must be immutable after __init__)" % (flag, c, mn))

    # -- evaluation of a guard formula under a valuation -----------------------------------------------------
    def facts(self, v):
        f = {}
        for a, keys in ATOM_KEYS.items():
            for k in keys:
                f[k] = v[a]
        f[("isnone", "self.schedule")] = not v["SCHED"]
        f[("eq", "'slotted'", "self.schedule.schedule_type")] = v["SLOTTED"]
        f[("eq", "'schedule'", "self.schedule.schedule_type")] = v["SCHED"] and not v["SLOTTED"]
        if v["SLOTTED"] and self.slotted_c_zero:
            f[("lt", "0", "self.c")] = False
        if v["INF"]:
            f[("lt", "0", "self.c")] = True
        return f

    def ev(self, formula, v, extra=None):
        if not self.__dict__.get("_ready"):
            f = self.facts(v)           # production conditions are still being computed: no event-type facts, no caching
            if extra:
                f.update(extra)
            return guards.ev(formula, f)
        ek = tuple(sorted(extra.items())) if extra else None
        mk = (formula, v, ek)
        memo = self.__dict__.setdefault("_memo", {})
        if mk in memo:
            return memo[mk]
        fk = (v, len(self.prod.get("renege", ())), len(self.prod.get("class_change", ())))
        fc = self.__dict__.setdefault("_fcache", {})
        if fk not in fc:
            f = self.facts(v)
            for t in EVENT_TYPES:
                k = ("eq", "'%s'" % t, "self.next_event_type")
                if t in self.prod and v not in self.prod[t]:
                    f[k] = False
            fc[fk] = f
        f = fc[fk]
        if extra:
            f = dict(f)
            f.update(extra)
        r = guards.ev(formula, f)
        memo[mk] = r
        return r

    def pc_possible(self, events, upto, v, extra=None):
        """can the guard events before `upto` all hold under valuation v? (unknown atoms may go either way)"""
        for i, e in enumerate(events):
            if i >= upto:
                break
            if e.kind == "guard":
                r = self.ev(e.d["formula"], v, extra)
                if r is not None and r != e.pol:
                    return False
        return True

    # -- production conditions of the event types --------------------------------------------------------------
    def _production(self):
        view = self.view
        for t in EVENT_TYPES:
            self.prod[t] = set()
        found = set()
        for m in view.methods():
            cls, fn = view.resolve(m)
            if not any(isinstance(n, ast.Attribute) and n.attr == "possible_next_events" for n in rules.walk(self.program, view, fn)):
                continue
            w = Walker(self.program, view, track=lambda t, fr: True, inline=rules.new_helper,
                       keep=lambda e: e.kind == "guard" or (e.kind == "assign" and e.d["target"].startswith("self.possible_next_events[")))
            for st in w.paths_of(cls, fn):
                for i, e in enumerate(st.events):
                    if e.kind == "assign":
                        key = e.d["target"][len("self.possible_next_events["):-1].strip("'\"")
                        if key not in self.prod:
                            if m not in rules.ANCHOR_METHODS and e.frame.parent is None and key in {a.arg for a in fn.args.args}:
                                continue        # a newly extracted helper that takes the event type as a parameter: analysed through its callers
                            raise AnalysisError("config: unknown event type %r produced in %s" % (key, m))
                        found.add(key)
                        for v in self.vals:
                            if self.pc_possible(st.events, i, v):
                                self.prod[key].add(v)
        # update_next_event_date's fall-back: type 'end_service' when no timer feature is on
        self.prod["end_service"] = set(self.vals)
        missing = [t for t in EVENT_TYPES if t not in found]
        if missing:
            raise AnalysisError("config: no producer found for event type(s) %s" % missing)

    # -- context conditions -------------------------------------------------------------------------------------
    ROOTS = ("accept", "update_next_event_date", "have_event", "wrap_up_servers", "find_server_utilisation", "release",
             "block_individual", "write_baulking_or_rejection_record", "increment_time", "kill_server")

    def _fixpoint(self):
        view = self.view
        for m in view.methods():
            self.reach[m] = set()
        for r in self.ROOTS:
            if r in self.reach:
                self.reach[r] = set(self.vals)
        # per method: (callee, path-prefix events) for each self-call on each path
        sites = {}
        for m in view.methods():
            cls, fn = view.resolve(m)
            if m == "__init__":
                continue
            w = Walker(self.program, view, track=lambda t, fr: True, inline=rules.new_helper,
                       keep=lambda e: e.kind == "guard" or (e.kind == "call" and e.d.get("selfcall")))
            lst = []
            for st in w.paths_of(cls, fn):
                for i, e in enumerate(st.events):
                    if e.kind == "call":
                        lst.append((e.d["meth"], st.events, i))
            sites[m] = lst
        changed = True
        while changed:
            changed = False
            for m, lst in sites.items():
                if not self.reach[m]:
                    continue
                for callee, events, i in lst:
                    if callee not in self.reach:
                        continue
                    for v in self.reach[m]:
                        if v not in self.reach[callee] and self.pc_possible(events, i, v):
                            self.reach[callee].add(v)
                            changed = True
        self.sites = sites

    def reachable(self, m):
        return self.reach.get(m, set())


_cache = {}


def contexts(program, view):
    k = (id(program), view.name)
    if k not in _cache:
        _cache[k] = Contexts(program, view)
    return _cache[k]
