"""R6 arg-min scan recogniser (DESIGN §3 R6).

A scan is a `for` loop containing an `if` whose test compares a key with a running best `B` (a local or self
attribute initialised to +inf before the loop) and whose body re-assigns `B`.  Only *minimality* is demanded:
  - B starts at +inf; the comparison has the key on the smaller side (`key < B` or `key <= B`), against B itself;
  - the value stored into B in that arm is the key that was compared;
  - an optional tie arm is under `key == B`;
  - the loop runs over the whole collection named in the instance table, and the stated filter holds on both arms.
Strictness (`<` vs `<=`) and the order of tied elements are deliberately not constrained.
"""
import ast

from . import guards
from .model import is_inf_literal, unparse, loc


class Scan:
    def __init__(self, fn, loop, best, arm, cmp_atom, key, flipped, strict):
        self.fn, self.loop, self.best, self.arm, self.cmp_atom, self.key, self.flipped, self.strict = fn, loop, best, arm, cmp_atom, key, flipped, strict
        self.ties = []
        self.problems = []


def _subst(expr_text, defs):
    import re
    for _ in range(3):
        new = expr_text
        for k, v in defs.items():
            new = re.sub(r"(?<![\w.])%s(?![\w(])" % re.escape(k), v, new)
        if new == expr_text:
            break
        expr_text = new
    return expr_text


def _local_defs(loop):
    """single-assignment locals defined inside the loop body (or an enclosing loop's body) from simple expressions (key = f(x))"""
    defs, seen = {}, {}
    top = loop
    p = getattr(loop, "_parent", None)
    while p is not None and not isinstance(p, (ast.FunctionDef, ast.AsyncFunctionDef)):
        if isinstance(p, ast.For):
            top = p
        p = getattr(p, "_parent", None)
    for n in ast.walk(top):
        if isinstance(n, ast.Assign) and len(n.targets) == 1 and isinstance(n.targets[0], ast.Name):
            seen[n.targets[0].id] = seen.get(n.targets[0].id, 0) + 1
            defs[n.targets[0].id] = unparse(n.value)
    return {k: v for k, v in defs.items() if seen[k] == 1}


def _inf_inits(fn):
    """names / self attributes assigned +inf somewhere in fn (outside loops that scan them) -> {text: node}"""
    out = {}
    for n in ast.walk(fn):
        if isinstance(n, ast.Assign) and is_inf_literal(n.value):
            for t in n.targets:
                out[unparse(t)] = n
    return out


def _enclosing_tests(node, stop):
    """[(test, polarity)] of the Ifs between node and stop (exclusive), innermost last"""
    out = []
    child, p = node, getattr(node, "_parent", None)
    while p is not None and p is not stop:
        if isinstance(p, ast.If):
            if child in p.body:
                out.append((p.test, True))
            elif child in p.orelse:
                out.append((p.test, False))
        child, p = p, getattr(p, "_parent", None)
    return list(reversed(out))


def find_scans(fn):
    infs = _inf_inits(fn)
    scans = []
    for loop in [n for n in ast.walk(fn) if isinstance(n, ast.For)]:
        defs = _local_defs(loop)
        for arm in [n for n in ast.walk(loop) if isinstance(n, ast.If)]:
            # innermost loop containing the arm
            p = arm
            while not isinstance(p, ast.For):
                p = p._parent
            if p is not loop:
                continue
            assigned = [unparse(t) for s in arm.body if isinstance(s, ast.Assign) for t in s.targets]
            f = guards.norm(arm.test, unparse)
            hit = None
            not_updated = False
            for a in guards.atoms(f):
                if a[0] == "lt":
                    for b in assigned:
                        if b in infs and b in (a[1], a[2]):
                            hit = (a, b)
            if hit is None:
                # a comparison with a running best that the arm does not update (the scan then keeps the LAST candidate below +inf, not the minimum)
                for a in guards.atoms(f):
                    if a[0] == "lt":
                        for b in infs:
                            if b in (a[1], a[2]) and infs[b].lineno < loop.lineno and any(isinstance(s, ast.Assign) for s in arm.body):
                                hit = (a, b)
                                not_updated = True
            if hit is None:
                continue
            a, b = hit
            # polarity of the atom inside the test when the arm is taken
            facts = {}
            guards.assume(f, True, facts)
            if a not in facts:
                continue
            pol = facts[a]
            #   lt(K, B) True  -> K <  B  ok strict        lt(B, K) False -> K <= B ok non-strict
            #   lt(B, K) True  -> K >  B  flipped           lt(K, B) False -> K >= B flipped
            if a[2] == b and a[1] != b:
                key, flipped, strict = a[1], (not pol), pol
            else:
                key, flipped, strict = a[2], pol, not pol
            sc = Scan(fn, loop, b, arm, a, key, flipped, strict)
            sc.not_updated = not_updated
            sc.defs = defs
            sc.coll = _subst(unparse(loop.iter), defs)
            sc.init = infs[b]
            # stored value
            for s in arm.body:
                if isinstance(s, ast.Assign) and b in [unparse(t) for t in s.targets]:
                    sc.stored = unparse(s.value)
            # tie arms: any other If in the loop whose test has eq(key, best)
            for other in [n for n in ast.walk(loop) if isinstance(n, ast.If) and n is not arm]:
                g = guards.norm(other.test, unparse)
                fa = {}
                guards.assume(g, True, fa)
                for at, val in fa.items():
                    if at[0] == "eq" and b in at[1:] and val:
                        sc.ties.append(other)
            # accumulating arms: any other If in the loop that grows a structure the reset arm (re)builds must be a tie arm
            built = [unparse(t) for s in arm.body if isinstance(s, ast.Assign) for t in s.targets if unparse(t) != b]
            sc.accum = []
            for c in ast.walk(loop):
                if isinstance(c, ast.Call) and isinstance(c.func, ast.Attribute) and c.func.attr in ("append", "insert", "extend", "add"):
                    recv = unparse(c.func.value)
                    if not any(recv == t or recv.startswith(t + "[") or recv.startswith(t + ".") for t in built):
                        continue
                    # the innermost If whose BODY holds the call (an elif is the orelse of its predecessor)
                    child, p = c, getattr(c, "_parent", None)
                    while p is not None and p is not loop and not (isinstance(p, ast.If) and child in p.body):
                        child, p = p, getattr(p, "_parent", None)
                    if isinstance(p, ast.If) and p is not arm and p not in sc.accum:
                        sc.accum.append(p)
                    elif p is loop:
                        sc.accum.append(loop)       # unconditional accumulation
            scans.append(sc)
    return scans


def judge(sc):
    """generic minimality obligations -> list of (reason, message, node)"""
    out = []
    key_c = _subst(sc.key, sc.defs)
    if sc.flipped:
        out.append(("scan-direction", "the running best `%s` is replaced when the key is LARGER: this selects a maximum, not the minimum" % sc.best, sc.arm))
    stored = _subst(getattr(sc, "stored", "?"), sc.defs)
    if getattr(sc, "not_updated", False):
        out.append(("best-not-updated", "the running best `%s` is compared but never updated in the arm: the scan does not keep the minimum" % sc.best, sc.arm))
    elif stored != key_c and getattr(sc, "stored", None) != sc.key:
        out.append(("stored-not-compared", "`%s` is compared with the key `%s` but `%s` is stored" % (sc.best, sc.key, getattr(sc, "stored", "?")), sc.arm))
    # initialisation precedes the loop
    if not (sc.init.lineno < sc.loop.lineno):
        out.append(("best-not-initialised", "`%s` must start at +inf before the scan" % sc.best, sc.loop))
    for t in getattr(sc, "accum", []):
        if t not in sc.ties and not any(t is x for st_ in sc.arm.body for x in ast.walk(st_)):
            out.append(("tie-arm-key", "this arm adds a candidate to what the reset arm built, so it must be under `%s == %s`" % (sc.key, sc.best), t))
    for t in sc.ties:
        g = guards.norm(t.test, unparse)
        fa = {}
        guards.assume(g, True, fa)
        ok = False
        for at, val in fa.items():
            if at[0] == "eq" and val and sc.best in at[1:]:
                other = at[1] if at[2] == sc.best else at[2]
                if _subst(other, sc.defs) == key_c or other == sc.key:
                    ok = True
        if not ok:
            out.append(("tie-arm-key", "the tie arm must be under `%s == %s`" % (sc.key, sc.best), t))
    return out


def arm_condition(sc, arm):
    """facts implied when `arm` (reset or tie If) is taken, including enclosing Ifs inside the loop"""
    facts = {}
    for test, pol in _enclosing_tests(arm, sc.loop):
        guards.assume(guards.norm(test, unparse), pol, facts)
    guards.assume(guards.norm(arm.test, unparse), True, facts)
    return facts
