"""R6 arg-min scan recogniser (DESIGN §3 R6).

A scan is a `for` loop containing an `if` whose test compares a key with a running best `B` (a local or self
attribute initialised to +inf before the loop) and whose body re-assigns `B`.  Only *minimality* is demanded:
  - B starts at +inf; the comparison has the key on the smaller side (`key < B` or `key <= B`), against B itself;
  - the value stored into B in that arm is the key that was compared;
  - an optional tie arm is under `key == B`;
  - the loop runs over the whole collection named in the instance table, and the stated filter holds on both arms.
Strictness (`<` vs `<=`) and the order of tied elements are deliberately not constrained.
"""
import ast

from . import guards
from .model import is_inf_literal, unparse, loc


class Scan:
    def __init__(self, fn, loop, best, arm, cmp_atom, key, flipped, strict):
        self.fn, self.loop, self.best, self.arm, self.cmp_atom, self.key, self.flipped, self.strict = fn, loop, best, arm, cmp_atom, key, flipped, strict
        self.ties = []
        self.problems = []


def _subst(expr_text, defs):
    import re
    for _ in range(3):
        new = expr_text
        for k, v in defs.items():
            new = re.sub(r"(?<![\w.])%s(?![\w(])" % re.escape(k), v, new)
        if new == expr_text:
            break
        expr_text = new
    return expr_text


def _local_defs(loop):
    """single-assignment locals defined inside the loop body (or an enclosing loop's body) from simple expressions (key = f(x))"""
    defs, seen = {}, {}
    top = loop
    p = getattr(loop, "_parent", None)
    while p is not None and not isinstance(p, (ast.FunctionDef, ast.AsyncFunctionDef)):
        if isinstance(p, ast.For):
            top = p
        p = getattr(p, "_parent", None)
    for n in ast.walk(top):
        if isinstance(n, ast.Assign) and len(n.targets) == 1 and isinstance(n.targets[0], ast.Name):
            seen[n.targets[0].id] = seen.get(n.targets[0].id, 0) + 1
            defs[n.targets[0].id] = unparse(n.value)
        elif isinstance(n, ast.Name) and isinstance(n.ctx, (ast.Store, ast.Del)) and not (isinstance(getattr(n, "_parent", None), ast.Assign) and len(n._parent.targets) == 1 and n._parent.targets[0] is n):
            # any other binding of the name (augmented assignment, tuple target, loop variable, walrus): it is not a simple name for one expression
            seen[n.id] = seen.get(n.id, 0) + 2
    return {k: v for k, v in defs.items() if seen[k] == 1}


def order_of(fn):
    """node id -> position in a depth-first, source-order traversal of fn (structural order: independent of line numbers, which synthesised nodes share)"""
    if not hasattr(fn, "_dfs_order"):
        order = {}

        def rec(n):
            order[id(n)] = len(order)
            for c in ast.iter_child_nodes(n):
                rec(c)
        rec(fn)
        fn._dfs_order = order
    return fn._dfs_order


def precedes(fn, a, b):
    o = order_of(fn)
    return o.get(id(a), -1) < o.get(id(b), -1)


def _inf_inits(fn):
    """names / self attributes assigned +inf somewhere in fn (outside loops that scan them) -> {text: node}.  A name initialised to a tuple with +inf at
    position k (directly or through a local naming that tuple) gives the running best `name[k]`."""
    out = {}
    tuples = {}
    for n in ast.walk(fn):
        if isinstance(n, ast.Assign) and is_inf_literal(n.value):
            for t in n.targets:
                out[unparse(t)] = n
        if isinstance(n, ast.Assign) and isinstance(n.value, ast.Tuple) and len(n.targets) == 1 and isinstance(n.targets[0], ast.Name):
            ks = [i for i, e in enumerate(n.value.elts) if is_inf_literal(e)]
            if ks:
                tuples[n.targets[0].id] = ks
                for k in ks:
                    out["%s[%d]" % (n.targets[0].id, k)] = n
    for n in ast.walk(fn):
        if isinstance(n, ast.Assign) and isinstance(n.value, ast.Name) and n.value.id in tuples and len(n.targets) == 1 and isinstance(n.targets[0], ast.Name):
            for k in tuples[n.value.id]:
                out.setdefault("%s[%d]" % (n.targets[0].id, k), n)
    return out


def _enclosing_tests(node, stop):
    """[(test, polarity)] of the Ifs between node and stop (exclusive), innermost last"""
    out = []
    child, p = node, getattr(node, "_parent", None)
    while p is not None and p is not stop:
        if isinstance(p, ast.If):
            if child in p.body:
                out.append((p.test, True))
            elif child in p.orelse:
                out.append((p.test, False))
        child, p = p, getattr(p, "_parent", None)
    return list(reversed(out))


def find_scans(fn):
    infs = _inf_inits(fn)
    scans = []
    for loop in [n for n in ast.walk(fn) if isinstance(n, ast.For)]:
        defs = _local_defs(loop)
        for arm in [n for n in ast.walk(loop) if isinstance(n, ast.If)]:
            # innermost loop containing the arm
            p = arm
            while not isinstance(p, ast.For):
                p = p._parent
            if p is not loop:
                continue
            assigned = [unparse(t) for s in arm.body if isinstance(s, ast.Assign) for t in s.targets]
            # a tuple-valued running best `B` compared through its component `B[k]`: assigning B re-assigns B[k]
            comp = {}
            for t_ in list(assigned):
                for b_ in infs:
                    if b_.startswith(t_ + "[") and b_.endswith("]"):
                        assigned.append(b_)
                        comp[b_] = (t_, b_[len(t_):])
            f = guards.norm(arm.test, unparse)
            hit = None
            not_updated = False
            for a in guards.atoms(f):
                if a[0] == "lt":
                    for b in assigned:
                        if b in infs and b in (a[1], a[2]):
                            hit = (a, b)
            if hit is None:
                # a comparison with a running best that the arm does not update (the scan then keeps the LAST candidate below +inf, not the minimum)
                for a in guards.atoms(f):
                    if a[0] == "lt":
                        for b in infs:
                            if b in (a[1], a[2]) and precedes(fn, infs[b], loop) and any(isinstance(s, ast.Assign) for s in arm.body):
                                hit = (a, b)
                                not_updated = True
            if hit is None:
                continue
            a, b = hit
            # polarity of the atom inside the test when the arm is taken
            facts = {}
            guards.assume(f, True, facts)
            if a not in facts:
                continue
            pol = facts[a]
            #   lt(K, B) True  -> K <  B  ok strict        lt(B, K) False -> K <= B ok non-strict
            #   lt(B, K) True  -> K >  B  flipped           lt(K, B) False -> K >= B flipped
            if a[2] == b and a[1] != b:
                key, flipped, strict = a[1], (not pol), pol
            else:
                key, flipped, strict = a[2], pol, not pol
            sc = Scan(fn, loop, b, arm, a, key, flipped, strict)
            sc.not_updated = not_updated
            sc.defs = defs
            sc.coll = _subst(unparse(loop.iter), defs)
            sc.init = infs[b]
            # stored value
            for s in arm.body:
                if isinstance(s, ast.Assign) and b in [unparse(t) for t in s.targets]:
                    sc.stored = unparse(s.value)
                elif isinstance(s, ast.Assign) and b in comp and comp[b][0] in [unparse(t) for t in s.targets]:
                    sc.stored = unparse(s.value) + comp[b][1]
            # tie arms: any other If in the loop whose test has eq(key, best)
            for other in [n for n in ast.walk(loop) if isinstance(n, ast.If) and n is not arm]:
                g = guards.norm(other.test, unparse)
                fa = {}
                guards.assume(g, True, fa)
                for at, val in fa.items():
                    if at[0] == "eq" and b in at[1:] and val:
                        sc.ties.append(other)
            # accumulating arms: any other If in the loop that grows a structure the reset arm (re)builds must be a tie arm
            built = [unparse(t) for s in arm.body if isinstance(s, ast.Assign) for t in s.targets if unparse(t) != b]
            sc.accum = []
            for c in ast.walk(loop):
                if isinstance(c, ast.Call) and isinstance(c.func, ast.Attribute) and c.func.attr in ("append", "insert", "extend", "add"):
                    recv = unparse(c.func.value)
                    if not any(recv == t or recv.startswith(t + "[") or recv.startswith(t + ".") for t in built):
                        continue
                    # the innermost If whose BODY holds the call (an elif is the orelse of its predecessor)
                    child, p = c, getattr(c, "_parent", None)
                    while p is not None and p is not loop and not (isinstance(p, ast.If) and child in p.body):
                        child, p = p, getattr(p, "_parent", None)
                    if isinstance(p, ast.If) and p is not arm and p not in sc.accum:
                        sc.accum.append(p)
                    elif p is loop:
                        sc.accum.append(loop)       # unconditional accumulation
            scans.append(sc)
    return scans


def judge(sc):
    """generic minimality obligations -> list of (reason, message, node)"""
    out = []
    key_c = _subst(sc.key, sc.defs)
    if sc.flipped:
        out.append(("scan-direction", "the running best `%s` is replaced when the key is LARGER: this selects a maximum, not the minimum" % sc.best, sc.arm))
    stored = _subst(getattr(sc, "stored", "?"), sc.defs)
    if getattr(sc, "not_updated", False):
        out.append(("best-not-updated", "the running best `%s` is compared but never updated in the arm: the scan does not keep the minimum" % sc.best, sc.arm))
    elif stored != key_c and getattr(sc, "stored", None) != sc.key:
        out.append(("stored-not-compared", "`%s` is compared with the key `%s` but `%s` is stored" % (sc.best, sc.key, getattr(sc, "stored", "?")), sc.arm))
    # initialisation precedes the loop
    if not precedes(sc.fn, sc.init, sc.loop):
        out.append(("best-not-initialised", "`%s` must start at +inf before the scan" % sc.best, sc.loop))
    for t in getattr(sc, "accum", []):
        if t not in sc.ties and not any(t is x for st_ in sc.arm.body for x in ast.walk(st_)):
            out.append(("tie-arm-key", "this arm adds a candidate to what the reset arm built, so it must be under `%s == %s`" % (sc.key, sc.best), t))
    for t in sc.ties:
        g = guards.norm(t.test, unparse)
        fa = {}
        guards.assume(g, True, fa)
        ok = False
        for at, val in fa.items():
            if at[0] == "eq" and val and sc.best in at[1:]:
                other = at[1] if at[2] == sc.best else at[2]
                if _subst(other, sc.defs) == key_c or other == sc.key:
                    ok = True
        if not ok:
            out.append(("tie-arm-key", "the tie arm must be under `%s == %s`" % (sc.key, sc.best), t))
    return out


def arm_condition(sc, arm):
    """facts implied when `arm` (reset or tie If) is taken, including enclosing Ifs inside the loop"""
    facts = {}
    for test, pol in _enclosing_tests(arm, sc.loop):
        guards.assume(guards.norm(test, unparse), pol, facts)
    guards.assume(guards.norm(arm.test, unparse), True, facts)
    return facts


# ---- two-pass formulation: minimum first, then the elements that attain it ---------------------------------------------------------
class MinFilter:
    """best = min(KEY(v) for v in COLL)  (a fold or a min() call over the whole collection);  cands = [v for v in COLL if KEY(v) == best]"""
    def __init__(self, fn, coll, var, key, best, cands, node, how):
        self.fn, self.coll, self.var, self.key, self.best, self.cands, self.node, self.how = fn, coll, var, key, best, cands, node, how


def _rename(text, old, new):
    import re
    return re.sub(r"(?<![\w.])%s(?![\w])" % re.escape(old), new, text)


def _single_assigns(fn):
    cnt, val = {}, {}
    for x in ast.walk(fn):
        if isinstance(x, ast.Name) and isinstance(x.ctx, (ast.Store, ast.Del)):
            cnt[x.id] = cnt.get(x.id, 0) + 1
        if isinstance(x, ast.Assign) and len(x.targets) == 1 and isinstance(x.targets[0], ast.Name):
            val[x.targets[0].id] = x
    return {k: v for k, v in val.items() if cnt.get(k) == 1}


def _filter_lists(fn, coll, var, key, best, keys_name=None):
    """names of lists built as [v for v in COLL if KEY(v) == best] (or through zip(COLL, KEYS) with the key list computed over the same collection)"""
    out = []
    named = list(_single_assigns(fn).items())
    # a helper may return the filtered list directly: `return [v for v in COLL if KEY(v) == best]`
    named += [("<return>", x) for x in ast.walk(fn) if isinstance(x, ast.Return) and isinstance(x.value, ast.ListComp)]
    for name, st in named:
        c = st.value
        if not (isinstance(c, ast.ListComp) and len(c.generators) == 1 and len(c.generators[0].ifs) == 1):
            continue
        g = c.generators[0]
        cond = guards.norm(g.ifs[0], unparse)
        if isinstance(g.target, ast.Name) and unparse(g.iter) == coll and unparse(c.elt) == g.target.id:
            want = tuple(sorted((_rename(key, var, g.target.id), best)))
            if cond == ("eq",) + want:
                out.append((name, st))
        elif (isinstance(g.target, ast.Tuple) and len(g.target.elts) == 2 and all(isinstance(t, ast.Name) for t in g.target.elts) and isinstance(g.iter, ast.Call)
              and isinstance(g.iter.func, ast.Name) and g.iter.func.id == "zip" and len(g.iter.args) == 2 and keys_name is not None
              and unparse(g.iter.args[0]) == coll and unparse(g.iter.args[1]) == keys_name and unparse(c.elt) == g.target.elts[0].id):
            want = tuple(sorted((g.target.elts[1].id, best)))
            if cond == ("eq",) + want:
                out.append((name, st))
    return out


def loose_minfilters(fn):
    """best = min(KEY(v) for v in COLL) followed by a list of candidates filtered by a condition that mentions best but is NOT `KEY(v) == best`
    (a tolerance, an inequality): the candidates are then not exactly the minimisers -> list of (best name, comprehension statement)"""
    out = []
    sa = _single_assigns(fn)
    for bname, st in sa.items():
        v = st.value
        if not (isinstance(v, ast.Call) and isinstance(v.func, ast.Name) and v.func.id == "min" and v.args):
            continue
        src = v.args[0]
        if isinstance(src, ast.Name) and src.id in sa:
            src = sa[src.id].value
        if not (isinstance(src, (ast.ListComp, ast.GeneratorExp)) and len(src.generators) == 1 and isinstance(src.generators[0].target, ast.Name)):
            continue
        g = src.generators[0]
        coll, var, key = unparse(g.iter), g.target.id, unparse(src.elt)
        for cname, cst in sa.items():
            c = cst.value
            if isinstance(c, ast.ListComp) and len(c.generators) == 1 and c.generators[0].ifs and unparse(c.generators[0].iter) == coll and precedes(fn, st, cst):
                mentions = any(isinstance(y, ast.Name) and y.id == bname for t in c.generators[0].ifs for y in ast.walk(t))
                exact = False
                if len(c.generators[0].ifs) == 1 and isinstance(c.generators[0].target, ast.Name):
                    want = tuple(sorted((_rename(key, var, c.generators[0].target.id), bname)))
                    exact = guards.norm(c.generators[0].ifs[0], unparse) == ("eq",) + want
                if mentions and not exact:
                    out.append((bname, cst))
    return out


def find_minfilters(fn):
    out = []
    sa = _single_assigns(fn)
    # (a) best = min(<keys over the whole collection>[, default=+inf])
    for bname, st in sa.items():
        v = st.value
        if not (isinstance(v, ast.Call) and isinstance(v.func, ast.Name) and v.func.id == "min" and len(v.args) == 1):
            continue
        if any(k.arg != "default" or not is_inf_literal(k.value) for k in v.keywords):
            continue
        src, keys_name = v.args[0], None
        if isinstance(src, ast.Name) and src.id in sa and isinstance(sa[src.id].value, (ast.ListComp, ast.GeneratorExp)):
            keys_name, src = src.id, sa[src.id].value
        if not (isinstance(src, (ast.ListComp, ast.GeneratorExp)) and len(src.generators) == 1 and not src.generators[0].ifs and isinstance(src.generators[0].target, ast.Name)):
            continue
        g = src.generators[0]
        coll, var, key = unparse(g.iter), g.target.id, unparse(src.elt)
        for cname, cst in _filter_lists(fn, coll, var, key, bname, keys_name):
            if precedes(fn, st, cst):
                out.append(MinFilter(fn, coll, var, key, bname, cname, cst, "min-call"))
    # (b) a fold that only keeps the minimum, followed by the filter
    for sc in find_scans(fn):
        only_best = all(isinstance(s, ast.Assign) and [unparse(t) for t in s.targets] == [sc.best] for s in sc.arm.body if not isinstance(s, ast.Pass))
        if not only_best or sc.flipped or getattr(sc, "not_updated", False) or sc.ties:
            continue
        var = unparse(sc.loop.target)
        key = _subst(sc.key, sc.defs)
        for cname, cst in _filter_lists(fn, sc.coll, var, key, sc.best):
            if precedes(fn, sc.loop, cst):
                mf = MinFilter(fn, sc.coll, var, key, sc.best, cname, cst, "fold")
                mf.scan = sc
                out.append(mf)
    return out


def stored_result(sc, fn, prefix="possible_next_events"):
    """where the scan publishes its result `(candidates, date)` into `<...prefix...>[key]`:
         form A  in the reset arm:  T = ([elem], KEY)            ; tie arms: T[0].append(elem)
         form B  in the reset arm:  L = [elem] (a local list)    ; tie arms: L.append(elem) ; after the loop: T = (L, best)
       -> dict(target=text of T, elem=text, date_ok=bool, ties_ok=bool, node=stmt) or None"""
    var = unparse(sc.loop.target)
    arm_assigns = [s for s in sc.arm.body if isinstance(s, ast.Assign) and len(s.targets) == 1]
    # form A
    for s in arm_assigns:
        t = unparse(s.targets[0])
        if prefix in t and isinstance(s.value, ast.Tuple) and len(s.value.elts) == 2 and isinstance(s.value.elts[0], ast.List) and len(s.value.elts[0].elts) == 1:
            elem = unparse(s.value.elts[0].elts[0])
            date_ok = unparse(s.value.elts[1]) == sc.key or _subst(unparse(s.value.elts[1]), sc.defs) == _subst(sc.key, sc.defs)
            ties_ok = True
            for tarm in sc.ties:
                app = [c for c in ast.walk(tarm) if isinstance(c, ast.Call) and isinstance(c.func, ast.Attribute) and c.func.attr in ("append", "insert")]
                if app and not (len(app) == 1 and unparse(app[0].func.value) == t + "[0]" and unparse(app[0].args[-1]) == elem):
                    ties_ok = False
            return {"target": t, "elem": elem, "date_ok": date_ok, "ties_ok": ties_ok, "node": s, "form": "A"}
    # form C  in the reset arm:  T = ([elem], KEY) with T a local ; tie arms: T[0].append(elem) ; after the loop T is published as it is --
    #         `<prefix>[k] = T` (possibly under `if T is not None`), or through a small helper `self.h(k, T)` whose body is that store
    for s in arm_assigns:
        if isinstance(s.targets[0], ast.Name) and isinstance(s.value, ast.Tuple) and len(s.value.elts) == 2 and isinstance(s.value.elts[0], ast.List) and len(s.value.elts[0].elts) == 1:
            T = s.targets[0].id
            elem = unparse(s.value.elts[0].elts[0])
            pub = None
            for x in ast.walk(fn):
                if any(x is y for y in ast.walk(sc.loop)) or not precedes(fn, sc.loop, x):
                    continue
                if isinstance(x, ast.Assign) and len(x.targets) == 1 and prefix in unparse(x.targets[0]) and isinstance(x.value, ast.Name) and x.value.id == T:
                    pub = (x, unparse(x.targets[0]))
                if isinstance(x, ast.Expr) and isinstance(x.value, ast.Call) and isinstance(x.value.func, ast.Attribute) and unparse(x.value.func.value) == "self" \
                        and any(isinstance(a, ast.Name) and a.id == T for a in x.value.args):
                    cls_ = getattr(fn, "_parent", None)
                    h = next((y for y in getattr(cls_, "body", []) if isinstance(y, ast.FunctionDef) and y.name == x.value.func.attr), None)
                    if h is not None:
                        hp = [a.arg for a in h.args.args][1:]
                        if len(hp) == len(x.value.args) and not x.value.keywords:
                            pT = hp[[i for i, a in enumerate(x.value.args) if isinstance(a, ast.Name) and a.id == T][0]]
                            stores = [y for y in ast.walk(h) if isinstance(y, ast.Assign) and len(y.targets) == 1 and prefix in unparse(y.targets[0])
                                      and isinstance(y.value, ast.Name) and y.value.id == pT]
                            others = [y for y in ast.walk(h) if isinstance(y, (ast.Assign, ast.AugAssign)) and y not in stores]
                            if len(stores) == 1 and not others:
                                key = stores[0].targets[0].slice if isinstance(stores[0].targets[0], ast.Subscript) else None
                                ktxt = unparse(key) if key is not None else "?"
                                if isinstance(key, ast.Name) and key.id in hp:
                                    ktxt = unparse(x.value.args[hp.index(key.id)])
                                pub = (x, "%s[%s]" % (unparse(stores[0].targets[0].value) if isinstance(stores[0].targets[0], ast.Subscript) else unparse(stores[0].targets[0]), ktxt))
            if pub is not None:
                date_ok = unparse(s.value.elts[1]) == sc.key or _subst(unparse(s.value.elts[1]), sc.defs) == _subst(sc.key, sc.defs)
                ties_ok = True
                for tarm in sc.ties:
                    app = [c for c in ast.walk(tarm) if isinstance(c, ast.Call) and isinstance(c.func, ast.Attribute) and c.func.attr in ("append", "insert")]
                    if app and not (len(app) == 1 and unparse(app[0].func.value) == T + "[0]" and unparse(app[0].args[-1]) == elem):
                        ties_ok = False
                return {"target": pub[1], "elem": elem, "date_ok": date_ok, "ties_ok": ties_ok, "node": pub[0], "form": "C"}
    # form B
    for s in arm_assigns:
        if isinstance(s.targets[0], ast.Name) and isinstance(s.value, ast.List) and len(s.value.elts) == 1:
            L = s.targets[0].id
            elem = unparse(s.value.elts[0])
            for x in ast.walk(fn):
                if isinstance(x, ast.Assign) and len(x.targets) == 1 and prefix in unparse(x.targets[0]) and isinstance(x.value, ast.Tuple) and len(x.value.elts) == 2 \
                        and unparse(x.value.elts[0]) == L and precedes(fn, sc.loop, x) and not any(x is y for y in ast.walk(sc.loop)):
                    date_ok = unparse(x.value.elts[1]) == sc.best
                    ties_ok = True
                    for tarm in sc.ties:
                        app = [c for c in ast.walk(tarm) if isinstance(c, ast.Call) and isinstance(c.func, ast.Attribute) and c.func.attr in ("append", "insert")]
                        if app and not (len(app) == 1 and unparse(app[0].func.value) == L and unparse(app[0].args[-1]) == elem):
                            ties_ok = False
                    # the list must not be touched between the loop and the store
                    return {"target": unparse(x.targets[0]), "elem": elem, "date_ok": date_ok, "ties_ok": ties_ok, "node": x, "form": "B", "list": L}
    return None
