"""R13 server typestate / service-start provenance (DESIGN §3 R13), shared by C04, C08, C12.

From each event-handler root of a Node-family view, paths are enumerated with all self-calls spliced except the
pure choosers (find_free_server, choose_next_customer), so that the arguments of every attach_server / detatch_server
call are resolved to root-level expressions.  Each attach site is classified:
  server   : FIND (result of find_free_server, tested not None) | FILTER (element of [s for s in self.servers if not s.busy])
             | DETACHED (argument of an earlier detatch_server on the path; needs the alive test `S in self.servers`)
  customer : CHOSEN (result of choose_next_customer, tested not None) | INTERRUPTED (head of interrupted_individuals)
             | NEWCOMER (the customer being accepted, at an infinite-server node only)
"""
import ast
import re

from . import guards, rules
from .model import call_name, unparse
from .paths import Walker

ROOTS = ("accept", "release", "renege", "change_shift", "slotted_service", "change_customer_class_while_waiting", "finish_service")
NO_INLINE = ("find_free_server", "choose_next_customer", "release_blocked_individual", "write_individual_record", "write_interruption_record",
             "write_reneging_record", "get_service_time", "increment_time", "decide_class_change", "reset_class_change", "get_reneging_date",
             "next_node", "next_node_for_rerouting", "next_node_for_jockeying", "change_customer_class", "decide_between_simultaneous_individuals",
             "kill_server", "sort_interrupted_individuals", "find_next_class_change", "update_all_service_end_dates")


def _keep(e):
    if e.kind == "guard":
        return True
    if e.kind == "call":
        return e.d["meth"] in ("attach_server", "detatch_server", "find_free_server", "choose_next_customer", "kill_server", "reset_class_change")
    if e.kind == "enter":
        return e.d["meth"] in ("attach_server", "detatch_server", "decide_preempt")
    if e.kind == "assign":
        if e.d.get("local"):
            return True
        t = e.d["target"]
        return t.endswith(".service_start_date") or t.endswith(".server") or t.endswith(".cust") or t.endswith(".busy")
    return e.kind in ("iter", "return", "leave")


class Site:
    def __init__(self, kind, ev, st, idx, view):
        self.kind, self.ev, self.st, self.idx, self.view = kind, ev, st, idx, view
        args = ev.d.get("args") or []
        self.server = (args + ["?", "?"])[0]
        self.cust = (args + ["?", "?"])[1]
        self.method = ev.frame.qual

    def pc(self):
        parts = []
        for e in self.st.events[: self.idx]:
            if e.kind == "guard":
                parts.append(e.d["formula"] if e.pol else guards.neg(e.d["formula"]))
        if not parts:
            return ("const", True)
        return ("and", tuple(parts))


def _defs(events, upto):
    """local name -> last assign event before `upto`"""
    d = {}
    for e in events[:upto]:
        if e.kind == "assign" and e.d.get("local"):
            d[e.d["target"]] = e
    return d


def origin(evs, upto, name, frame=None):
    """follow a tagged local name back through local copies, the return values of spliced helpers and (given the frame the name lives in) the arguments
    bound to the parameters of spliced helpers -> (value_node, frame, index) of the expression that produced the object, or None"""
    last = None
    for _ in range(12):
        hit = None
        for j in range(upto - 1, -1, -1):
            e = evs[j]
            if e.kind == "assign" and e.d.get("local") and e.d["target"] == name:
                hit = (j, e)
                break
        if hit is None:
            # a parameter of a spliced helper: continue with the argument in the caller's frame
            fr0 = frame if last is None else last[1]
            if fr0 is not None and fr0.parent is not None and fr0.callsite is not None and name.endswith(fr0.tag) and fr0.tag:
                pname = name[: len(name) - len(fr0.tag)]
                params = [a.arg for a in fr0.func.args.args]
                if params and params[0] == "self":
                    params = params[1:]
                if pname in params:
                    k = params.index(pname)
                    call = fr0.callsite
                    arg = call.args[k] if k < len(call.args) else next((kw.value for kw in call.keywords if kw.arg == pname), None)
                    ent = [i for i in range(upto - 1, -1, -1) if evs[i].kind == "enter" and evs[i].node is call]
                    if arg is not None and ent:
                        last = (arg, fr0.parent, ent[0])
                        if isinstance(arg, ast.Name):
                            name, upto = arg.id + fr0.parent.tag, ent[0]
                            continue
            return last
        j, e = hit
        vn, fr = e.d.get("value_node"), e.frame
        for _ in range(12):
            ret = None
            if isinstance(vn, ast.Call):
                for k in range(j - 1, -1, -1):
                    x = evs[k]
                    if x.kind == "leave" and x.node is vn and x.frame.fid == fr.fid:
                        for r in range(k - 1, -1, -1):
                            y = evs[r]
                            if y.kind == "return" and y.frame.callsite is vn and y.frame.parent is not None and y.frame.parent.fid == fr.fid:
                                ret = (r, y)
                                break
                            if y.kind == "enter" and y.node is vn and y.frame.fid == fr.fid:
                                break
                        break
                    if x.kind == "enter" and x.node is vn and x.frame.fid == fr.fid:
                        break
            if ret is None:
                break
            j, y = ret
            vn, fr = y.d.get("value_node"), y.frame
        last = (vn, fr, j)
        if isinstance(vn, ast.Name):
            name, upto = vn.id + fr.tag, j
            continue
        return last
    return last


def _is_call_to(node, name):
    return isinstance(node, ast.Call) and call_name(node) == name


def classify_server(site):
    evs, i, s = site.st.events, site.idx, site.server
    pc = site.pc()
    d0 = _defs(evs, i)
    names = {s}
    if s in d0 and d0[s].d.get("value") and re.fullmatch(r"[\w.\[\]]+\.server", d0[s].d["value"]):
        names.add(d0[s].d["value"])      # `server = victim.server` taken before the link was cleared
    # DETACHED: argument of an earlier detatch_server on this path (latest relevant event wins)
    for e in reversed(evs[:i]):
        if e.kind in ("call", "enter") and e.d["meth"] == "detatch_server" and (e.d["args"] + ["?"])[0] in names:
            alive = any(guards.implies(pc, ("in", x, "self.servers"))[0] for x in names)
            return "DETACHED", alive
        if e.kind in ("call", "enter") and e.d["meth"] == "attach_server" and (e.d["args"] + ["?"])[0] in names:
            return "ALREADY-ATTACHED", False
    d = _defs(evs, i)
    if s in d:
        o = origin(evs, i, s)
        vn = o[0] if o else d[s].d.get("value_node")
        if _is_call_to(vn, "find_free_server"):
            tested = guards.implies(pc, guards.neg(("isnone", s)))[0]
            return "FIND", tested
    # loop variable over the free-server filter
    for e in reversed(evs[:i]):
        if e.kind == "iter" and isinstance(e.node, ast.For) and isinstance(e.node.target, ast.Name) and (e.node.target.id + e.frame.tag) == s:
            it = e.node.iter
            src = None
            if isinstance(it, ast.Name):
                k = it.id + e.frame.tag
                if k in d:
                    src = d[k].d.get("value_node")
            else:
                src = it
            if isinstance(src, ast.ListComp) and len(src.generators) == 1:
                g = src.generators[0]
                v = unparse(g.target)
                if unparse(g.iter) == "self.servers" and unparse(src.elt) == v and [unparse(c).replace(" ", "") for c in g.ifs] in (["not%s.busy" % v], ["%s.busyisFalse" % v], ["%s.busy==False" % v]):
                    return "FILTER", True
            return "LOOP-OVER-" + unparse(it), False
    return "UNKNOWN", False


def classify_customer(site, root_params):
    evs, i, c = site.st.events, site.idx, site.cust
    pc = site.pc()
    d = _defs(evs, i)
    if c in d:
        o = origin(evs, i, c)
        vn = o[0] if o else d[c].d.get("value_node")
        if _is_call_to(vn, "choose_next_customer"):
            return "CHOSEN", guards.implies(pc, guards.neg(("isnone", c)))[0]
        txt = unparse(vn).replace(" ", "") if vn is not None else ""
        if txt in ("[iforiinself.interrupted_individuals][0]", "self.interrupted_individuals[0]"):
            return "INTERRUPTED", True
    if c.replace(" ", "").strip("()") in ("self.interrupted_individuals[0]", "[iforiinself.interrupted_individuals][0]"):
        return "INTERRUPTED", True
    if c == "self.next_individual" and site.st.events and site.view.resolve("change_customer_class_while_waiting") and \
            any(f.func.name == "change_customer_class_while_waiting" for f in _frames(site.ev.frame)):
        return "CLASSCHANGER", True      # selected by find_next_class_change, which filters `not ind.server`
    if c in root_params:
        return "NEWCOMER", True
    return "UNKNOWN", False


def _frames(fr):
    while fr is not None:
        yield fr
        fr = fr.parent


def feasible(program, view, root, st):
    """some configuration valuation reaching `root` is consistent with every guard of the path.  Assume-guarantee with
    C11/C14 (finding K-01): decide_preempt is entered only on configurations with server objects (not inf, not slotted)."""
    from .config import contexts
    C = contexts(program, view)
    needs_servers = any(e.kind == "enter" and e.d["meth"] == "decide_preempt" for e in st.events)
    for v in C.reachable(root):
        if needs_servers and (v["INF"] or v["SLOTTED"]):
            continue
        if C.pc_possible(st.events, len(st.events), v):
            return True
    return False


_cache = {}


def sites(program, view, loop_iters=(0, 1)):
    """-> list of (root, Site) for every attach/detach call event on every path of every root"""
    key = (id(program), view.name, loop_iters)
    if key in _cache:
        return _cache[key]
    out = []
    for root in ROOTS:
        r = view.resolve(root)
        if r is None:
            continue
        cls, fn = r
        params = [a.arg for a in fn.args.args][1:]
        w = Walker(program, view, keep=_keep, track=lambda t, f: True, inline=lambda ev: ev.d["meth"] not in NO_INLINE and ev.d["meth"] not in ("attach_server", "detatch_server"),
                   loop_iters=loop_iters)
        for st in w.paths_of(cls, fn):
            if st.status == "raise" or not feasible(program, view, root, st):
                continue
            for i, e in enumerate(st.events):
                if e.kind == "call" and e.d["meth"] in ("attach_server", "detatch_server") and e.d.get("recv") == "self":
                    out.append((root, params, Site(e.d["meth"], e, st, i, view)))
    _cache[key] = out
    return out


def starts(program, view, loop_iters=(0, 1)):
    """service START events (assign of a non-False service_start_date) with the attach on the same customer, if any -> list of dict"""
    out = []
    for root in ROOTS:
        r = view.resolve(root)
        if r is None:
            continue
        cls, fn = r
        params = [a.arg for a in fn.args.args][1:]
        w = Walker(program, view, keep=_keep, track=lambda t, f: True, inline=lambda ev: ev.d["meth"] not in NO_INLINE and ev.d["meth"] not in ("attach_server", "detatch_server"),
                   loop_iters=loop_iters)
        for st in w.paths_of(cls, fn):
            if st.status == "raise" or not feasible(program, view, root, st):
                continue
            for i, e in enumerate(st.events):
                if e.kind == "assign" and e.d["target"].endswith(".service_start_date") and e.d["value"] != "False":
                    tok = e.d["target"][: -len(".service_start_date")]
                    att = [x for x in st.events if x.kind == "call" and x.d["meth"] == "attach_server" and (x.d["args"] + ["?", "?"])[1].strip("()") == tok.strip("()")
                           and x.frame.fid == e.frame.fid]      # same method activation, before or after the date assignment
                    if not att:
                        # the dates are written by a newly extracted helper that receives the customer: the attach is in an activation that called it
                        # (the parameter is already spelled as the caller's name when the walker could alias it ...)
                        fr = e.frame.parent
                        while not att and fr is not None:
                            att = [x for x in st.events if x.kind == "call" and x.d["meth"] == "attach_server" and (x.d["args"] + ["?", "?"])[1].strip("()") == tok.strip("()")
                                   and x.frame.fid == fr.fid and rules.new_helper_frame(e.frame, fr)]
                            fr = fr.parent
                    if not att:
                        # (... or it still carries the helper's own tag)
                        fr, name = e.frame, tok.strip("()")
                        while not att and fr.parent is not None and fr.callsite is not None and fr.tag and name.endswith(fr.tag):
                            pname = name[: len(name) - len(fr.tag)]
                            ps = [a.arg for a in fr.func.args.args]
                            ps = ps[1:] if ps and ps[0] == "self" else ps
                            if pname not in ps:
                                break
                            k = ps.index(pname)
                            arg = fr.callsite.args[k] if k < len(fr.callsite.args) else next((kw.value for kw in fr.callsite.keywords if kw.arg == pname), None)
                            if not isinstance(arg, ast.Name):
                                break
                            name = arg.id + fr.parent.tag
                            att = [x for x in st.events if x.kind == "call" and x.d["meth"] == "attach_server" and (x.d["args"] + ["?", "?"])[1].strip("()") == name
                                   and x.frame.fid == fr.parent.fid]
                            fr = fr.parent
                    site = Site("start", e, st, i, view)
                    site.cust = tok
                    out.append({"root": root, "params": params, "event": e, "state": st, "idx": i, "token": tok, "attached": bool(att), "site": site})
    return out
