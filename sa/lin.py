"""Integer-linear normal form for population/capacity guards (DESIGN §4 C06: '+1/-1 offsets are evaluated')."""
import ast

from . import guards


def linear(expr_text):
    """'a.b + 1 - c' -> ({'a.b': 1, 'c': -1}, 1); None if not linear"""
    try:
        n = ast.parse(expr_text, mode="eval").body
    except SyntaxError:
        return None
    return _lin(n)


def _lin(n):
    if isinstance(n, ast.Constant) and isinstance(n.value, (int, float)) and not isinstance(n.value, bool):
        return {}, n.value
    if isinstance(n, ast.UnaryOp) and isinstance(n.op, ast.USub):
        r = _lin(n.operand)
        if r is None:
            return None
        return {k: -v for k, v in r[0].items()}, -r[1]
    if isinstance(n, ast.BinOp) and isinstance(n.op, (ast.Add, ast.Sub)):
        a, b = _lin(n.left), _lin(n.right)
        if a is None or b is None:
            return None
        sign = 1 if isinstance(n.op, ast.Add) else -1
        terms = dict(a[0])
        for k, v in b[0].items():
            terms[k] = terms.get(k, 0) + sign * v
        return {k: v for k, v in terms.items() if v != 0}, a[1] + sign * b[1]
    if isinstance(n, (ast.Compare, ast.BoolOp, ast.IfExp, ast.Lambda)):
        return None
    # products / quotients are opaque terms
    return {ast.unparse(n): 1}, 0


def int_atom(a, b, strict):
    """a < b (strict) or a <= b over integers -> formula over a canonical ('ile', terms, k) atom: sum(terms) <= k"""
    la, lb = linear(a), linear(b)
    if la is None or lb is None:
        return None
    terms = dict(la[0])
    for k, v in lb[0].items():
        terms[k] = terms.get(k, 0) - v
    terms = {k: v for k, v in terms.items() if v != 0}
    const = la[1] - lb[1]
    bound = -const - (1 if strict else 0)     # sum(terms) <= bound
    if not terms:
        return ("const", 0 <= bound)
    items = sorted(terms.items())
    if items[0][1] < 0:
        # sum <= k  <=>  not( -sum <= -k-1 )
        neg_items = tuple((k, -v) for k, v in items)
        return ("not", ("ile", neg_items, -bound - 1))
    return ("ile", tuple(items), bound)


def intify(f):
    """rewrite every ('lt', a, b) atom of formula f into the integer-linear canonical form"""
    k = f[0]
    if k in ("and", "or"):
        return (k, tuple(intify(p) for p in f[1]))
    if k == "not":
        return guards.neg(intify(f[1]))
    if k == "lt":
        r = int_atom(f[1], f[2], True)
        return r if r is not None else f
    return f
