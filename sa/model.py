"""Program model of /repo/ciw built from source text only (ast); nothing in ciw is imported or executed.

Program  : modules, classes (with C3 MRO over in-repo bases), module-level functions
View     : a concrete class seen through its MRO -- `self.m()` resolves through the view,
           `super().m()` resolves to the next definition after the defining class.
"""
import ast
import hashlib
import os

REPO = os.environ.get("CIW_REPO", "/repo")


KNOWN_NAMES = set()      # class / method / function names of the analysed package (never alpha-renamed in finding keys)


def clone(node):
    """structural copy of an AST (fields and positions only): the annotations this package hangs on nodes (_parent, _module, ...) point back into the whole
    module, so copy.deepcopy of an annotated node would copy the world"""
    if isinstance(node, list):
        return [clone(x) for x in node]
    if not isinstance(node, ast.AST):
        return node
    new = type(node)()
    for f in node._fields:
        if hasattr(node, f):
            setattr(new, f, clone(getattr(node, f)))
    for a in ("lineno", "col_offset", "end_lineno", "end_col_offset"):
        if hasattr(node, a):
            setattr(new, a, getattr(node, a))
    return new


class AnalysisError(Exception):
    """Raised when an anchor is missing / an idiom is not recognised.  Exit code 2, never a VIOLATION."""


class Module:
    def __init__(self, name, path, rel, src):
        self.name, self.path, self.rel, self.src = name, path, rel, src
        self.tree = ast.parse(src, filename=path)

    def annotate(self):
        for n in ast.walk(self.tree):
            for c in ast.iter_child_nodes(n):
                c._parent = n
            n._module = self


class ClassInfo:
    def __init__(self, name, module, node):
        self.name, self.module, self.node = name, module, node
        self.bases = []
        for b in node.bases:
            if isinstance(b, ast.Name):
                self.bases.append(b.id)
            elif isinstance(b, ast.Attribute):
                self.bases.append(b.attr)
        self.methods = {}
        self.props = set()
        for st in node.body:
            if isinstance(st, ast.FunctionDef):
                self.methods[st.name] = st
                st._cls = self
                for d in st.decorator_list:
                    if isinstance(d, ast.Name) and d.id == "property":
                        self.props.add(st.name)

    def __repr__(self):
        return "<class %s>" % self.name


class Program:
    def __init__(self, root=None):
        self.root = root or REPO
        self.modules = {}
        self.classes = {}
        self.functions = {}          # (module name, func name) -> FunctionDef
        pkg = os.path.join(self.root, "ciw")
        if not os.path.isdir(pkg):
            raise AnalysisError("package directory %s not found" % pkg)
        digest = hashlib.sha256()
        for dp, dns, fns in sorted(os.walk(pkg)):
            dns.sort()
            if os.path.basename(dp) == "tests" or "/tests" in dp[len(pkg):]:
                continue
            for fn in sorted(fns):
                if not fn.endswith(".py"):
                    continue
                path = os.path.join(dp, fn)
                rel = os.path.relpath(path, self.root)
                name = rel[:-3].replace(os.sep, ".")
                if name.endswith(".__init__"):
                    name = name[: -len(".__init__")]
                with open(path, encoding="utf-8") as fh:
                    src = fh.read()
                digest.update(rel.encode() + b"\0" + src.encode())
                try:
                    m = Module(name, path, rel, src)
                except SyntaxError as e:
                    raise AnalysisError("cannot parse %s: %s" % (rel, e))
                self.modules[name] = m
        self.digest = digest.hexdigest()
        for m in self.modules.values():
            for st in m.tree.body:
                if isinstance(st, ast.ClassDef):
                    ci = ClassInfo(st.name, m, st)
                    if st.name in self.classes:
                        raise AnalysisError("duplicate class name %s (%s, %s)" % (
                            st.name, self.classes[st.name].module.rel, m.rel))
                    self.classes[st.name] = ci
                elif isinstance(st, ast.FunctionDef):
                    self.functions[(m.name, st.name)] = st
                    st._cls = None
        self._mro = {}
        self._views = {}
        # normal forms (sa/desugar.py): class-level constants, getattr(self, "name"), specialised private helpers, interchangeable idioms
        from . import desugar
        desugar.normalise_program(self)
        for m in self.modules.values():
            m.annotate()
        for ci in self.classes.values():
            KNOWN_NAMES.add(ci.name)
            KNOWN_NAMES.update(ci.methods)
        KNOWN_NAMES.update(k[1] for k in self.functions)

    # ---- class hierarchy -------------------------------------------------------------------
    def mro(self, cname):
        if cname in self._mro:
            return self._mro[cname]
        ci = self.classes[cname]
        bases = [b for b in ci.bases if b in self.classes]
        seqs = [list(self.mro(b)) for b in bases] + [list(bases)]
        res = [cname]
        while any(seqs):
            seqs = [s for s in seqs if s]
            for s in seqs:
                cand = s[0]
                if not any(cand in t[1:] for t in seqs):
                    break
            else:
                raise AnalysisError("inconsistent MRO for %s" % cname)
            res.append(cand)
            for s in seqs:
                if s and s[0] == cand:
                    del s[0]
        self._mro[cname] = tuple(res)
        return self._mro[cname]

    def subclasses(self, cname):
        """cname and every in-repo class that has it in its MRO (sorted, cname first)."""
        if cname not in self.classes:
            raise AnalysisError("anchor class %s not found" % cname)
        out = [c for c in sorted(self.classes) if cname in self.mro(c) and c != cname]
        return [cname] + out

    def view(self, cname):
        if cname not in self._views:
            if cname not in self.classes:
                raise AnalysisError("anchor class %s not found" % cname)
            self._views[cname] = View(self, cname)
        return self._views[cname]

    def module_of(self, node):
        return getattr(node, "_module", None)

    def func_name(self, fn):
        c = getattr(fn, "_cls", None)
        return (c.name + "." if c else "") + fn.name

    def all_functions(self):
        """Yield (ClassInfo|None, FunctionDef) for every function/method of the package."""
        for ci in self.classes.values():
            for f in ci.methods.values():
                yield ci, f
        for f in self.functions.values():
            yield None, f

    def classes_defining(self, mname):
        return [c for c in self.classes.values() if mname in c.methods]


class View:
    """A concrete class seen through its MRO."""

    def __init__(self, program, cname):
        self.program, self.name = program, cname
        self.mro = program.mro(cname)
        self.table = {}
        for c in reversed(self.mro):
            ci = program.classes[c]
            for mn, fn in ci.methods.items():
                self.table[mn] = (ci, fn)

    def resolve(self, mname):
        return self.table.get(mname)

    def method(self, mname):
        r = self.table.get(mname)
        if r is None:
            raise AnalysisError("anchor method %s.%s not found" % (self.name, mname))
        return r

    def super_resolve(self, defining_cls, mname):
        idx = self.mro.index(defining_cls.name)
        for c in self.mro[idx + 1:]:
            ci = self.program.classes[c]
            if mname in ci.methods:
                return ci, ci.methods[mname]
        return None

    def is_property(self, name):
        r = self.table.get(name)
        return bool(r) and name in r[0].props

    def methods(self):
        return sorted(self.table)

    def __repr__(self):
        return "<view %s>" % self.name


# ---- small ast helpers ---------------------------------------------------------------------
def unparse(n):
    return ast.unparse(n) if n is not None else "None"


def loc(node):
    m = getattr(node, "_module", None)
    return "%s:%s" % (m.rel if m else "?", getattr(node, "lineno", "?"))


def is_self_attr(n, attr=None):
    return (isinstance(n, ast.Attribute) and isinstance(n.value, ast.Name) and n.value.id == "self"
            and (attr is None or n.attr == attr))


def enclosing_function(node):
    p = getattr(node, "_parent", None)
    while p is not None and not isinstance(p, (ast.FunctionDef, ast.Lambda)):
        p = getattr(p, "_parent", None)
    return p


def enclosing_def(node):
    p = getattr(node, "_parent", None)
    while p is not None and not isinstance(p, ast.FunctionDef):
        p = getattr(p, "_parent", None)
    return p


def call_name(call):
    """Last component of the callee: f(...) -> f ; a.b.m(...) -> m ; else None."""
    f = call.func
    if isinstance(f, ast.Name):
        return f.id
    if isinstance(f, ast.Attribute):
        return f.attr
    return None


def is_inf_literal(n):
    """float('inf') / float("Inf") / math.inf / inf."""
    if isinstance(n, ast.Call) and isinstance(n.func, ast.Name) and n.func.id == "float" and len(n.args) == 1:
        a = n.args[0]
        return isinstance(a, ast.Constant) and isinstance(a.value, str) and a.value.lower() in ("inf", "+inf", "infinity")
    if isinstance(n, ast.Attribute) and n.attr == "inf":
        return True
    if isinstance(n, ast.Name) and n.id == "inf":
        return True
    return False


def body_stmts(stmts):
    """statements of a body without docstrings and `pass`"""
    if isinstance(stmts, (ast.FunctionDef, ast.If, ast.For, ast.While)):
        stmts = stmts.body
    return [x for x in stmts if not isinstance(x, ast.Pass) and not (isinstance(x, ast.Expr) and isinstance(x.value, ast.Constant))]


_KEEP = None


def alpha(node_or_text, program=None, extra_keep=()):
    """alpha-normalised text: every identifier that is not a builtin / package-level name / `self` is renamed by order of first
    appearance (_1, _2, ...), so that comparisons of code shapes are insensitive to the names of locals and parameters"""
    import builtins
    if isinstance(node_or_text, str):
        node = ast.parse(node_or_text)
    else:
        node = ast.parse(ast.unparse(node_or_text))
    keep = set(dir(builtins)) | {"self", "ciw", "np", "random", "itertools", "copy", "nan", "isinf", "Decimal", "getcontext", "tqdm", "nx", "cycle", "add", "mul", "sub", "truediv"} | set(extra_keep)
    if program is not None:
        keep |= set(program.classes) | {k[1] for k in program.functions}
    else:
        keep |= {"random_choice", "flatten_list", "DataRecord", "Schedule", "Slotted", "Server", "Individual", "JoinShortestQueue", "LoadBalancing", "Probabilistic", "Node", "ExactNode",
                 "ExactArrivalNode", "ArrivalNode", "ExitNode", "truncated_normal", "expovariate", "uniform", "triangular", "gammavariate", "lognormvariate", "weibullvariate"}
    mapping = {}

    class V(ast.NodeTransformer):
        def visit_Name(self, n):
            if n.id in keep:
                return n
            if n.id not in mapping:
                mapping[n.id] = "_%d" % (len(mapping) + 1)
            return ast.Name(id=mapping[n.id], ctx=n.ctx)

        def visit_arg(self, n):
            if n.arg in keep:
                return n
            if n.arg not in mapping:
                mapping[n.arg] = "_%d" % (len(mapping) + 1)
            n.arg = mapping[n.arg]
            return n

        def visit_keyword(self, n):
            n.value = self.visit(n.value)
            return n
    out = V().visit(node)
    return ast.unparse(ast.fix_missing_locations(out)).replace('"', "'")


def alpha_eq(a, b, program=None):
    return alpha(a, program) == alpha(b, program)
