"""Verdict bookkeeping, known findings, evidence and violation files."""
import json
import os
import re
import time

VERIF = os.path.dirname(os.path.dirname(os.path.abspath(__file__)))


def norm_construct(text):
    """whitespace-insensitive construct text used in finding keys"""
    return re.sub(r"\s+", " ", text.strip())[:200]


_kc_cache = {}


def key_construct(text):
    if text not in _kc_cache:
        from .model import alpha, KNOWN_NAMES
        import re
        if re.fullmatch(r"[\w\- :;,/>']+", text.strip()) and not re.search(r"\w \w+ = ", text):
            _kc_cache[text] = text.strip()          # a bare field / method name chosen by the rule, not a local
        else:
            try:
                _kc_cache[text] = alpha(text, extra_keep=KNOWN_NAMES)
            except SyntaxError:
                _kc_cache[text] = text
    return _kc_cache[text]


class Finding:
    def __init__(self, rule, where, construct, reason, message, loc="", witness=None):
        self.rule, self.where, self.reason, self.message = rule, where, reason, message
        self.construct = norm_construct(construct)
        self.loc = loc
        self.witness = witness or []

    @property
    def key(self):
        """rule | Class.method | construct with local/parameter names alpha-normalised | reason -- no line numbers, no local names"""
        return "%s|%s|%s|%s" % (self.rule, self.where, key_construct(self.construct), self.reason)

    def as_dict(self):
        return {"key": self.key, "rule": self.rule, "where": self.where, "construct": self.construct,
                "reason": self.reason, "message": self.message, "loc": self.loc, "witness": self.witness}


class Obligation:
    def __init__(self, oid, desc):
        self.oid, self.desc = oid, desc
        self.instances = 0          # instances evaluated
        self.nontrivial = set()     # distinct (construct) instances
        self.failed = 0
        self.samples = []

    def ok(self, instance, sample=None):
        self.instances += 1
        self.nontrivial.add(instance)
        if sample is not None and len(self.samples) < 3:
            self.samples.append(sample)

    def seen(self, instance):
        self.instances += 1
        self.nontrivial.add(instance)


class Ctx:
    def __init__(self, prop, tier, program, seed=0):
        self.prop, self.tier, self.program, self.seed = prop, tier, program, seed
        self.obligations = []
        self.findings = []
        self.errors = []
        self.counters = {}
        self.assumptions = []
        self.notes = []
        self.t0 = time.time()

    def ob(self, oid, desc):
        o = Obligation(oid, desc)
        self.obligations.append(o)
        return o

    def count(self, name, n=1):
        self.counters[name] = self.counters.get(name, 0) + n

    def _anchor_wheres(self, where):
        """a finding located in a newly extracted helper (a method that is not part of the pinned API) is attributed to the pinned method(s) on whose
        behalf the helper runs, so that moving code into a helper does not rename the finding"""
        if not isinstance(where, str) or "." not in where or self.program is None:
            return [where]
        c, m = where.rsplit(".", 1)
        from .anchors import ANCHOR_METHODS
        ci = getattr(self.program, "classes", {}).get(c)
        if m in ANCHOR_METHODS or ci is None or m not in ci.methods:
            return [where]
        from . import rules
        eff = sorted(e for e in rules.effective_names(self.program, ci, ci.methods[m]) if e in ANCHOR_METHODS)
        out = []
        for e in eff:
            owner = c
            for c2 in self.program.mro(c):
                if c2 in self.program.classes and e in self.program.classes[c2].methods:
                    owner = c2
                    break
            out.append("%s.%s" % (owner, e))
        return out or [where]

    def violation(self, ob, rule, where, construct, reason, message, loc="", witness=None):
        wheres = self._anchor_wheres(where)
        if wheres != [where]:
            last = None
            for w_ in wheres:
                last = self._violation(ob, rule, w_, construct, reason, message + " [in helper %s]" % where, loc, witness)
            return last
        return self._violation(ob, rule, where, construct, reason, message, loc, witness)

    def _violation(self, ob, rule, where, construct, reason, message, loc="", witness=None):
        f = Finding(rule, where, construct, reason, message, loc, witness)
        if ob is not None:
            ob.failed += 1
            ob.instances += 1
            ob.nontrivial.add(f.construct)
        for g in self.findings:
            if g.key == f.key:
                return g
        self.findings.append(f)
        return f

    def unrecognised(self, msg):
        if msg not in self.errors:
            self.errors.append(msg)

    def floor(self, what, found, minimum):
        """instance floor: fewer anchors than confirmed by hand => the rule would pass vacuously"""
        self.counters["floor:" + what] = found
        if found < minimum:
            self.unrecognised("floor: %s: found %d instance(s), expected at least %d" % (what, found, minimum))

    def assume(self, text):
        if text not in self.assumptions:
            self.assumptions.append(text)


def load_known():
    p = os.path.join(VERIF, "known_findings.json")
    if not os.path.exists(p):
        return []
    with open(p) as fh:
        return json.load(fh).get("findings", [])


def finish(ctx, explanation, technique_rule, quiet=False):
    """Print the verdict lines, write evidence + violation files, return the exit code."""
    known = {k["key"]: k for k in load_known() if k.get("status") == "known"}
    base = os.environ.get("VERIF_OUTDIR") or VERIF
    outdir = os.path.join(base, "out", ctx.prop)
    os.makedirs(outdir, exist_ok=True)
    for fn in os.listdir(outdir):
        if fn.startswith("violation-"):
            os.remove(os.path.join(outdir, fn))
    new, matched = [], []
    for f in ctx.findings:
        (matched if f.key in known else new).append(f)
    for f in matched:
        k = known[f.key]
        print("KNOWN-FINDING: property=%s %s [%s] %s (%s)" % (ctx.prop, k.get("id", ""), f.rule, k.get("what_fails", f.message), f.loc))
    for i, f in enumerate(new):
        path = os.path.join(outdir, "violation-%d.json" % i)
        with open(path, "w") as fh:
            json.dump({"property": ctx.prop, "finding": f.as_dict()}, fh, indent=1)
        print("VIOLATION property=%s replay=%s" % (ctx.prop, path))
        print("  rule     : %s" % f.rule)
        print("  at       : %s  (%s)" % (f.loc, f.where))
        print("  construct: %s" % f.construct)
        print("  why      : %s" % f.message)
        for w in f.witness[:12]:
            print("    | %s" % w)
    for e in ctx.errors:
        print("ANALYSIS-ERROR property=%s %s" % (ctx.prop, e))
    n_ob = sum(max(o.instances, 1) for o in ctx.obligations)
    n_failed = sum(o.failed for o in ctx.obligations)
    distinct = sum(len(o.nontrivial) for o in ctx.obligations)
    samples = []
    for o in ctx.obligations:
        for s in o.samples[:2]:
            samples.append({"obligation": o.oid, "case": s})
    if not samples:
        samples = [{"obligation": o.oid, "case": o.desc} for o in ctx.obligations[:3]]
    wall = time.time() - ctx.t0
    ev = {
        "property_id": ctx.prop,
        "tier": ctx.tier,
        "seed": ctx.seed,
        "level": "other",
        "coverage": {
            "explanation": explanation,
            "obligations": n_ob,
            "discharged": n_ob - n_failed,
            "evaluations": n_ob,
            "distinct_nontrivial": distinct,
            "rule": technique_rule,
            "samples": samples[:40],
            "exhaustive": True,
            "per_obligation": [{"id": o.oid, "what": o.desc, "instances": o.instances, "distinct": len(o.nontrivial),
                                "failed": o.failed} for o in ctx.obligations],
            "counters": ctx.counters,
            "modules_parsed": len(ctx.program.modules),
            "classes": len(ctx.program.classes),
            "source_digest": ctx.program.digest,
            "known_findings_matched": [f.key for f in matched],
            "new_findings": [f.key for f in new],
            "analysis_errors": ctx.errors,
            "notes": ctx.notes,
        },
        "assumptions": ctx.assumptions,
        "wall_s": round(wall, 3),
        "violations": len(new),
    }
    evdir = os.path.join(base, "evidence")
    os.makedirs(evdir, exist_ok=True)
    with open(os.path.join(evdir, ctx.prop + ".json"), "w") as fh:
        json.dump(ev, fh, indent=1, default=str)
    if not quiet:
        print("%s [%s]: %d obligations over %d instances (%d distinct), %d violation(s), %d known finding(s), %d analysis error(s), %.2fs"
              % (ctx.prop, ctx.tier, len(ctx.obligations), n_ob, distinct, len(new), len(matched), len(ctx.errors), wall))
        for o in ctx.obligations:
            print("  %-6s %-4s %3d inst  %s" % ("FAIL" if o.failed else "ok", o.oid, o.instances, o.desc))
    if new:
        return 1
    if ctx.errors:
        return 2
    return 0
