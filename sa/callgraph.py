"""Whole-package call graph over name-resolved callees (DESIGN §2.1) and random-source detection (R10).

Resolution is deliberately an over-approximation: `x.m(...)` on a non-self receiver resolves to every in-repo class that
defines `m`; `self.m(...)` resolves through every concrete view of the class family.  That is sound for the
reachability questions asked here ("reaches no random source", "reachable from the stop epilogue").
"""
import ast

from .model import call_name, unparse

RANDOM_MODULE_FUNCS = {"random", "uniform", "expovariate", "gammavariate", "normalvariate", "lognormvariate", "weibullvariate", "triangular",
                       "choices", "choice", "randint", "sample", "shuffle", "gauss", "betavariate", "paretovariate", "vonmisesvariate", "randrange",
                       "getrandbits", "seed"}


class CallGraph:
    def __init__(self, program):
        self.P = program
        self.funcs = {}            # qualname -> (ClassInfo|None, FunctionDef)
        for ci, fn in program.all_functions():
            self.funcs[program.func_name(fn)] = (ci, fn)
        self.by_method = {}
        for q, (ci, fn) in self.funcs.items():
            self.by_method.setdefault(fn.name, []).append(q)
        self.imports = {}          # module name -> {local name: (module, original)} for `from random import x`
        for m in program.modules.values():
            self._imports_of(m.name, set())
        self.edges = {}
        self.self_calls = {}       # qualname -> names of methods called on self / super()
        self.other_edges = {}      # qualname -> callees reached other than through self
        self.sources = {}          # qualname -> list of (kind, text, node)
        for q, (ci, fn) in self.funcs.items():
            self._scan(q, ci, fn)
        self._reach = {}

    def _imports_of(self, mname, busy):
        if mname in self.imports:
            return self.imports[mname]
        if mname in busy or mname not in self.P.modules:
            return {}
        busy.add(mname)
        m = self.P.modules[mname]
        tab = {}
        for st in m.tree.body:
            if isinstance(st, ast.ImportFrom):
                src = st.module or ""
                if st.level:
                    base = mname.split(".")
                    if not m.path.endswith("__init__.py"):
                        base = base[:-1]
                    base = base[: len(base) - (st.level - 1)]
                    src = ".".join(base + ([st.module] if st.module else []))
                for a in st.names:
                    if a.name == "*":
                        tab.update(self._imports_of(src, busy))      # star import of an in-repo module re-exports its imports
                    else:
                        tab[a.asname or a.name] = (src, a.name)
            elif isinstance(st, ast.Import):
                for a in st.names:
                    tab[a.asname or a.name] = (a.name, None)
        self.imports[mname] = tab
        return tab

    def _scan(self, q, ci, fn):
        out, src = set(), []
        selfnames, other = set(), set()
        mod = fn._module.name
        imp = self.imports.get(mod, {})
        for n in ast.walk(fn):
            if not isinstance(n, ast.Call):
                continue
            f = n.func
            txt = unparse(f)
            # random sources
            if isinstance(f, ast.Name) and f.id in imp and imp[f.id][0] == "random":
                src.append(("random." + imp[f.id][1], unparse(n), n))
            elif isinstance(f, ast.Attribute) and isinstance(f.value, ast.Name) and f.value.id in imp and imp[f.value.id] == ("random", None):
                src.append(("random." + f.attr, unparse(n), n))
            elif txt.startswith("ciw.rng."):
                src.append(("ciw.rng." + f.attr, unparse(n), n))
            elif ".random." in "." + txt or txt.startswith(("np.random", "numpy.random")):
                src.append(("numpy-random:" + txt, unparse(n), n))
            elif call_name(n) in ("urandom", "uuid4", "uuid1", "token_bytes", "default_rng", "SystemRandom", "Random", "time", "perf_counter", "monotonic", "time_ns") and not (
                    isinstance(f, ast.Attribute) and isinstance(f.value, ast.Name) and f.value.id == "self"):
                src.append(("nondeterministic:" + txt, unparse(n), n))
            # callees
            name = call_name(n)
            if name is None:
                continue
            if isinstance(f, ast.Attribute):
                v = f.value
                if isinstance(v, ast.Name) and v.id == "self" and ci is not None:
                    selfnames.add(name)
                    for c in self._family(ci.name):
                        r = self.P.view(c).resolve(name)
                        if r is not None:
                            out.add("%s.%s" % (r[0].name, name))
                elif isinstance(v, ast.Call) and isinstance(v.func, ast.Name) and v.func.id == "super" and ci is not None:
                    for c in self._family(ci.name):
                        if ci.name in self.P.mro(c):
                            r = self.P.view(c).super_resolve(ci, name)
                            if r is not None:
                                out.add("%s.%s" % (r[0].name, name))
                else:
                    for cand in self.by_method.get(name, []):
                        if self.funcs[cand][0] is not None or txt.startswith("ciw."):
                            out.add(cand)
                            other.add(cand)
            elif isinstance(f, ast.Name):
                if name in self.P.classes:
                    init = self.P.view(name).resolve("__init__")
                    if init:
                        out.add("%s.__init__" % init[0].name)
                        other.add("%s.__init__" % init[0].name)
                for cand in self.by_method.get(name, []):
                    if self.funcs[cand][0] is None:
                        out.add(cand)
                        other.add(cand)
        self.edges[q] = out
        self.self_calls[q] = selfnames
        self.other_edges[q] = other
        self.sources[q] = src

    def _family(self, cname):
        # the class, its subclasses (self may be any of them)
        return self.P.subclasses(cname)

    def reach(self, q):
        if q in self._reach:
            return self._reach[q]
        seen, todo = set(), [q]
        while todo:
            x = todo.pop()
            if x in seen:
                continue
            seen.add(x)
            todo += list(self.edges.get(x, ()))
        self._reach[q] = seen
        return seen

    def random_sources_in_view(self, cname, mname):
        """like random_sources_reached, for the method as the concrete class `cname` runs it: calls on self resolve through cname's own MRO only (an
        override in a subclass of cname is not what cname executes)"""
        view = self.P.view(cname)
        r = view.resolve(mname)
        if r is None:
            return None
        seen, todo = set(), ["%s.%s" % (r[0].name, mname)]
        while todo:
            x = todo.pop()
            if x in seen or x not in self.funcs:
                continue
            seen.add(x)
            ci, fn = self.funcs[x]
            if ci is not None and ci.name in view.mro:
                for nm in self.self_calls.get(x, ()):
                    r2 = view.resolve(nm)
                    if r2 is not None:
                        todo.append("%s.%s" % (r2[0].name, nm))
                todo += list(self.other_edges.get(x, ()))
                # super() calls: keep the family over-approximation restricted to the view's MRO
                todo += [e for e in self.edges.get(x, ()) if e.split(".")[0] in view.mro and e not in self.other_edges.get(x, ()) and e.split(".")[-1] not in self.self_calls.get(x, ())]
            else:
                todo += list(self.edges.get(x, ()))
        out = []
        for x in sorted(seen):
            for s in self.sources.get(x, []):
                out.append((x, s))
        return out, seen

    def random_sources_reached(self, q):
        out = []
        for x in sorted(self.reach(q)):
            for s in self.sources.get(x, []):
                out.append((x, s))
        return out


_cache = {}


def callgraph(program):
    if id(program) not in _cache:
        _cache[id(program)] = CallGraph(program)
    return _cache[id(program)]
