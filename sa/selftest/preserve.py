"""Behaviour-preserving whole-file transformations (DESIGN §7 / Appendix C): the verdict of every property must not change.

Each operator takes the source text of one module and returns new source text (via ast rewrite + ast.unparse).
"""
import ast
import builtins

TARGET_FILES = ("node.py", "arrival_node.py", "simulation.py", "exit_node.py", "processor_sharing.py", "exactnode.py", "server.py",
                "routing/routing.py", "trackers/state_tracker.py", "deadlock/deadlock_detector.py", "schedules.py", "disciplines.py", "auxiliary.py")


class _FlipCompare(ast.NodeTransformer):
    """a < b -> b > a ; a <= b -> b >= a ; a > b -> b < a ; a >= b -> b <= a   (single-operator comparisons only)"""
    MAP = {ast.Lt: ast.Gt, ast.Gt: ast.Lt, ast.LtE: ast.GtE, ast.GtE: ast.LtE}

    def visit_Compare(self, n):
        self.generic_visit(n)
        if len(n.ops) == 1 and type(n.ops[0]) in self.MAP:
            return ast.Compare(left=n.comparators[0], ops=[self.MAP[type(n.ops[0])]()], comparators=[n.left])
        return n


class _NegateCompare(ast.NodeTransformer):
    """a < b -> not a >= b ; a >= b -> not a < b ; ... inside if/while tests only"""
    MAP = {ast.Lt: ast.GtE, ast.GtE: ast.Lt, ast.LtE: ast.Gt, ast.Gt: ast.LtE}

    def _neg(self, t):
        if isinstance(t, ast.Compare) and len(t.ops) == 1 and type(t.ops[0]) in self.MAP:
            return ast.UnaryOp(op=ast.Not(), operand=ast.Compare(left=t.left, ops=[self.MAP[type(t.ops[0])]()], comparators=t.comparators))
        if isinstance(t, ast.BoolOp):
            return ast.BoolOp(op=t.op, values=[self._neg(v) for v in t.values])
        return t

    def visit_If(self, n):
        self.generic_visit(n)
        n.test = self._neg(n.test)
        return n

    def visit_While(self, n):
        self.generic_visit(n)
        n.test = self._neg(n.test)
        return n


class _InvertIf(ast.NodeTransformer):
    """if c: A else: B  ->  if not c: B else: A   (plain else branches only, not elif chains)"""

    def visit_If(self, n):
        self.generic_visit(n)
        if n.orelse and not (len(n.orelse) == 1 and isinstance(n.orelse[0], ast.If)):
            return ast.If(test=ast.UnaryOp(op=ast.Not(), operand=n.test), body=n.orelse, orelse=n.body)
        return n


class _InsertPass(ast.NodeTransformer):
    def visit_FunctionDef(self, n):
        self.generic_visit(n)
        i = 1 if n.body and isinstance(n.body[0], ast.Expr) and isinstance(n.body[0].value, ast.Constant) and isinstance(n.body[0].value.value, str) else 0
        n.body.insert(i, ast.Pass())
        n.body.append(ast.Pass())
        return n


class _AugToAssign(ast.NodeTransformer):
    """x += k -> x = x + k  for attribute targets"""

    def visit_AugAssign(self, n):
        if isinstance(n.target, ast.Attribute) and isinstance(n.op, (ast.Add, ast.Sub)):
            load = ast.parse(ast.unparse(n.target), mode="eval").body
            return ast.Assign(targets=[n.target], value=ast.BinOp(left=load, op=n.op, right=n.value), lineno=n.lineno)
        return n


class _RenameLocals(ast.NodeTransformer):
    """rename every function-local variable that is not a parameter (parameters may be passed by keyword)"""

    def visit_FunctionDef(self, fn):
        params = {a.arg for a in fn.args.args + fn.args.kwonlyargs}
        if fn.args.vararg:
            params.add(fn.args.vararg.arg)
        if fn.args.kwarg:
            params.add(fn.args.kwarg.arg)
        stored = set()
        comp_bound = set()
        for x in ast.walk(fn):
            if isinstance(x, ast.comprehension):
                for t in ast.walk(x.target):
                    if isinstance(t, ast.Name):
                        comp_bound.add(t.id)
            if isinstance(x, ast.Lambda):
                for a in x.args.args:
                    comp_bound.add(a.arg)
        for x in ast.walk(fn):
            if isinstance(x, ast.Name) and isinstance(x.ctx, ast.Store):
                stored.add(x.id)
            if isinstance(x, (ast.Global, ast.Nonlocal)):
                return fn
        names = {n for n in stored if n not in params and n not in comp_bound and not hasattr(builtins, n) and n != "_"}
        if not names:
            return fn

        class R(ast.NodeTransformer):
            def visit_Name(self, n):
                if n.id in names:
                    return ast.copy_location(ast.Name(id=n.id + "_rn", ctx=n.ctx), n)
                return n

            def visit_FunctionDef(self, n):
                return n
        fn.body = [R().visit(s) for s in fn.body]
        return fn


def _names(n):
    out = set()
    for x in ast.walk(n):
        if isinstance(x, ast.Name):
            out.add(x.id)
        elif isinstance(x, ast.Attribute):
            out.add(ast.unparse(x))
    return out


class _SwapIndependent(ast.NodeTransformer):
    """swap adjacent call-free assignments whose read/write sets are disjoint (dependence-preserving reordering)"""

    def _simple(self, st):
        return isinstance(st, (ast.Assign, ast.AugAssign)) and not any(isinstance(x, (ast.Call, ast.Subscript, ast.Yield, ast.Await)) for x in ast.walk(st))

    def _writes(self, st):
        ts = st.targets if isinstance(st, ast.Assign) else [st.target]
        return set(ast.unparse(t) for t in ts)

    def _conflict(self, a, b):
        wa, wb = self._writes(a), self._writes(b)
        ra, rb = _names(a), _names(b)
        def touches(ws, names):
            return any(w == n or n.startswith(w + ".") or w.startswith(n + ".") for w in ws for n in names)
        return touches(wa, rb) or touches(wb, ra) or bool(wa & wb)

    def _process(self, body):
        i = 0
        while i + 1 < len(body):
            a, b = body[i], body[i + 1]
            if self._simple(a) and self._simple(b) and not self._conflict(a, b):
                body[i], body[i + 1] = b, a
                i += 2
            else:
                i += 1
        return body

    def generic_visit(self, node):
        super().generic_visit(node)
        for f in ("body", "orelse", "finalbody"):
            v = getattr(node, f, None)
            if isinstance(v, list) and v and isinstance(v[0], ast.stmt):
                setattr(node, f, self._process(v))
        return node


class _ExtractTail(ast.NodeTransformer):
    """extract the last statement of a method into a new private method when it only uses self and the method's parameters"""

    def visit_ClassDef(self, cls):
        new_methods = []
        for fn in [x for x in cls.body if isinstance(x, ast.FunctionDef)]:
            if fn.name.startswith("__") or len(fn.body) < 3 or fn.decorator_list:
                continue
            if any(isinstance(x, (ast.Yield, ast.YieldFrom)) for x in ast.walk(fn)):
                continue
            tail = fn.body[-1]
            if not isinstance(tail, (ast.Expr, ast.If)) or any(isinstance(x, (ast.Return, ast.Break, ast.Continue, ast.Yield)) for x in ast.walk(tail)):
                continue
            params = [a.arg for a in fn.args.args]
            if not params or params[0] != "self" or fn.args.vararg or fn.args.kwarg:
                continue
            used = {x.id for x in ast.walk(tail) if isinstance(x, ast.Name)}
            stored = {x.id for x in ast.walk(tail) if isinstance(x, ast.Name) and isinstance(x.ctx, ast.Store)}
            local_names = {x.id for x in ast.walk(fn) if isinstance(x, ast.Name) and isinstance(x.ctx, ast.Store)}
            if stored or (used & local_names) - set(params):
                continue
            hname = "_tail_of_" + fn.name
            helper = ast.FunctionDef(name=hname, args=ast.arguments(posonlyargs=[], args=[ast.arg(arg=p) for p in params], kwonlyargs=[], kw_defaults=[], defaults=[]),
                                     body=[tail], decorator_list=[], returns=None, type_comment=None, type_params=[])
            call = ast.Expr(value=ast.Call(func=ast.Attribute(value=ast.Name(id="self", ctx=ast.Load()), attr=hname, ctx=ast.Load()),
                                            args=[ast.Name(id=p, ctx=ast.Load()) for p in params[1:]], keywords=[]))
            fn.body[-1] = call
            new_methods.append(helper)
        cls.body += new_methods
        return cls


OPERATORS = {
    "flip-comparisons": _FlipCompare,
    "negate-comparisons": _NegateCompare,
    "invert-if-else": _InvertIf,
    "insert-pass": _InsertPass,
    "aug-to-assign": _AugToAssign,
    "rename-locals": _RenameLocals,
    "swap-independent": _SwapIndependent,
    "extract-tail-helper": _ExtractTail,
}


def apply(op, src):
    tree = ast.parse(src)
    tree = OPERATORS[op]().visit(tree)
    ast.fix_missing_locations(tree)
    return ast.unparse(tree) + "\n"
