"""Checker self-validation, part of every thorough run (DESIGN §7).

For the property being checked the harness re-derives, from the CURRENT tree, a set of variants in a temporary directory
outside /repo and /verif (removed afterwards), analyses each one statically (variants are never imported or executed), and compares
verdicts with the base verdict:
  * breaking variants (corpus entries marked "V")   -> the set of finding keys must gain at least one key;
  * preserving variants (corpus "S" entries and the whole-tree rewrite operators of preserve.py, the stored independent refactorings) -> identical finding keys, no analysis error.
An insensitive or over-sensitive rule makes the run ANALYSIS-ERROR (exit 2): a weak checker cannot report "held".
"""
import json
import os
import shutil
import subprocess
import sys
import tempfile
from concurrent.futures import ThreadPoolExecutor

from . import preserve
from .corpus import CORPUS

VERIF = os.path.dirname(os.path.dirname(os.path.dirname(os.path.abspath(__file__))))

# refactorings the analysis does not follow (it answers ANALYSIS-ERROR, exit 2, on them -- never a VIOLATION): DESIGN 10.9
UNHANDLED_REFACTORINGS = {}      # (r13-3 was listed here until its helper-fed scans were followed, DESIGN 10.13)


def _analyse(pid, root):
    od = tempfile.mkdtemp(prefix="ciw-selftest-out-")
    try:
        r = subprocess.run([sys.executable, "-m", "sa.run", pid, "--root", root, "--tier", "quick"], cwd=VERIF,
                           env=dict(os.environ, VERIF_OUTDIR=od, VERIF_TIER="quick"), capture_output=True, text=True)
        try:
            ev = json.load(open(os.path.join(od, "evidence", pid + ".json")))
            keys = set(ev["coverage"]["new_findings"]) | set(ev["coverage"]["known_findings_matched"])
            errs = list(ev["coverage"]["analysis_errors"])
        except Exception:
            keys, errs = set(), ["no evidence written: " + (r.stdout + r.stderr)[-300:]]
        return r.returncode, keys, errs
    finally:
        shutil.rmtree(od, ignore_errors=True)


def _variant_dir(src_root):
    d = tempfile.mkdtemp(prefix="ciw-selftest-")
    shutil.copytree(os.path.join(src_root, "ciw"), os.path.join(d, "ciw"), ignore=shutil.ignore_patterns("tests", "__pycache__"))
    return d


def run(pid, ctx):
    """-> (ok, stats dict, messages)"""
    root = ctx.program.root
    base = set(f.key for f in ctx.findings)
    jobs = []
    for i, (p, f, old, new, exp) in enumerate(CORPUS):
        if p == pid:
            jobs.append(("corpus[%d] %s: %s" % (i, f, old.strip().split("\n")[0][:60]), "text", (f, old, new), exp))
    for op in preserve.OPERATORS:
        jobs.append(("operator %s" % op, "op", op, "S"))
    # independently written behaviour-preserving refactorings (DESIGN 10.9): stored as patches against the tree they were written for
    rdir = os.path.join(VERIF, "refactors")
    for name in sorted(os.listdir(rdir)) if os.path.isdir(rdir) else []:
        pf = os.path.join(rdir, name, "patch.diff")
        if os.path.exists(pf) and name not in UNHANDLED_REFACTORINGS:
            jobs.append(("refactoring %s" % name, "patch", pf, "S"))
        elif os.path.exists(pf):
            jobs.append(("refactoring %s (not followed)" % name, "patch", pf, "U"))       # must be undecided at worst: no finding the clean tree does not have

    def one(job):
        name, kind, arg, exp = job
        d = _variant_dir(root)
        try:
            if kind == "text":
                f, old, new = arg
                path = os.path.join(d, "ciw", f)
                if not os.path.exists(path):
                    return name, exp, "skipped", "file missing"
                src = open(path).read()
                if src.count(old) != 1:
                    return name, exp, "skipped", "pattern occurs %d times" % src.count(old)
                open(path, "w").write(src.replace(old, new))
            elif kind == "patch":
                r = subprocess.run(["patch", "-p1", "-s", "-f", "--no-backup-if-mismatch", "-d", d, "-i", arg], capture_output=True, text=True)
                if r.returncode != 0:
                    return name, exp, "skipped", "patch does not apply to the current tree"
            else:
                for f in preserve.TARGET_FILES:
                    path = os.path.join(d, "ciw", f)
                    if os.path.exists(path):
                        src = open(path).read()
                        open(path, "w").write(preserve.apply(arg, src))
            rc, keys, errs = _analyse(pid, d)
            if exp == "V":
                ok = bool(keys - base)
                why = "" if ok else "breaking variant not reported (rc=%d, errors=%s)" % (rc, errs[:1])
            elif exp == "U":
                ok = not (keys - base)
                why = "" if ok else "a refactoring the analysis does not follow is reported as a violation: +%s" % sorted(keys - base)[:2]
            else:
                ok = keys == base and not errs
                why = "" if ok else "verdict changed on a preserving variant: +%s -%s errors=%s" % (sorted(keys - base)[:2], sorted(base - keys)[:2], errs[:1])
            return name, exp, "ok" if ok else "FAILED", why
        finally:
            shutil.rmtree(d, ignore_errors=True)

    results = []
    with ThreadPoolExecutor(max_workers=min(16, os.cpu_count() or 4)) as ex:
        for r in ex.map(one, jobs):
            results.append(r)
    stats = {"variants": len(results), "breaking_ok": sum(1 for r in results if r[1] == "V" and r[2] == "ok"),
             "preserving_ok": sum(1 for r in results if r[1] == "S" and r[2] == "ok"), "skipped": sum(1 for r in results if r[2] == "skipped"),
             "failed": [(r[0], r[3]) for r in results if r[2] == "FAILED"]}
    msgs = []
    for name, exp, status, why in results:
        if status == "FAILED":
            msgs.append("self-validation: %s [%s]: %s" % (name, "breaking" if exp == "V" else "preserving", why))
    return (not stats["failed"]), stats, msgs
